/-
C01 — the state root equals the spec Merkle root of the state content.

`specRoot ver H es = H (encodeNode ver H (build es))`: the hash of the encoding of the canonical
radix-16 trie `build es` of the map (`TrieSpec`).  The model root is the hash of the encoding of
the trie that the Go operations (`TrieMem`) produce.  The theorems show that the Go operations
always produce THE canonical trie of the current map (`Rep.eq_build`: canonical form is kept by
insert / delete / clear-prefix and is unique for a given content), hence the same root, whatever
history led to the map.  `H` (BLAKE2b-256 in the code) is a parameter.

* `C01_root_eq_spec_puts`      every history of puts/overwrites                (no side condition)
* `C01_root_eq_spec_present`   puts and deletes of stored keys                  (no side condition)
* `C01_root_eq_spec_partial`   every history of put/del/clr/clrl whose ops stay outside the C02
                               known-finding regions (there the map itself is already wrong)
* `C01_root_eq_spec_counterexample`  inside the region the trie is not the spec trie
* `C01_history_independent`, `C01_v1_threshold`, `C01_empty`
-/
import Gossamer.Props.C02
import Gossamer.Model.C01
set_option linter.unusedSectionVars false
set_option linter.unusedSimpArgs false
namespace Gossamer.C01
open Gossamer Gossamer.Trie Gossamer.C02

/-- a trie that represents `es` has the spec root of `es` -/
theorem root_of_rep (ver : Ver) (H : Bytes → Bytes) {t : Trie} {es : Entries} (h : Rep t es) :
    hashTrie ver H t = specRoot ver H es := by
  rw [specRoot, ← h.eq_build]

/-! ### put histories -/

/-- the trie / the map after a list of puts (later puts overwrite) -/
def putAll (t : Trie) (kvs : List (Bytes × Bytes)) : Trie := kvs.foldl (fun t e => Trie.put t e.1 e.2) t
def upsertAll (es : Entries) (kvs : List (Bytes × Bytes)) : Entries :=
  kvs.foldl (fun es e => OMap.upsert e.1 e.2 es) es

theorem rep_putAll (kvs : List (Bytes × Bytes)) : ∀ {t : Trie} {es : Entries}, Rep t es →
    Rep (putAll t kvs) (upsertAll es kvs) := by
  induction kvs with
  | nil => intro t es h; exact h
  | cons e r ih => intro t es h; exact ih (h.put e.1 e.2)

/-- For every list of puts (any keys: empty, shared prefixes, prefixes of one another; any values;
    any order, overwrites included) and either version, the root the model computes is the spec
    root of the resulting map. -/
theorem C01_root_eq_spec_puts (ver : Ver) (H : Bytes → Bytes) (kvs : List (Bytes × Bytes)) :
    hashTrie ver H (putAll Trie.nil kvs) = specRoot ver H (upsertAll [] kvs) :=
  root_of_rep ver H (rep_putAll kvs Rep.empty)

/-- `TrieLayout.Root(entries)` (puts into an empty trie) is the spec root -/
theorem C01_layoutRoot (ver : Ver) (H : Bytes → Bytes) (kvs : List (Bytes × Bytes)) :
    layoutRoot ver H kvs = specRoot ver H (upsertAll [] kvs) := C01_root_eq_spec_puts ver H kvs

/-! ### put / delete histories -/

inductive HOp where
  | put (k v : Bytes)
  | del (k : Bytes)

def stepM (t : Trie) : HOp → Trie
  | .put k v => Trie.put t k v
  | .del k => Trie.delete t k

def stepS (es : Entries) : HOp → Entries
  | .put k v => OMap.upsert k v es
  | .del k => OMap.erase k es

/-- every delete removes a key that is stored at that moment -/
def delPresent (es : Entries) : List HOp → Bool
  | [] => true
  | .put k v :: r => delPresent (OMap.upsert k v es) r
  | .del k :: r => (OMap.get k es).isSome && delPresent (OMap.erase k es) r

theorem rep_hist (ops : List HOp) : ∀ {t : Trie} {es : Entries}, Rep t es → delPresent es ops = true →
    Rep (ops.foldl stepM t) (ops.foldl stepS es) := by
  induction ops with
  | nil => intro t es h _; exact h
  | cons op r ih =>
    intro t es h hp
    cases op with
    | put k v => exact ih (h.put k v) (by simpa [delPresent, stepS] using hp)
    | del k =>
      simp only [delPresent, Bool.and_eq_true] at hp
      obtain ⟨v, hv⟩ := Option.isSome_iff_exists.mp hp.1
      exact ih (C02_delete_present h k v hv) hp.2

/-- For every history of inserts, overwrites and deletions of stored keys, and either version, the
    model root is the spec root of the resulting map. -/
theorem C01_root_eq_spec_present (ver : Ver) (H : Bytes → Bytes) (ops : List HOp)
    (hp : delPresent [] ops = true) :
    hashTrie ver H (ops.foldl stepM Trie.nil) = specRoot ver H (ops.foldl stepS []) :=
  root_of_rep ver H (rep_hist ops Rep.empty hp)

/-! ### all mutating ops of the harness language -/

/-- FULL STATEMENT (false for the code, see the counterexample):
    `∀ ops, hashTrie ver H (finalModel ops) = specRoot ver H (finalSpec ops)`.
    Proved for every op sequence (put, delete of any key, clear-prefix, limited clear-prefix, reads)
    that stays outside the regions of the C02 known findings. -/
theorem C01_root_eq_spec_partial (ver : Ver) (H : Bytes → Bytes) (ops : List Op)
    (hs : SafeFrom Trie.nil [] ops) :
    hashTrie ver H (finalModel ops) = specRoot ver H (finalSpec ops) :=
  root_of_rep ver H (C02_final_rep_partial ops hs)

/-- after `put 13 04; del -` (the empty key is not stored) the model trie is empty while the spec trie
    is the leaf of key `13`: the roots are hashes of different encodings -/
theorem C01_root_eq_spec_counterexample :
    ∃ ops : List Op, ∀ ver H, encodeNode ver H (finalModel ops) ≠ encodeNode ver H (build (finalSpec ops)) := by
  refine ⟨[.put [0x13] [0x04], .del []], fun ver H => ?_⟩
  have h1 : finalModel [.put [0x13] [0x04], .del []] = Trie.nil := rfl
  have h2 : build (finalSpec [.put [0x13] [0x04], .del []]) = Trie.leaf [1, 3] [0x04] := rfl
  rw [h1, h2]
  cases ver <;> simp [encodeNode, mustBeHashed, header, packNibs, packEven]

/-- Two histories (of any mutating ops outside the regions) that reach the same map give the same
    root: the root does not depend on the order of inserts, overwrites and deletions. -/
theorem C01_history_independent (ver : Ver) (H : Bytes → Bytes) (ops1 ops2 : List Op)
    (h1 : SafeFrom Trie.nil [] ops1) (h2 : SafeFrom Trie.nil [] ops2)
    (hm : finalSpec ops1 = finalSpec ops2) :
    hashTrie ver H (finalModel ops1) = hashTrie ver H (finalModel ops2) := by
  rw [C01_root_eq_spec_partial ver H ops1 h1, C01_root_eq_spec_partial ver H ops2 h2, hm]

/-- the same for put lists: permuted / repeated puts with the same resulting map -/
theorem C01_history_independent_puts (ver : Ver) (H : Bytes → Bytes) (a b : List (Bytes × Bytes))
    (hm : upsertAll [] a = upsertAll [] b) :
    hashTrie ver H (putAll Trie.nil a) = hashTrie ver H (putAll Trie.nil b) := by
  rw [C01_root_eq_spec_puts, C01_root_eq_spec_puts, hm]

/-- the model trie itself (not only its hash) is independent of the history -/
theorem C01_trie_independent (ops1 ops2 : List Op)
    (h1 : SafeFrom Trie.nil [] ops1) (h2 : SafeFrom Trie.nil [] ops2)
    (hm : finalSpec ops1 = finalSpec ops2) : finalModel ops1 = finalModel ops2 := by
  rw [(C02_final_rep_partial ops1 h1).eq_build, (C02_final_rep_partial ops2 h2).eq_build, hm]

/-- a value is stored by hash exactly in version 1 and when longer than 32 bytes; in version 0 every
    value is inlined (SCALE bytes) -/
theorem C01_v1_threshold (ver : Ver) (H : Bytes → Bytes) (v : Bytes) :
    (mustBeHashed ver v = true ↔ ver = Ver.v1 ∧ 32 < v.length) ∧
    encodeValue Ver.v0 H v = scaleBytes v ∧
    encodeValue Ver.v1 H v = if 32 < v.length then H v else scaleBytes v := by
  refine ⟨?_, ?_, ?_⟩
  · cases ver <;> simp [mustBeHashed]
  · simp [encodeValue, mustBeHashed]
  · simp [encodeValue, mustBeHashed]

/-- the empty state has root `H [0]` (BLAKE2b-256(0x00) in the code), in the spec and in the model -/
theorem C01_empty (ver : Ver) (H : Bytes → Bytes) :
    specRoot ver H [] = H [0] ∧ hashTrie ver H (finalModel []) = H [0] := ⟨rfl, rfl⟩

/-- non-vacuity: keys `""`, `10`, `1001` (a key that is a prefix of another) with values of 31, 32
    and 33 bytes form a represented state, so the theorems apply to it -/
example : Rep (putAll Trie.nil [([], List.replicate 31 1), ([0x10], List.replicate 32 2),
      ([0x10, 0x01], List.replicate 33 3)])
    (upsertAll [] [([], List.replicate 31 1), ([0x10], List.replicate 32 2),
      ([0x10, 0x01], List.replicate 33 3)]) := rep_putAll _ Rep.empty

end Gossamer.C01
