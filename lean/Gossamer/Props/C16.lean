/-
C16 — fork choice selects the best leaf deterministically.

`Spec.IsBest S b` (Lib/BlockTree): `b` is a leaf of the flat specification state that beats every other leaf in the
order (more primary-slot blocks on its chain after the root, then greater number, then earlier arrival, then lower
hash).  The theorems hold for every history and for EVERY iteration order of the two Go maps involved
(`it`: any permutation of the leaf map; `σ`: any permuting function for the temporary map of the tie group).
-/
import Gossamer.Model.C16
import Gossamer.Props.C15
import Gossamer.Lib.BlockTreeBest

namespace Gossamer.C16
open Gossamer.BlockTree Gossamer.C15

theorem leaves_nonempty : ∀ f : Forest, f ≠ [] → leavesF f ≠ [] := by
  intro f
  induction f using forest_ind with
  | nil => intro h; exact absurd rfl h
  | cons i cs rest ih1 ih2 =>
    intro _
    simp only [leavesF]
    by_cases hc : cs = []
    · subst hc; simp
    · have := ih1 hc
      cases hl : leavesF cs with
      | nil => exact absurd hl this
      | cons a as => simp

/-- the core of `bestBlock`: whatever the iteration orders, the result is a leaf with the highest primary count
    that no leaf with the same count beats -/
theorem best_exists {bt : BT} (hi : Inv bt) {it : List Info} {σ : List Info → List Info}
    (hit : it.Perm bt.leaves) (hσ : IsOrder σ) :
    ∃ b, bestBlock bt.root it σ = some (some b) ∧ b ∈ it ∧
      primaryCount bt.root b.hash = highestCount bt.root it ∧
      ∀ y ∈ it, primaryCount bt.root y.hash = highestCount bt.root it → ¬ hlBetter y b := by
  have hmem : ∀ x, x ∈ it ↔ x ∈ leavesF [bt.root] := fun x => (hit.mem_iff).trans (hi.leavesMem x)
  have hne : it ≠ [] := by
    have := leaves_nonempty [bt.root] (by simp)
    cases hl : leavesF [bt.root] with
    | nil => exact absurd hl this
    | cons a as => intro h; have := (hmem a).2 (by simp [hl]); simp [h] at this
  obtain ⟨hle, hex⟩ := highestCount_spec bt.root it
  obtain ⟨x0, hx0, hx0c⟩ := hex hne
  unfold bestBlock
  simp only
  generalize hg : it.filter (fun x => decide (primaryCount bt.root x.hash = highestCount bt.root it)) = g
  have hgm : ∀ x, x ∈ g ↔ x ∈ it ∧ primaryCount bt.root x.hash = highestCount bt.root it := by
    intro x; rw [← hg]; simp [List.mem_filter]
  have hx0g : x0 ∈ g := (hgm x0).2 ⟨hx0, hx0c⟩
  match g, hgm, hx0g with
  | [], _, h => simp at h
  | [x], hgm, _ =>
    have := (hgm x).1 (by simp)
    refine ⟨x, rfl, this.1, this.2, ?_⟩
    intro y hy hyc
    have : y ∈ [x] := (hgm y).2 ⟨hy, hyc⟩
    simp only [List.mem_singleton] at this
    subst this; exact hlBetter_irrefl y
  | x :: y :: r, hgm, _ =>
    -- at least two leaves: none of them is the root, so all numbers are positive
    have hlen : 2 ≤ (leavesF [bt.root]).length := by
      have h1 : (x :: y :: r).length ≤ it.length := by rw [← hg]; exact List.length_filter_le _ _
      have h2 : it.length = (leavesF [bt.root]).length := by
        have hnd : it.Nodup := nodup_of_map _ _ ((hit.map _).nodup_iff.2 hi.leavesNodup)
        have hnd2 : (leavesF [bt.root]).Nodup := nodup_of_map _ _ (leaves_hash_nodup hi.nodup)
        exact ((List.perm_ext_iff_of_nodup hnd hnd2).2 hmem).length_eq
      simp only [List.length_cons] at h1; omega
    have hpos : ∀ z ∈ σ (x :: y :: r), 0 < z.number := by
      intro z hz
      have hz' : z ∈ x :: y :: r := (hσ _).mem_iff.1 hz
      have hzl : z ∈ leavesF [bt.root] := (hmem z).1 ((hgm z).1 hz').1
      have hnums := hi.nums
      have hnd := hi.nodup
      cases hr : bt.root with
      | mk i cs =>
        rw [hr] at hzl hlen hnums hnd
        simp only [Node.info_mk, Node.children_mk] at hnums
        have hl : leavesF [Node.mk i cs] = (if cs.isEmpty then [i] else []) ++ leavesF cs := by simp [leavesF]
        rw [hl] at hzl hlen
        by_cases hce : cs.isEmpty
        · have : cs = [] := by cases cs <;> simp_all
          subst this; simp [leavesF] at hlen
        · simp only [hce, Bool.false_eq_true, if_false, List.nil_append] at hzl
          have := numOK_gt cs _ hnums z (leavesF_sub_infos cs z hzl)
          omega
    have hne' : σ (x :: y :: r) ≠ [] := by
      intro h; have := (hσ (x :: y :: r)).length_eq; simp [h] at this
    obtain ⟨d, hd, hdm, hall⟩ := highestLeaf_some hne' hpos
    have hdg : d ∈ x :: y :: r := (hσ _).mem_iff.1 hdm
    have := (hgm d).1 hdg
    refine ⟨d, hd, this.1, this.2, ?_⟩
    intro z hz hzc
    exact hall z ((hσ _).mem_iff.2 ((hgm z).2 ⟨hz, hzc⟩))

/-- **best = spec.** For every history and every iteration order of the maps, `bestBlock` returns the unique best
    block of the specification state. -/
theorem C16_best_eq_spec (rh rn ra : Nat) (ops : List Op) (it : List Info) (σ : List Info → List Info)
    (hit : it.Perm (tree rh rn ra ops).leaves) (hσ : IsOrder σ) :
    ∃ b, bestWith (tree rh rn ra ops) it σ = some (some b) ∧ (spec rh rn ra ops).IsBest b := by
  obtain ⟨hi, hs⟩ := reach rh rn ra ops
  have e := reachEq rh rn ra ops
  generalize hbt : tree rh rn ra ops = bt at *
  generalize hS : spec rh rn ra ops = S at *
  have hmem : ∀ x, x ∈ it ↔ x ∈ leavesF [bt.root] := fun x => (hit.mem_iff).trans (hi.leavesMem x)
  obtain ⟨b, hb, hbit, hbc, hall⟩ := best_exists hi hit hσ
  refine ⟨b, hb, ?_⟩
  have hinfo : ∀ h i, S.infoOf h = some i ↔ i ∈ infosF [bt.root] ∧ i.hash = h := by
    intro h i; rw [e.infoOf, BT.spec, infoOf_eq hi.nodup, findF_info_iff hi.nodup]
  have hleaf : ∀ h, S.isLeaf h ↔ h ∈ (leavesF [bt.root]).map (·.hash) := by
    intro h; rw [e.isLeaf, BT.spec, isLeaf_iff hi.nodup]
  have hprim : ∀ x, x ∈ infosF [bt.root] → S.primaries x.hash = primaryCount bt.root x.hash := by
    intro x hx
    rw [e.primaries, BT.spec, primaries_eq hi.nodup]
    rw [descF_eq_map_infos]; exact List.mem_map.2 ⟨x, hx, rfl⟩
  have hbl : b ∈ leavesF [bt.root] := (hmem b).1 hbit
  have hbi : b ∈ infosF [bt.root] := leavesF_sub_infos _ b hbl
  refine ⟨(hleaf _).2 (List.mem_map.2 ⟨b, hbl, rfl⟩), (hinfo _ _).2 ⟨hbi, rfl⟩, ?_⟩
  intro l hll hli hne
  obtain ⟨hlin, _⟩ := (hinfo _ _).1 hli
  obtain ⟨l', hl', hle⟩ := List.mem_map.1 ((hleaf _).1 hll)
  have : l' = l := inj_of_nodup_map (·.hash) (infosF [bt.root])
    (by rw [← descF_eq_map_infos]; exact hi.nodup) l' l (leavesF_sub_infos _ l' hl') hlin hle
  subst this
  have hlit : l' ∈ it := (hmem l').2 hl'
  have hcl := (highestCount_spec bt.root it).1 l' hlit
  unfold Spec.better
  rw [hprim b hbi, hprim l' hlin, hbc]
  by_cases hlt : primaryCount bt.root l'.hash < highestCount bt.root it
  · exact Or.inl hlt
  · have heq : primaryCount bt.root l'.hash = highestCount bt.root it := by omega
    refine Or.inr ⟨heq.symm, ?_⟩
    have h1 := hall l' hlit heq
    have h2 := hlBetter_total (x := b) (y := l') (fun h => hne h.symm)
    rcases h2 with h2 | h2
    · exact h2
    · exact absurd h2 h1

/-- the best block of a specification state is unique -/
theorem isBest_unique {S : Spec} {b b' : Info} (h : S.IsBest b) (h' : S.IsBest b') : b = b' := by
  by_cases he : b.hash = b'.hash
  · have h1 := h.2.1; have h2 := h'.2.1
    rw [he] at h1; rw [h1] at h2; exact Option.some.inj h2
  · have h1 := h.2.2 b' h'.1 h'.2.1 (fun e => he e.symm)
    have h2 := h'.2.2 b h.1 h.2.1 he
    unfold Spec.better at h1 h2
    omega

/-- **best is a leaf.** `BestBlockHash` never dereferences nil and names a leaf (the root when it is alone). -/
theorem C16_best_is_leaf (rh rn ra : Nat) (ops : List Op) (it : List Info) (σ : List Info → List Info)
    (hit : it.Perm (tree rh rn ra ops).leaves) (hσ : IsOrder σ) :
    ∃ h, bestHashWith (tree rh rn ra ops) it σ = some h ∧ (spec rh rn ra ops).isLeaf h := by
  obtain ⟨b, hb, hbest⟩ := C16_best_eq_spec rh rn ra ops it σ hit hσ
  obtain ⟨hi, hs⟩ := reach rh rn ra ops
  have e := reachEq rh rn ra ops
  unfold bestHashWith
  by_cases hc : (tree rh rn ra ops).root.children.isEmpty
  · simp only [hc, if_true]
    refine ⟨_, rfl, ?_⟩
    rw [e.isLeaf, BT.spec, isLeaf_iff hi.nodup]
    cases hr : (tree rh rn ra ops).root with
    | mk i cs =>
      rw [hr] at hc
      have : cs = [] := by cases cs <;> simp_all
      subst this; simp [leavesF]
  · simp only [hc, Bool.false_eq_true, if_false, hb]
    exact ⟨_, rfl, hbest.1⟩

/-- the best hash is the hash of the specification's best block (root-only tree included) -/
theorem bestHash_isBest (rh rn ra : Nat) (ops : List Op) (it : List Info) (σ : List Info → List Info)
    (hit : it.Perm (tree rh rn ra ops).leaves) (hσ : IsOrder σ) :
    ∃ b, (spec rh rn ra ops).IsBest b ∧ bestHashWith (tree rh rn ra ops) it σ = some b.hash := by
  obtain ⟨b, hb, hbest⟩ := C16_best_eq_spec rh rn ra ops it σ hit hσ
  refine ⟨b, hbest, ?_⟩
  obtain ⟨hi, hs⟩ := reach rh rn ra ops
  unfold bestHashWith
  by_cases hc : (tree rh rn ra ops).root.children.isEmpty
  · simp only [hc, if_true]
    -- the root is the only block, hence the only leaf, hence the best
    have e := reachEq rh rn ra ops
    have hl := hbest.1
    rw [e.isLeaf, BT.spec, isLeaf_iff hi.nodup] at hl
    cases hr : (tree rh rn ra ops).root with
    | mk i cs =>
      rw [hr] at hc hl
      have : cs = [] := by cases cs <;> simp_all
      subst this
      simp only [leavesF, List.isEmpty_nil, if_true, List.append_nil, List.map_cons, List.map_nil,
        List.mem_singleton] at hl
      simp [hl]
  · simp only [hc, Bool.false_eq_true, if_false, hb]

/-- **order independence.** Two histories from the same root that leave the same set of blocks (e.g. the same
    blocks added in two different parent-first orders) have the same best block, whatever the map orders. -/
theorem C16_order_independent (rh rn ra : Nat) (ops₁ ops₂ : List Op)
    (it₁ it₂ : List Info) (σ₁ σ₂ : List Info → List Info)
    (h₁ : it₁.Perm (tree rh rn ra ops₁).leaves) (h₂ : it₂.Perm (tree rh rn ra ops₂).leaves)
    (hσ₁ : IsOrder σ₁) (hσ₂ : IsOrder σ₂)
    (hroot : (spec rh rn ra ops₁).root = (spec rh rn ra ops₂).root)
    (hsame : ∀ b, b ∈ (spec rh rn ra ops₁).blocks ↔ b ∈ (spec rh rn ra ops₂).blocks) :
    bestHashWith (tree rh rn ra ops₁) it₁ σ₁ = bestHashWith (tree rh rn ra ops₂) it₂ σ₂ := by
  obtain ⟨b₁, hb₁, he₁⟩ := bestHash_isBest rh rn ra ops₁ it₁ σ₁ h₁ hσ₁
  obtain ⟨b₂, hb₂, he₂⟩ := bestHash_isBest rh rn ra ops₂ it₂ σ₂ h₂ hσ₂
  have e : SpecEq (spec rh rn ra ops₁) (spec rh rn ra ops₂) :=
    ⟨hroot, (reach rh rn ra ops₁).2.nodup, (reach rh rn ra ops₂).2.nodup, hsame⟩
  have := isBest_unique ((e.isBest b₁).1 hb₁) hb₂
  rw [he₁, he₂, this]

/-- the root is never counted: the primary count of a block is taken over the blocks strictly below the root -/
theorem C16_primary_count_excludes_root (rh rn ra : Nat) (ops : List Op) :
    (spec rh rn ra ops).primaries (spec rh rn ra ops).root.hash = 0 ∧
    ∀ h, h ∈ (tree rh rn ra ops).getAllBlocks →
      primaryCount (tree rh rn ra ops).root h = (spec rh rn ra ops).primaries h := by
  obtain ⟨hi, hs⟩ := reach rh rn ra ops
  have e := reachEq rh rn ra ops
  refine ⟨?_, ?_⟩
  · rw [e.primaries, e.root, BT.spec]
    cases hr : (tree rh rn ra ops).root with
    | mk i cs =>
      have := hi.nodup; rw [hr] at this
      show (specOfNode (.mk i cs)).primaries i.hash = 0
      unfold Spec.primaries
      rw [chain_root this]; rfl
  · intro h hh
    rw [e.primaries, BT.spec, primaries_eq hi.nodup hh]

end Gossamer.C16

namespace Gossamer.C16
open Gossamer.BlockTree Gossamer.C15

/-- **By number on the best chain.** `GetHashByNumber n` answers with the ancestor (by parent links) of the best
    block that has number `n`; numbers above the best block or below the root are errors; it never panics. -/
theorem C16_getHashByNumber (rh rn ra : Nat) (ops : List Op) (num : Nat) (σ : List Info → List Info)
    (hσ : IsOrder σ) :
    let bt := tree rh rn ra ops
    let S := spec rh rn ra ops
    ∃ b, S.IsBest b ∧
      (b.number < num → bt.getHashByNumber num σ = .greaterThanHighest) ∧
      (num < S.root.number → ¬ b.number < num → bt.getHashByNumber num σ = .lowerThanRoot) ∧
      (S.root.number ≤ num → num ≤ b.number →
        ∃ x, bt.getHashByNumber num σ = .ok x.hash ∧ S.isAnc x.hash b.hash ∧ S.infoOf x.hash = some x ∧
          x.number = num) := by
  intro bt S
  obtain ⟨b, hb, hbest⟩ := C16_best_eq_spec rh rn ra ops (tree rh rn ra ops).leaves σ (List.Perm.refl _) hσ
  obtain ⟨hi, hsim⟩ := reach rh rn ra ops
  have eq := reachEq rh rn ra ops
  refine ⟨b, hbest, ?_⟩
  have hbb : bt.best σ = some (some b) := hb
  have hinfo : ∀ h i, S.infoOf h = some i ↔ i ∈ infosF [bt.root] ∧ i.hash = h := by
    intro h i; rw [eq.infoOf, BT.spec, infoOf_eq hi.nodup, findF_info_iff hi.nodup]
  have hbi := (hinfo _ _).1 hbest.2.1
  have hbm : b.hash ∈ descF [bt.root] := by
    rw [descF_eq_map_infos]; exact List.mem_map.2 ⟨b, hbi.1, rfl⟩
  have hu := up_facts hi hbm
  have hanc : ∀ x, S.isAnc x b.hash ↔ x ∈ (bt.up b.hash).map Info.hash := by
    intro x; unfold Spec.isAnc
    rw [eq.ancestors, BT.spec, ancestors_eq_up hi.nodup hbm]; rfl
  have hroot : S.root = bt.root.info := hsim.root
  obtain ⟨nb, hnb⟩ : ∃ nb, findF b.hash [bt.root] = some nb := by
    cases h : findF b.hash [bt.root] with
    | none => exact absurd hbm ((findF_none _).1 h)
    | some nb => exact ⟨nb, rfl⟩
  have hnbi : nb.info = b := by
    have := (findF_info_iff hi.nodup (h := b.hash) (i := b)).2 hbi
    rw [hnb] at this; simpa using this
  have h0 := up_head_info hi hnb
  rw [hnbi] at h0
  generalize hup : bt.up b.hash = up at *
  have hlen : 0 < up.length := by cases up with | nil => exact absurd rfl hu.ne | cons _ _ => simp
  have hn0 := hu.nums 0 hlen
  have hu0 : up[0] = b := by
    have := h0; rw [List.getElem?_eq_getElem hlen] at this; exact Option.some.inj this
  rw [hu0] at hn0
  have hbn : b.number = bt.root.info.number + (up.length - 1) := by omega
  unfold BT.getHashByNumber
  simp only [hbb, hup]
  refine ⟨fun h => by simp [h], fun h1 h2 => ?_, fun h1 h2 => ?_⟩
  · rw [hroot] at h1
    have : ¬ b.number = num := by omega
    simp [h2, this, h1]
  · rw [hroot] at h1
    have hlt : ¬ b.number < num := by omega
    simp only [hlt, if_false]
    by_cases he : b.number = num
    · simp only [he, if_true]
      refine ⟨b, rfl, (hanc _).2 ?_, hbest.2.1, he⟩
      exact List.mem_map.2 ⟨b, hu0 ▸ List.getElem_mem hlen, rfl⟩
    · simp only [he, if_false]
      have hgt : ¬ bt.root.info.number > num := by omega
      simp only [hgt, if_false]
      have hlastm : bt.root.info ∈ up := List.mem_of_getLast? hu.last
      by_cases hr : bt.root.info.number = num
      · simp only [hr, if_true]
        refine ⟨bt.root.info, rfl, (hanc _).2 (List.mem_map.2 ⟨_, hlastm, rfl⟩), ?_, hr⟩
        exact (hinfo _ _).2 ⟨hu.mem _ hlastm, rfl⟩
      · simp only [hr, if_false]
        -- the element at distance b.number - num, which is in the tail
        have hj : b.number - num < up.length := by omega
        have hnj := hu.nums _ hj
        have hjt : up[b.number - num] ∈ up.tail := by
          have hpos : 0 < b.number - num := by omega
          cases up with
          | nil => simp at hlen
          | cons u0 ut =>
            simp only [List.tail_cons]
            obtain ⟨k, hk⟩ : ∃ k, b.number - num = k + 1 := ⟨b.number - num - 1, by omega⟩
            simp only [hk, List.getElem_cons_succ]
            exact List.getElem_mem _
        cases hf : up.tail.find? (fun x => decide (x.number = num)) with
        | none =>
          exfalso
          have := List.find?_eq_none.1 hf _ hjt
          simp only [decide_eq_true_eq] at this
          omega
        | some x =>
          have hxm : x ∈ up := List.mem_of_mem_tail (List.mem_of_find?_eq_some hf)
          have hxn : x.number = num := by simpa using List.find?_some hf
          exact ⟨x, rfl, (hanc _).2 (List.mem_map.2 ⟨x, hxm, rfl⟩), (hinfo _ _).2 ⟨hu.mem _ hxm, rfl⟩, hxn⟩

end Gossamer.C16

namespace Gossamer.C16
open Gossamer.BlockTree Gossamer.C15

/-! ### concrete instances -/

example : IsOrder id := fun _ => List.Perm.refl _
example : IsOrder List.reverse := fun l => List.reverse_perm l

/-- 11 and 13 are primary leaves at number 1, 11 arrived first; 14 is deeper but on a secondary chain -/
example : bestHashWith exampleTree exampleTree.leaves id = some 11 := by
  simp [exampleTree, bestHashWith, bestWith, bestBlock, highestCount, primaryCount, pathF, highestLeaf, hlFold,
    hlStep]
example : bestHashWith exampleTree exampleTree.leaves.reverse List.reverse = some 11 := by
  simp [exampleTree, bestHashWith, bestWith, bestBlock, highestCount, primaryCount, pathF, highestLeaf, hlFold,
    hlStep]
/-- equal primary count, number and arrival: the lower hash wins, in either iteration order -/
example : bestHashWith ⟨.mk ⟨10, 0, 0, false⟩ [.mk ⟨12, 1, 5, true⟩ [], .mk ⟨11, 1, 5, true⟩ []], []⟩
    [⟨12, 1, 5, true⟩, ⟨11, 1, 5, true⟩] id = some 11 := by
  simp [bestHashWith, bestWith, bestBlock, highestCount, primaryCount, pathF, highestLeaf, hlFold, hlStep]
example : bestHashWith ⟨.mk ⟨10, 0, 0, false⟩ [.mk ⟨12, 1, 5, true⟩ [], .mk ⟨11, 1, 5, true⟩ []], []⟩
    [⟨11, 1, 5, true⟩, ⟨12, 1, 5, true⟩] id = some 11 := by
  simp [bestHashWith, bestWith, bestBlock, highestCount, primaryCount, pathF, highestLeaf, hlFold, hlStep]

end Gossamer.C16
