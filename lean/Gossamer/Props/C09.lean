/-
C09  Storage append follows Substrate semantics.

  C09_append_eq            storageAppend cur item = substrateAppend cur item, for ALL cur and item
                           (full strength; holds for the code after the C09 `fix:` commit)
  C09_spec_bump / C09_spec_reset
                           the spec said in words: a value that starts with the canonical compact
                           of some n with n+1 ≤ u32::MAX gets prefix n+1 and keeps its items; every
                           other value becomes `[4] ++ item`
  C09_append_bump / C09_append_reset   the same two statements about the model directly
  C09_appendAll_vec        k appends to a SCALE vector of n items give the vector of n+k items
  C09_appendAll_fresh      appends to an absent value give the SCALE vector of the items
  C09_result_prefix        whatever was stored, the new value starts with a canonical Compact<u32> ≥ 1
  C09_unguarded_wrong      the repaired defect: without the u32 guard EVERY value whose prefix is a
                           canonical compact n ≥ u32::MAX (n+1 < 2^536) is stored differently from
                           Substrate; C09_unguarded_counterexample is the witness 03ffffffff.
-/
import Gossamer.Model.C09
import Gossamer.Props.C11
namespace Gossamer.C09
open Gossamer Gossamer.Scale

theorem compactEnc_one : compactEnc 1 = [4] := by decide

theorem pow67_big : (4294967296 : Nat) < 256 ^ 67 := by
  have : (256:Nat) ^ 4 ≤ 256 ^ 67 := pow256_mono (by decide)
  rw [pow256_4] at this; omega

theorem lt_pow67_of_le_u32 {n : Nat} (h : n ≤ 4294967296) : n < 256 ^ 67 := by
  have := pow67_big; omega

/-- `scale.Marshal(big.NewInt(1))` -/
theorem encodeBigInt_one : C11.encodeBigInt 1 = [4] := by decide

theorem drop_enc (n : Nat) (rest : Bytes) : (compactEnc n ++ rest).drop (compactEnc n).length = rest := by
  simp

/-- **C09**: the stored bytes are Substrate's, for every existing value and every item -/
theorem C09_append_eq (cur item : Bytes) : storageAppend cur item = substrateAppend cur item := by
  unfold storageAppend substrateAppend
  cases cur with
  | nil => simp [compactDec, encodeBigInt_one, compactEnc_one]
  | cons b bs =>
    have hne : ¬ ((b :: bs).length = 0) := by simp
    rw [if_neg hne, C11.decBigV_spec]
    cases hdec : compactDec (b :: bs) with
    | none => simp [compactEnc_one]
    | some p =>
      obtain ⟨n, rest⟩ := p
      obtain ⟨_, hcur⟩ := compactDec_sound hdec
      simp only
      by_cases hn : maxU32 ≤ n
      · have : ¬ (n + 1 ≤ maxU32) := by omega
        simp [hn, this, compactEnc_one]
      · have hle : n + 1 ≤ maxU32 := by omega
        have h1 : n < 256 ^ 67 := lt_pow67_of_le_u32 (by unfold maxU32 at hle; omega)
        have h2 : n + 1 < 256 ^ 67 := lt_pow67_of_le_u32 (by unfold maxU32 at hle; omega)
        rw [if_neg hn, if_pos hle, C11.C11_encodeBigInt_canonical n h1,
          C11.C11_encodeBigInt_canonical (n + 1) h2, hcur, drop_enc]

/-! ### the spec in words -/

/-- a value that starts with the canonical compact of `n`, `n + 1 ≤ u32::MAX`: prefix bumped, items kept -/
theorem C09_spec_bump (n : Nat) (rest item : Bytes) (h : n + 1 ≤ maxU32) :
    substrateAppend (compactEnc n ++ rest) item = compactEnc (n + 1) ++ rest ++ item := by
  unfold substrateAppend
  rw [compactDec_enc n (lt_pow67_of_le_u32 (by unfold maxU32 at h; omega)) rest]
  simp [h]

/-- every other value (absent, empty, truncated, non-canonical, undecodable, length ≥ u32::MAX) -/
theorem C09_spec_reset (cur item : Bytes)
    (h : ¬ ∃ n rest, n + 1 ≤ maxU32 ∧ cur = compactEnc n ++ rest) :
    substrateAppend cur item = [4] ++ item := by
  unfold substrateAppend
  cases hdec : compactDec cur with
  | none => simp [compactEnc_one]
  | some p =>
    obtain ⟨n, rest⟩ := p
    obtain ⟨_, hcur⟩ := compactDec_sound hdec
    by_cases hn : n + 1 ≤ maxU32
    · exact absurd ⟨n, rest, hn, hcur⟩ h
    · simp [hn, compactEnc_one]

theorem C09_append_bump (n : Nat) (rest item : Bytes) (h : n + 1 ≤ maxU32) :
    storageAppend (compactEnc n ++ rest) item = compactEnc (n + 1) ++ rest ++ item := by
  rw [C09_append_eq, C09_spec_bump n rest item h]

theorem C09_append_reset (cur item : Bytes)
    (h : ¬ ∃ n rest, n + 1 ≤ maxU32 ∧ cur = compactEnc n ++ rest) :
    storageAppend cur item = [4] ++ item := by
  rw [C09_append_eq, C09_spec_reset cur item h]

/-- non-vacuity: both regions are inhabited (a two-item vector; a non-canonical prefix) -/
example : storageAppend [8, 0xaa, 0xbb] [0xcc] = [12, 0xaa, 0xbb, 0xcc] := by decide
example : storageAppend [1, 0, 0xaa] [0xcc] = [4, 0xcc] := by decide
example : storageAppend [0xfd] [0xcc] = [4, 0xcc] := by decide
example : storageAppend [0xfc, 0xaa] [0xcc] = [0x01, 0x01, 0xaa, 0xcc] := by decide

/-! ### runs of appends -/

/-- `k` appends to a SCALE vector with `n` items (as long as the count fits `u32`) -/
theorem C09_appendAll_vec (items : List Bytes) : ∀ (n : Nat) (body : Bytes),
    n + items.length ≤ maxU32 →
    appendAll (compactEnc n ++ body) items = compactEnc (n + items.length) ++ body ++ items.flatten := by
  induction items with
  | nil => intro n body _; simp [appendAll]
  | cons i is ih =>
    intro n body h
    simp only [List.length_cons] at h
    have h1 : n + 1 ≤ maxU32 := by omega
    have := ih (n + 1) (body ++ i) (by omega)
    simp only [appendAll, List.foldl_cons] at this ⊢
    rw [C09_append_bump n body i h1, List.append_assoc, this]
    simp only [List.length_cons, List.flatten_cons, List.append_assoc]
    congr 2; omega

/-- appends to an absent (or empty) value build the SCALE vector of the items -/
theorem C09_appendAll_fresh (i : Bytes) (items : List Bytes) (h : 1 + items.length ≤ maxU32) :
    appendAll [] (i :: items) = compactEnc (1 + items.length) ++ (i :: items).flatten := by
  have h0 : storageAppend [] i = compactEnc 1 ++ i := by
    simp [storageAppend, encodeBigInt_one, compactEnc_one]
  have := C09_appendAll_vec items 1 i h
  simp only [appendAll, List.foldl_cons] at this ⊢
  rw [h0, this]; simp

/-- whatever was stored before, the new value starts with a canonical `Compact<u32>` length ≥ 1 -/
theorem C09_result_prefix (cur item : Bytes) :
    ∃ k r, compactDec (storageAppend cur item) = some (k, r) ∧ 1 ≤ k ∧ k ≤ maxU32 := by
  rw [C09_append_eq]
  have hreset : ∃ k r, compactDec (compactEnc 1 ++ item) = some (k, r) ∧ 1 ≤ k ∧ k ≤ maxU32 :=
    ⟨1, item, compactDec_enc 1 (lt_pow67_of_le_u32 (by omega)) item, by omega, by unfold maxU32; omega⟩
  unfold substrateAppend
  cases hdec : compactDec cur with
  | none => exact hreset
  | some p =>
    obtain ⟨n, rest⟩ := p
    by_cases hn : n + 1 ≤ maxU32
    · simp only [hn, if_true]
      refine ⟨n + 1, rest ++ item, ?_, by omega, hn⟩
      rw [List.append_assoc]
      exact compactDec_enc (n + 1) (lt_pow67_of_le_u32 (by unfold maxU32 at hn; omega)) _
    · simp only [hn, if_false]; exact hreset

/-! ### the repaired defect -/

/-- before the fix: a canonical prefix `n ≥ u32::MAX` was incremented like any other length, so
    the stored value differed from Substrate's on the WHOLE region -/
theorem C09_unguarded_wrong (n : Nat) (body item : Bytes) (h1 : maxU32 ≤ n) (h2 : n + 1 < 256 ^ 67) :
    storageAppendUnguarded (compactEnc n ++ body) item ≠ substrateAppend (compactEnc n ++ body) item := by
  have hn : n < 256 ^ 67 := by omega
  have hlen : ¬ ((compactEnc n ++ body).length = 0) := by
    have := compactEnc_ne_nil n
    cases hc : compactEnc n with
    | nil => exact absurd hc this
    | cons x xs => simp
  unfold storageAppendUnguarded substrateAppend
  rw [if_neg hlen, C11.decBigV_spec, compactDec_enc n hn body]
  have : ¬ (n + 1 ≤ maxU32) := by omega
  simp only [this, if_false]
  rw [C11.C11_encodeBigInt_canonical (n + 1) h2]
  intro heq
  have d1 := compactDec_enc (n + 1) h2 ((compactEnc n ++ body).drop (C11.encodeBigInt n).length ++ item)
  have d2 := compactDec_enc 1 (lt_pow67_of_le_u32 (by omega)) item
  rw [← List.append_assoc, heq, d2] at d1
  injection d1 with d1; injection d1 with d1 _
  unfold maxU32 at h1; omega

/-- witness: the value `03 ffffffff` (length u32::MAX) -/
theorem C09_unguarded_counterexample :
    storageAppendUnguarded [0x03, 0xff, 0xff, 0xff, 0xff] [0xcc]
      ≠ substrateAppend [0x03, 0xff, 0xff, 0xff, 0xff] [0xcc] := by
  have e : compactEnc 4294967295 = [0x03, 0xff, 0xff, 0xff, 0xff] := by
    have h := compactDec_sound (bs := [0x03, 0xff, 0xff, 0xff, 0xff]) (n := 4294967295) (r := []) (by decide)
    simpa using h.2.symm
  have := C09_unguarded_wrong 4294967295 [] [0xcc] (by decide) (lt_pow67_of_le_u32 (by omega))
  rwa [e] at this

/-! ## storageAppend on the layered storage: frame and rollback -/

theorem Store.get_set_self (s : Store) (k v : Bytes) : (s.set k v).get k = v := by
  simp [Store.set, Store.get]

theorem Store.get_set_ne (s : Store) (k k' v : Bytes) (h : k ≠ k') : (s.set k v).get k' = s.get k' := by
  simp [Store.set, Store.get, h]

/-- **frame**: an append touches the current view at its key only — every other key of the view,
    and every other layer (parent transactions, the trie), is exactly what it was; the new value
    is Substrate's -/
theorem C09_append_frame (top : Store) (rest : List Store) (k item : Bytes) :
    ∃ top', stepS (top :: rest) (.app k item) = some (top' :: rest) ∧
      top'.get k = substrateAppend (top.get k) item ∧ ∀ k', k ≠ k' → top'.get k' = top.get k' := by
  refine ⟨top.set k (storageAppend (top.get k) item), rfl, ?_, ?_⟩
  · rw [Store.get_set_self, C09_append_eq]
  · intro k' h; exact Store.get_set_ne _ _ _ _ h

/-- operations that never close a transaction they did not open (`d` = how many they may close) -/
def safeOps : Nat → List Op → Bool
  | _, [] => true
  | d, .tbegin :: ops => safeOps (d + 1) ops
  | d, .rollback :: ops => decide (1 ≤ d) && safeOps (d - 1) ops
  | d, .commit :: ops => decide (1 ≤ d) && safeOps (d - 1) ops
  | d, _ :: ops => safeOps d ops

/-- transactions still open afterwards -/
def depthAfter : Nat → List Op → Nat
  | d, [] => d
  | d, .tbegin :: ops => depthAfter (d + 1) ops
  | d, .rollback :: ops => depthAfter (d - 1) ops
  | d, .commit :: ops => depthAfter (d - 1) ops
  | d, _ :: ops => depthAfter d ops

/-- **frame for runs**: operations that stay above the layers `rest` leave them untouched -/
theorem C09_tx_frame (ops : List Op) : ∀ (pre rest : List Store), pre ≠ [] →
    safeOps (pre.length - 1) ops = true →
    ∃ pre', pre' ≠ [] ∧ pre'.length - 1 = depthAfter (pre.length - 1) ops ∧
      runS ops (pre ++ rest) = some (pre' ++ rest) := by
  induction ops with
  | nil => intro pre rest hne _; exact ⟨pre, hne, rfl, rfl⟩
  | cons op ops ih =>
    intro pre rest hne hs
    cases pre with
    | nil => exact absurd rfl hne
    | cons top tl =>
      cases op with
      | app k item =>
        simp only [safeOps] at hs
        obtain ⟨pre', h1, h2, h3⟩ := ih (top.set k (storageAppend (top.get k) item) :: tl) rest (by simp) hs
        exact ⟨pre', h1, by simpa [depthAfter] using h2, by simpa [runS, stepS] using h3⟩
      | put k v =>
        simp only [safeOps] at hs
        obtain ⟨pre', h1, h2, h3⟩ := ih (top.set k v :: tl) rest (by simp) hs
        exact ⟨pre', h1, by simpa [depthAfter] using h2, by simpa [runS, stepS] using h3⟩
      | get k =>
        simp only [safeOps] at hs
        obtain ⟨pre', h1, h2, h3⟩ := ih (top :: tl) rest (by simp) hs
        exact ⟨pre', h1, by simpa [depthAfter] using h2, by simpa [runS, stepS] using h3⟩
      | cap k =>
        simp only [safeOps] at hs
        obtain ⟨pre', h1, h2, h3⟩ := ih (top :: tl) rest (by simp) hs
        exact ⟨pre', h1, by simpa [depthAfter] using h2, by simpa [runS, stepS] using h3⟩
      | snap =>
        simp only [safeOps] at hs
        obtain ⟨pre', h1, h2, h3⟩ := ih (top :: tl) rest (by simp) hs
        exact ⟨pre', h1, by simpa [depthAfter] using h2, by simpa [runS, stepS] using h3⟩
      | tbegin =>
        simp only [safeOps, List.length_cons, Nat.add_sub_cancel] at hs
        obtain ⟨pre', h1, h2, h3⟩ := ih (top :: top :: tl) rest (by simp) (by simpa using hs)
        refine ⟨pre', h1, ?_, by simpa [runS, stepS] using h3⟩
        simpa [depthAfter] using h2
      | rollback =>
        simp only [safeOps, List.length_cons, Nat.add_sub_cancel, Bool.and_eq_true, decide_eq_true_eq] at hs
        cases tl with
        | nil => simp at hs
        | cons t2 tl2 =>
          obtain ⟨pre', h1, h2, h3⟩ := ih (t2 :: tl2) rest (by simp) (by simpa using hs.2)
          refine ⟨pre', h1, ?_, by simpa [runS, stepS] using h3⟩
          simpa [depthAfter] using h2
      | commit =>
        simp only [safeOps, List.length_cons, Nat.add_sub_cancel, Bool.and_eq_true, decide_eq_true_eq] at hs
        cases tl with
        | nil => simp at hs
        | cons t2 tl2 =>
          obtain ⟨pre', h1, h2, h3⟩ := ih (top :: tl2) rest (by simp) (by simpa using hs.2)
          refine ⟨pre', h1, ?_, by simpa [runS, stepS] using h3⟩
          simpa [depthAfter] using h2

theorem runS_append (a b : List Op) (st : List Store) :
    runS (a ++ b) st = (runS a st).bind (runS b) := by
  induction a generalizing st with
  | nil => simp [runS]
  | cons op a ih =>
    simp only [List.cons_append, runS]
    cases stepS st op with
    | none => simp
    | some st' => simpa using ih st'

/-- **rollback restores**: whatever happens inside a transaction — appends, puts, nested
    transactions that are themselves closed — `RollbackTransaction` gives back exactly the storage
    (every layer, every value) that `StartTransaction` saw -/
theorem C09_rollback_restores (ops : List Op) (top : Store) (rest : List Store)
    (hs : safeOps 0 ops = true) (hd : depthAfter 0 ops = 0) :
    runS (.tbegin :: ops ++ [.rollback]) (top :: rest) = some (top :: rest) := by
  obtain ⟨pre', hne, hlen, hrun⟩ := C09_tx_frame ops [top] (top :: rest) (by simp) (by simpa using hs)
  simp only [List.length_singleton, Nat.sub_self, hd] at hlen
  have h1 : pre'.length = 1 := by
    have : 0 < pre'.length := List.length_pos_iff.2 hne
    omega
  obtain ⟨x, rfl⟩ := List.length_eq_one_iff.mp h1
  show runS (.tbegin :: (ops ++ [.rollback])) (top :: rest) = _
  simp only [runS, stepS]
  rw [runS_append]
  have : runS ops (top :: top :: rest) = some ([x] ++ (top :: rest)) := hrun
  rw [this]
  rfl

/-- non-vacuity: the scenario of the nested, rolled-back append -/
example : runS [.app [0x61] [1], .tbegin, .app [0x61] [2], .rollback, .app [0x61] [3]] [[]]
    = some [[([0x61], [8, 1, 3]), ([0x61], [4, 1])]] := by decide

end Gossamer.C09
