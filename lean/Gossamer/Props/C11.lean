/-
C11  SCALE encoding round-trips and is canonical.

Model: `Gossamer.C11` (Model/C11.lean), the Go codec of pkg/scale.  Spec: `Scale.Spec.codec`, the
canonical SCALE codec, for which round trip / soundness / truncation are proved in Lib/Scale.

  C11_encodeUint_canonical, C11_encodeBigInt_canonical   Go's compact encoders = canonical compact
  C11_encode_canonical          Marshal = canonical encoder on every well-typed value
  C11_marshalGo_partial         … also for the pointer walk, except below a pointer to a VDT
  C11_marshalGo_counterexample  (known finding opt-vdt)
  C11_roundtrip_partial         Unmarshal (Marshal v ++ r) = (v, r) unless a Go uint / length lies
                                in [2^32, 2^56)
  C11_roundtrip_counterexample  (known finding uint-5to7)
  C11_fieldOrder_mem / _sorted  fieldScaleIndices: exactly the non-skipped fields, tagged ones first
                                in ascending tag order, then the untagged ones in declaration order
-/
import Gossamer.Model.C11
import Gossamer.Model.C12
namespace Gossamer.C11
open Gossamer Gossamer.Scale

/-! ## encoders -/

theorem numBytesLoop_eq (fuel m nb : Nat) (h1 : (leMin m).length ≤ fuel)
    (h2 : nb + (leMin m).length ≤ 256) : numBytesLoop fuel m nb = nb + (leMin m).length := by
  induction fuel generalizing m nb with
  | zero =>
    have : (leMin m).length = 0 := by omega
    simp [numBytesLoop, this]
  | succ fuel ih =>
    by_cases hm : m = 0
    · subst hm; simp [numBytesLoop, leMin_zero]
    · have e := leMin_pos hm
      rw [e] at h1 h2 ⊢
      simp only [List.length_cons] at h1 h2 ⊢
      have hnb : nb < 256 := by omega
      simp only [numBytesLoop, hnb, hm, ne_eq, not_false_eq_true, and_self, if_true]
      rw [ih (m / 256) (nb + 1) (by omega) (by omega)]; omega

theorem take_leBytes_leMin (k n : Nat) (h : n < 256 ^ k) :
    (leBytes k n).take (leMin n).length = leMin n := by
  induction k generalizing n with
  | zero =>
    have : n = 0 := by simpa using h
    subst this; simp [leMin_zero]
  | succ k ih =>
    by_cases hn : n = 0
    · subst hn; simp [leMin_zero]
    · rw [leMin_pos hn, leBytes_succ]
      simp only [List.length_cons, List.take_succ_cons]
      rw [ih (n / 256) (by rw [Nat.pow_succ] at h; omega)]

theorem lengthByte_eq (L : Nat) (h4 : 4 ≤ L) (h67 : L ≤ 67) :
    lengthByte L = UInt8.ofNat (4 * (L - 4) + 3) := by
  unfold lengthByte; congr 1; omega

theorem pow2_64 : (2:Nat) ^ 64 = 18446744073709551616 := by decide
theorem pow256_8 : (256:Nat) ^ 8 = 18446744073709551616 := by decide

/-- `encodeUint` is the canonical compact encoder on the whole range of a Go `uint` -/
theorem C11_encodeUint_canonical (n : Nat) (h : n < 2 ^ 64) : encodeUint n = compactEnc n := by
  rw [pow2_64] at h
  unfold encodeUint compactEnc
  rw [pow2_64]
  by_cases h1 : n < 64
  · simp only [h1, if_true]; congr 2; omega
  · by_cases h2 : n < 16384
    · simp only [h1, h2, if_true, if_false]; congr 1; omega
    · by_cases h3 : n < 1073741824
      · simp only [h1, h2, h3, if_true, if_false]; congr 1; omega
      · simp only [h1, h2, h3, if_false]
        have h8 : n < 256 ^ 8 := by rw [pow256_8]; exact h
        have hl8 : (leMin n).length ≤ 8 := (length_leMin_le n 8).2 h8
        have ⟨hl4, _⟩ := length_leMin_big (by omega) (lt_pow67 (by decide) h8)
        have hnb : numBytesLoop 256 n 0 = (leMin n).length := by
          rw [numBytesLoop_eq 256 n 0 (by omega) (by omega)]; omega
        simp only [hnb]
        rw [lengthByte_eq _ hl4 (by omega), take_leBytes_leMin 8 n h8]

/-- `encodeBigInt` is the canonical compact encoder for every non-negative integer below 2^536 -/
theorem C11_encodeBigInt_canonical (n : Nat) (h : n < 256 ^ 67) : encodeBigInt n = compactEnc n := by
  unfold encodeBigInt compactEnc
  by_cases h1 : n < 64
  · simp only [h1, if_true]; congr 2; omega
  · by_cases h2 : n < 16384
    · simp only [h1, h2, if_true, if_false]; congr 1; omega
    · by_cases h3 : n < 1073741824
      · simp only [h1, h2, h3, if_true, if_false]; congr 1; omega
      · simp only [h1, h2, h3, if_false]
        have ⟨hl4, hl67⟩ := length_leMin_big (by omega) h
        rw [lengthByte_eq _ hl4 hl67]

theorem emod_twos (M : Nat) (hM : 0 < M) (i : Int) (h1 : -(M:Int) ≤ i) (h2 : i < (M:Int)) :
    (i % (M:Int)).toNat = if 0 ≤ i then i.toNat else (i + (M:Int)).toNat := by
  by_cases hi : 0 ≤ i
  · simp only [hi, if_true]; rw [Int.emod_eq_of_lt hi h2]
  · simp only [hi, if_false]
    have : i % (M:Int) = (i + (M:Int)) % (M:Int) := by simp
    rw [this, Int.emod_eq_of_lt (by omega) (by omega)]

theorem goUnsigned_eq (w : Nat) (i : Int)
    (h1 : - ((256 ^ w / 2 : Nat) : Int) ≤ i) (h2 : i < ((256 ^ w / 2 : Nat) : Int)) :
    goUnsigned w i = Spec.twos w i := by
  unfold goUnsigned Spec.twos
  have hpos : 0 < 256 ^ w := Nat.pow_pos (by decide)
  apply emod_twos _ hpos <;> omega

theorem maxSeqLen_eq : maxSeqLen = 2 ^ 64 := rfl

/-- every primitive encoder of the Go code is the canonical one on well-typed values -/
theorem encP_canonical (p : Prim) (v : Val) (h : wtKind p.kind v = true) :
    encP p v = Spec.encKind p.kind v := by
  cases p <;> simp only [Prim.kind] at h <;> cases v <;>
    simp only [wtKind, decide_eq_true_eq, Bool.false_eq_true] at h <;>
    simp only [encP, Spec.encKind, Prim.kind]
  case i8.int i => rw [goUnsigned_eq 1 i h.1 h.2]
  case i16.int i => rw [goUnsigned_eq 2 i h.1 h.2]
  case i32.int i => rw [goUnsigned_eq 4 i h.1 h.2]
  case i64.int i => rw [goUnsigned_eq 8 i h.1 h.2]
  case compact.nat n => exact C11_encodeUint_canonical n (by rw [pow2_64, ← pow256_8]; exact h)
  case big.nat n => exact C11_encodeBigInt_canonical n h
  case bytes.bytes b =>
    rw [C11_encodeUint_canonical b.length (Nat.lt_of_lt_of_le h (by decide))]
  case str.bytes b =>
    rw [C11_encodeUint_canonical b.length (Nat.lt_of_lt_of_le h (by decide))]

/-- **Canonical encoding**: on every well-typed value of every type, the Go encoder produces
    exactly the canonical SCALE encoding. -/
theorem C11_encode_canonical (t : Ty) (v : Val) (h : wt t v = true) :
    marshal t v = encode Spec.codec t v :=
  encode_congr codec Spec.codec encP_canonical
    (fun n hn => C11_encodeUint_canonical n (by rw [← maxSeqLen_eq]; exact hn)) t v h

/-! ## decoders: the Go primitives against the canonical ones -/

/-- the values for which `decodeUint` accepts the canonical encoding (known finding uint-5to7:
    [2^32, 2^56) is missing) -/
def uintOk (n : Nat) : Bool :=
  decide (n < 4294967296) || (decide (72057594037927936 ≤ n) && decide (n < 18446744073709551616))

def filt (o : Option (Nat × Bytes)) : Option (Nat × Bytes) :=
  match o with
  | some (n, r) => if uintOk n then some (n, r) else none
  | none => none

theorem decodeUint_nil : decodeUintV [] = none := rfl

theorem decodeUint_m0 {b : UInt8} (rest : Bytes) (m : b.toNat % 4 = 0) :
    decodeUintV (b :: rest) = some (b.toNat / 4, rest) := by simp [decodeUintV, m]

theorem decodeUint_m1_nil {b : UInt8} (m : b.toNat % 4 = 1) : decodeUintV [b] = none := by
  simp [decodeUintV, m]

theorem decodeUint_m1 {b : UInt8} (c : UInt8) (rest : Bytes) (m : b.toNat % 4 = 1) :
    decodeUintV (b :: c :: rest) =
      if (b.toNat + 256 * c.toNat) / 4 ≤ 63 ∨ (b.toNat + 256 * c.toNat) / 4 > 32767 then none
      else some ((b.toNat + 256 * c.toNat) / 4, rest) := by
  simp [decodeUintV, m]

theorem decodeUint_m2 {b : UInt8} (rest : Bytes) (m : b.toNat % 4 = 2) :
    decodeUintV (b :: rest) =
      if rest.length < 3 then none
      else if (b.toNat + 256 * natOfLE (rest.take 3)) / 4 ≤ 16383 ∨
              (b.toNat + 256 * natOfLE (rest.take 3)) / 4 > 1073741823 then none
      else some ((b.toNat + 256 * natOfLE (rest.take 3)) / 4, rest.drop 3) := by
  by_cases hl : rest.length < 3
  · simp [decodeUintV, m, readFull, hl]
  · simp [decodeUintV, m, readFull, hl, natOfLE]

theorem decodeUint_m3 {b : UInt8} (rest : Bytes) (m : b.toNat % 4 = 3) :
    decodeUintV (b :: rest) =
      if b.toNat / 4 + 4 ≠ 4 ∧ b.toNat / 4 + 4 ≠ 8 then none
      else if rest.length < b.toNat / 4 + 4 then none
      else if b.toNat / 4 + 4 = 4 then
        (if natOfLE (rest.take (b.toNat / 4 + 4)) ≤ 1073741823 then none
         else some (natOfLE (rest.take (b.toNat / 4 + 4)), rest.drop (b.toNat / 4 + 4)))
      else
        (if natOfLE (rest.take (b.toNat / 4 + 4)) ≤ 72057594037927935 then none
         else some (natOfLE (rest.take (b.toNat / 4 + 4)), rest.drop (b.toNat / 4 + 4))) := by
  by_cases h48 : b.toNat / 4 + 4 ≠ 4 ∧ b.toNat / 4 + 4 ≠ 8
  · have h4 : 4 ≤ b.toNat := by omega
    simp [decodeUintV, m, h48, h4]
  · by_cases hl : rest.length < b.toNat / 4 + 4
    · simp [decodeUintV, m, readFull, hl]
    · simp only [decodeUintV, m, readFull, hl, h48, if_false]
      simp

theorem pow256_7 : (256:Nat) ^ 7 = 72057594037927936 := by decide

/-- `decodeUint` accepts exactly the canonical compact encodings of the values in `uintOk` -/
theorem decodeUint_spec (bs : Bytes) : decodeUintV bs = filt (compactDec bs) := by
  cases bs with
  | nil => simp [decodeUint_nil, compactDec, filt]
  | cons b rest =>
    have hb := b.toNat_lt
    by_cases m0 : b.toNat % 4 = 0
    · rw [decodeUint_m0 rest m0, compactDec_m0 rest m0]
      have : uintOk (b.toNat / 4) = true := by simp [uintOk]; omega
      simp [filt, this]
    · by_cases m1 : b.toNat % 4 = 1
      · cases rest with
        | nil => rw [decodeUint_m1_nil m1, compactDec_m1_nil m1]; rfl
        | cons c rest' =>
          have hc := c.toNat_lt
          rw [decodeUint_m1 c rest' m1, compactDec_m1 c rest' m1]
          by_cases hv : 64 ≤ (b.toNat + 256 * c.toNat) / 4
          · have h1 : ¬ ((b.toNat + 256 * c.toNat) / 4 ≤ 63 ∨ (b.toNat + 256 * c.toNat) / 4 > 32767) := by omega
            have : uintOk ((b.toNat + 256 * c.toNat) / 4) = true := by simp [uintOk]; omega
            simp [filt, hv, h1, this]
          · have h1 : ((b.toNat + 256 * c.toNat) / 4 ≤ 63 ∨ (b.toNat + 256 * c.toNat) / 4 > 32767) := by omega
            simp [filt, hv, h1]
      · by_cases m2 : b.toNat % 4 = 2
        · rw [decodeUint_m2 rest m2, compactDec_m2 rest m2]
          by_cases hl : rest.length < 3
          · simp [hl, filt]
          · simp only [hl, if_false]
            have hlen : (rest.take 3).length = 3 := by simp; omega
            have hd := natOfLE_lt (rest.take 3)
            rw [hlen, pow256_3] at hd
            by_cases hv : 16384 ≤ (b.toNat + 256 * natOfLE (rest.take 3)) / 4
            · have h1 : ¬ ((b.toNat + 256 * natOfLE (rest.take 3)) / 4 ≤ 16383 ∨
                  (b.toNat + 256 * natOfLE (rest.take 3)) / 4 > 1073741823) := by omega
              have : uintOk ((b.toNat + 256 * natOfLE (rest.take 3)) / 4) = true := by
                simp [uintOk]; omega
              simp [filt, hv, h1, this]
            · have h1 : ((b.toNat + 256 * natOfLE (rest.take 3)) / 4 ≤ 16383 ∨
                  (b.toNat + 256 * natOfLE (rest.take 3)) / 4 > 1073741823) := by omega
              simp [filt, hv, h1]
        · have m3 : b.toNat % 4 = 3 := by omega
          rw [decodeUint_m3 rest m3, compactDec_m3 rest m3]
          by_cases hl : rest.length < b.toNat / 4 + 4
          · simp [hl, filt]
          · simp only [hl, if_false]
            have hlen : (rest.take (b.toNat / 4 + 4)).length = b.toNat / 4 + 4 := by simp; omega
            have hd := natOfLE_lt (rest.take (b.toNat / 4 + 4))
            rw [hlen] at hd
            generalize hval : natOfLE (rest.take (b.toNat / 4 + 4)) = value at *
            by_cases k4 : b.toNat / 4 = 0
            · -- 4 payload bytes
              simp only [k4, Nat.zero_add] at hd ⊢
              rw [pow256_4] at hd
              rw [pow256_3]
              by_cases hv : value ≤ 1073741823
              · have : ¬ (1073741824 ≤ value ∧ 16777216 ≤ value) := by omega
                simp [filt, hv, this]
              · have h2 : (1073741824 ≤ value ∧ 16777216 ≤ value) := by omega
                have : uintOk value = true := by simp [uintOk]; omega
                simp [filt, hv, h2, this]
            · by_cases k8 : b.toNat / 4 = 4
              · -- 8 payload bytes
                simp only [k8] at hd ⊢
                rw [show (4:Nat) + 4 = 8 from rfl, pow256_8] at hd
                rw [show (4:Nat) + 3 = 7 from rfl, pow256_7]
                by_cases hv : value ≤ 72057594037927935
                · have : ¬ (1073741824 ≤ value ∧ 72057594037927936 ≤ value) := by omega
                  simp [filt, hv, this]
                · have h2 : (1073741824 ≤ value ∧ 72057594037927936 ≤ value) := by omega
                  have : uintOk value = true := by simp [uintOk]; omega
                  simp [filt, hv, h2, this]
              · -- 5..7 or more than 8 payload bytes: rejected by Go; canonical values are not `uintOk`
                have h48 : b.toNat / 4 + 4 ≠ 4 ∧ b.toNat / 4 + 4 ≠ 8 := by omega
                simp only [h48, ne_eq, not_false_eq_true, and_self, if_true]
                by_cases hc : 1073741824 ≤ value ∧ 256 ^ (b.toNat / 4 + 3) ≤ value
                · simp only [hc, and_self, if_true, filt]
                  have hnot : uintOk value = false := by
                    simp only [uintOk, Bool.or_eq_false_iff, Bool.and_eq_false_iff, decide_eq_false_iff_not]
                    by_cases klt : b.toNat / 4 < 4
                    · -- 5..7 bytes: 2^32 ≤ value < 2^56
                      have lo : 256 ^ 4 ≤ 256 ^ (b.toNat / 4 + 3) := pow256_mono (by omega)
                      have hi : 256 ^ (b.toNat / 4 + 4) ≤ 256 ^ 7 := pow256_mono (by omega)
                      rw [pow256_4] at lo; rw [pow256_7] at hi
                      exact ⟨by omega, Or.inl (by omega)⟩
                    · -- more than 8 bytes: value ≥ 2^64
                      have lo : 256 ^ 8 ≤ 256 ^ (b.toNat / 4 + 3) := pow256_mono (by omega)
                      rw [pow256_8] at lo
                      exact ⟨by omega, Or.inr (by omega)⟩
                  simp [hnot]
                · simp [hc, filt]


/-- a non-zero top digit puts the value at or above `256^(len-1)` -/
theorem le_natOfLE_of_getLast (d : Bytes) (hne : d ≠ []) (h : d.getLast hne ≠ 0) :
    256 ^ (d.length - 1) ≤ natOfLE d := by
  have hd : d = d.dropLast ++ [d.getLast hne] := (List.dropLast_concat_getLast hne).symm
  have hpos : 1 ≤ (d.getLast hne).toNat := by
    have : (d.getLast hne).toNat ≠ 0 := fun hz => h (UInt8.toNat_inj.mp (by simpa using hz))
    omega
  have hv : natOfLE d = natOfLE d.dropLast + 256 ^ (d.length - 1) * (d.getLast hne).toNat := by
    conv => lhs; rw [hd]
    rw [natOfLE_append, List.length_dropLast]; simp [natOfLE]
  rw [hv]
  have : 256 ^ (d.length - 1) * 1 ≤ 256 ^ (d.length - 1) * (d.getLast hne).toNat :=
    Nat.mul_le_mul_left _ hpos
  omega

theorem decBigV_m0 {b : UInt8} (rest : Bytes) (m : b.toNat % 4 = 0) :
    decBigV (b :: rest) = some (b.toNat / 4, rest) := by simp [decBigV, m]

theorem decBigV_m1_nil {b : UInt8} (m : b.toNat % 4 = 1) : decBigV [b] = none := by
  simp [decBigV, m]

theorem decBigV_m1 {b : UInt8} (c : UInt8) (rest : Bytes) (m : b.toNat % 4 = 1) :
    decBigV (b :: c :: rest) =
      if (b.toNat + 256 * c.toNat) / 4 ≤ 63 then none
      else some ((b.toNat + 256 * c.toNat) / 4, rest) := by
  simp [decBigV, m]

theorem decBigV_m2 {b : UInt8} (rest : Bytes) (m : b.toNat % 4 = 2) :
    decBigV (b :: rest) =
      if rest.length < 3 then none
      else if (b.toNat + 256 * natOfLE (rest.take 3)) / 4 ≤ 16383 then none
      else some ((b.toNat + 256 * natOfLE (rest.take 3)) / 4, rest.drop 3) := by
  by_cases hl : rest.length < 3
  · simp [decBigV, m, readFull, hl]
  · by_cases hc : (b.toNat + 256 * natOfLE (rest.take 3)) / 4 ≤ 16383
    · simp [decBigV, m, readFull, hl, natOfLE, hc]
    · simp [decBigV, m, readFull, hl, natOfLE, hc]

theorem decBigV_m3 {b : UInt8} (rest : Bytes) (m : b.toNat % 4 = 3) :
    decBigV (b :: rest) =
      if rest.length < b.toNat / 4 + 4 then none
      else if (rest.take (b.toNat / 4 + 4)).getLast? = some 0 then none
      else if b.toNat / 4 + 4 = 4 ∧ natOfLE (rest.take (b.toNat / 4 + 4)) < 1073741824 then none
      else some (natOfLE (rest.take (b.toNat / 4 + 4)), rest.drop (b.toNat / 4 + 4)) := by
  by_cases hl : rest.length < b.toNat / 4 + 4
  · simp [decBigV, m, readFull, hl]
  · simp only [decBigV, m, readFull, hl, if_false]
    simp

/-- `decodeBigInt` accepts exactly the canonical compact encodings -/
theorem decBigV_spec (bs : Bytes) : decBigV bs = compactDec bs := by
  cases bs with
  | nil => simp [decBigV, compactDec]
  | cons b rest =>
    have hb := b.toNat_lt
    by_cases m0 : b.toNat % 4 = 0
    · rw [decBigV_m0 rest m0, compactDec_m0 rest m0]
    · by_cases m1 : b.toNat % 4 = 1
      · cases rest with
        | nil => rw [decBigV_m1_nil m1, compactDec_m1_nil m1]
        | cons c rest' =>
          rw [decBigV_m1 c rest' m1, compactDec_m1 c rest' m1]
          by_cases hv : 64 ≤ (b.toNat + 256 * c.toNat) / 4
          · have h1 : ¬ ((b.toNat + 256 * c.toNat) / 4 ≤ 63) := by omega
            simp [hv, h1]
          · have h1 : ((b.toNat + 256 * c.toNat) / 4 ≤ 63) := by omega
            simp [hv, h1]
      · by_cases m2 : b.toNat % 4 = 2
        · rw [decBigV_m2 rest m2, compactDec_m2 rest m2]
          by_cases hl : rest.length < 3
          · simp [hl]
          · simp only [hl, if_false]
            by_cases hv : 16384 ≤ (b.toNat + 256 * natOfLE (rest.take 3)) / 4
            · have h1 : ¬ ((b.toNat + 256 * natOfLE (rest.take 3)) / 4 ≤ 16383) := by omega
              simp [hv, h1]
            · have h1 : ((b.toNat + 256 * natOfLE (rest.take 3)) / 4 ≤ 16383) := by omega
              simp [hv, h1]
        · have m3 : b.toNat % 4 = 3 := by omega
          rw [decBigV_m3 rest m3, compactDec_m3 rest m3]
          by_cases hl : rest.length < b.toNat / 4 + 4
          · simp [hl]
          · simp only [hl, if_false]
            have hlen : (rest.take (b.toNat / 4 + 4)).length = b.toNat / 4 + 4 := by simp; omega
            have hne : rest.take (b.toNat / 4 + 4) ≠ [] := by
              intro hz; rw [hz] at hlen; simp at hlen
            have hd := natOfLE_lt (rest.take (b.toNat / 4 + 4))
            rw [hlen] at hd
            rw [List.getLast?_eq_some_getLast hne]
            by_cases htop : (rest.take (b.toNat / 4 + 4)).getLast hne = 0
            · -- zero top byte: below 256^(len-1)
              have hnot : ¬ (256 ^ (b.toNat / 4 + 3) ≤ natOfLE (rest.take (b.toNat / 4 + 4))) := by
                intro hle
                exact getLast_ne_zero_of_le _ hne (by
                  rw [hlen, show b.toNat / 4 + 4 - 1 = b.toNat / 4 + 3 by omega]; exact hle) htop
              simp [htop, hnot]
            · have hle := le_natOfLE_of_getLast _ hne htop
              rw [hlen, show b.toNat / 4 + 4 - 1 = b.toNat / 4 + 3 by omega] at hle
              have h1 : ¬ (some ((rest.take (b.toNat / 4 + 4)).getLast hne) = some 0) := by
                intro h; exact htop (Option.some.inj h)
              simp only [h1, if_false]
              by_cases k4 : b.toNat / 4 = 0
              · simp only [k4, Nat.zero_add] at hle ⊢
                by_cases hv : natOfLE (rest.take 4) < 1073741824
                · have : ¬ (1073741824 ≤ natOfLE (rest.take 4) ∧ 256 ^ 3 ≤ natOfLE (rest.take 4)) := by omega
                  simp [hv, this]
                · have : (1073741824 ≤ natOfLE (rest.take 4) ∧ 256 ^ 3 ≤ natOfLE (rest.take 4)) :=
                    ⟨by omega, hle⟩
                  simp [hv, this]
              · have lo : 256 ^ 4 ≤ 256 ^ (b.toNat / 4 + 3) := pow256_mono (by omega)
                rw [pow256_4] at lo
                have h2 : ¬ (b.toNat / 4 + 4 = 4 ∧
                    natOfLE (rest.take (b.toNat / 4 + 4)) < 1073741824) := by omega
                have h3 : (1073741824 ≤ natOfLE (rest.take (b.toNat / 4 + 4)) ∧
                    256 ^ (b.toNat / 4 + 3) ≤ natOfLE (rest.take (b.toNat / 4 + 4))) := ⟨by omega, hle⟩
                simp [h2, h3]


/-! ### every primitive decoder against the canonical one -/

theorem decFixed_u (w : Nat) (bs : Bytes) :
    (decFixed w false bs).res = Spec.decKind (.uint w) bs ∧ (decFixed w false bs).zf = false := by
  unfold decFixed readFull
  by_cases hl : bs.length < w <;> simp [hl, PRes.fail, PRes.ok, Spec.decKind]

theorem goSigned_eq (w n : Nat) : goSigned w n = Spec.untwos w n := rfl

theorem decFixed_s (w : Nat) (bs : Bytes) :
    (decFixed w true bs).res = Spec.decKind (.sint w) bs ∧ (decFixed w true bs).zf = false := by
  unfold decFixed readFull
  by_cases hl : bs.length < w <;> simp [hl, PRes.fail, PRes.ok, Spec.decKind, goSigned_eq]

theorem decBool_spec (bs : Bytes) :
    (decBool bs).res = Spec.decKind .bool bs ∧ (decBool bs).zf = false := by
  cases bs with
  | nil => simp [decBool, PRes.fail, Spec.decKind]
  | cons b r =>
    by_cases h0 : b = 0
    · simp [decBool, h0, PRes.ok, Spec.decKind]
    · by_cases h1 : b = 1
      · simp [decBool, h1, PRes.ok, Spec.decKind]
      · simp [decBool, h0, h1, PRes.fail, Spec.decKind]

/-- the Go compact decoder relative to the canonical one: values outside `uintOk` are refused -/
def goFilter : Prim → Option (Val × Bytes) → Option (Val × Bytes)
  | .compact, some (.nat n, r) => if uintOk n then some (.nat n, r) else none
  | _, o => o

theorem uintOk_lt {n : Nat} (h : uintOk n = true) : n < 256 ^ 8 := by
  rw [pow256_8]
  simp only [uintOk, Bool.or_eq_true, Bool.and_eq_true, decide_eq_true_eq] at h
  omega

theorem decCompact_spec (bs : Bytes) :
    (decCompact bs).res = goFilter .compact (Spec.decKind (.compact 8) bs) ∧
      (decCompact bs).zf = false := by
  unfold decCompact
  rw [decodeUint_spec]
  simp only [Spec.decKind]
  cases hc : compactDec bs with
  | none => simp [filt, PRes.fail, goFilter]
  | some q =>
    obtain ⟨n, r⟩ := q
    by_cases hok : uintOk n = true
    · have := uintOk_lt hok
      simp [filt, hok, PRes.ok, goFilter, this]
    · have hf : uintOk n = false := by simpa using hok
      by_cases hlt : n < 256 ^ 8
      · simp [filt, hf, PRes.fail, goFilter, hlt]
      · simp [filt, hf, PRes.fail, goFilter, hlt]

theorem decBig_spec (bs : Bytes) :
    (decBig bs).res = Spec.decKind (.compact 67) bs ∧ (decBig bs).zf = false := by
  unfold decBig
  rw [decBigV_spec]
  simp only [Spec.decKind]
  cases hc : compactDec bs with
  | none => simp [PRes.fail]
  | some q =>
    obtain ⟨n, r⟩ := q
    have := (compactDec_sound hc).1
    simp [PRes.ok, this]

/-- `decodeBytes` against the canonical byte-string decoder: equal unless a short read was
    zero-filled, and then the canonical decoder rejects the input -/
theorem decBytes_spec (bs : Bytes) :
    ((decBytes bs).zf = false → (decBytes bs).res = Spec.decKind .bytes bs) ∧
    ((decBytes bs).zf = true → Spec.decKind .bytes bs = none) := by
  unfold decBytes
  rw [decodeUint_spec]
  simp only [Spec.decKind]
  cases hc : compactDec bs with
  | none => simp [filt, PRes.fail]
  | some q =>
    obtain ⟨n, r⟩ := q
    by_cases hok : uintOk n = true
    · simp only [filt, hok, if_true]
      by_cases hbig : n > 4294967295
      · have : ¬ (n < maxBytesLen ∧ n ≤ r.length) := by
          have : maxBytesLen = 4294967296 := rfl
          omega
        simp [hbig, this, PRes.fail]
      · have hlt : n < maxBytesLen := by
          have : maxBytesLen = 4294967296 := rfl
          omega
        simp only [hbig, if_false]
        by_cases hz : n = 0
        · subst hz; simp [PRes.ok, hlt]
        · simp only [hz, if_false]
          cases r with
          | nil =>
            simp [PRes.fail]
            intro _; exact hz
          | cons x xs =>
            simp only [List.isEmpty_cons, Bool.false_eq_true, if_false, PRes.ok]
            by_cases hshort : (x :: xs).length < n
            · have hs : xs.length + 1 < n := by simpa using hshort
              simp
              exact ⟨fun h => by omega, fun _ _ => hs⟩
            · have hs : n ≤ xs.length + 1 := by simpa using hshort
              simp
              exact ⟨fun h => ⟨⟨hlt, h⟩, Or.inl (by omega)⟩, fun h _ => h⟩
    · have hf : uintOk n = false := by simpa using hok
      have hge : ¬ n < 4294967296 := by
        simp only [uintOk, Bool.or_eq_false_iff, decide_eq_false_iff_not] at hf
        exact hf.1
      have : ¬ (n < maxBytesLen ∧ n ≤ r.length) := by
        have : maxBytesLen = 4294967296 := rfl
        omega
      simp [filt, hf, PRes.fail, this]

/-- **Every primitive**: when no short read was zero-filled, the Go primitive decoder returns what
    the canonical one returns (refusing compact values outside `uintOk`); when one was, the
    canonical decoder rejects the input. -/
theorem decPA_spec (p : Prim) (bs : Bytes) :
    ((decPA p bs).zf = false → (decPA p bs).res = goFilter p (Spec.decKind p.kind bs)) ∧
    ((decPA p bs).zf = true → Spec.decKind p.kind bs = none) := by
  cases p <;> simp only [decPA, Prim.kind, goFilter]
  case u8 => have := decFixed_u 1 bs; simp [this.1, this.2]
  case u16 => have := decFixed_u 2 bs; simp [this.1, this.2]
  case u32 => have := decFixed_u 4 bs; simp [this.1, this.2]
  case u64 => have := decFixed_u 8 bs; simp [this.1, this.2]
  case u128 => have := decFixed_u 16 bs; simp [this.1, this.2]
  case i8 => have := decFixed_s 1 bs; simp [this.1, this.2]
  case i16 => have := decFixed_s 2 bs; simp [this.1, this.2]
  case i32 => have := decFixed_s 4 bs; simp [this.1, this.2]
  case i64 => have := decFixed_s 8 bs; simp [this.1, this.2]
  case compact => have := decCompact_spec bs; simp [this.1, this.2, goFilter]
  case big => have := decBig_spec bs; simp [this.1, this.2]
  case bool => have := decBool_spec bs; simp [this.1, this.2]
  case bytes => exact decBytes_spec bs
  case str => exact decBytes_spec bs


/-! ## round trip of the Go codec -/

/-- the leaves on which the Go decoder accepts what the Go encoder wrote: everything except a
    Go `uint` (or a length) in [2^32, 2^56) -/
def okLeaf : Prim → Val → Bool
  | .compact, .nat n => uintOk n
  | _, _ => true

def okLen (n : Nat) : Bool := uintOk n

theorem goFilter_ok (p : Prim) (v : Val) (r : Bytes) (h : okLeaf p v = true) :
    goFilter p (some (v, r)) = some (v, r) := by
  cases p <;> cases v <;> simp_all [goFilter, okLeaf]

theorem model_rtP (p : Prim) (v : Val) (r : Bytes) (hw : wtKind p.kind v = true)
    (hq : okLeaf p v = true) : codec.decP p (codec.encP p v ++ r) = some (v, r) := by
  show (decPA p (encP p v ++ r)).res = some (v, r)
  rw [encP_canonical p v hw]
  have hs : Spec.decKind p.kind (Spec.encKind p.kind v ++ r) = some (v, r) := Spec.rt.rtP p v r hw
  have ⟨h1, h2⟩ := decPA_spec p (Spec.encKind p.kind v ++ r)
  cases hz : (decPA p (Spec.encKind p.kind v ++ r)).zf with
  | true => have := h2 hz; rw [hs] at this; cases this
  | false => rw [h1 hz, hs]; exact goFilter_ok p v r hq

theorem model_rtLen (n : Nat) (r : Bytes) (hn : n < maxSeqLen) (hq : okLen n = true) :
    codec.decLen (codec.encLen n ++ r) = some (n, r) := by
  show decodeUintV (encodeUint n ++ r) = some (n, r)
  rw [C11_encodeUint_canonical n (by rw [← maxSeqLen_eq]; exact hn), decodeUint_spec,
    compactDec_enc n (Nat.lt_of_lt_of_le hn maxSeqLen_lt) r]
  simp only [okLen] at hq
  simp [filt, hq]

/-- **Round trip** (partial: known finding uint-5to7).  Full statement wanted:
    `wt t v → unmarshal t (marshal t v ++ r) = some (v, r)`.  It holds whenever no Go `uint` leaf
    and no sequence length of the value lies in [2^32, 2^56) (`leavesOk okLeaf okLen`). -/
theorem C11_roundtrip_partial (t : Ty) (v : Val) (r : Bytes) (h : wt t v = true)
    (hq : leavesOk okLeaf okLen t v = true) : unmarshal t (marshal t v ++ r) = some (v, r) :=
  roundtripOn codec okLeaf okLen model_rtP model_rtLen t v r h hq

/-- … and decoding the encoding yields a value whose encoding is the same bytes (canonical) -/
theorem C11_roundtrip_canonical (t : Ty) (v : Val) (r : Bytes) (h : wt t v = true)
    (hq : leavesOk okLeaf okLen t v = true) :
    unmarshal t (encode Spec.codec t v ++ r) = some (v, r) := by
  rw [← C11_encode_canonical t v h]; exact C11_roundtrip_partial t v r h hq


/-- the round trip covers element types of encoded width 0 (`Vec<()>`, `[][0]byte`, structs whose
    fields are all ignored): `n` units encode to the compact length alone and decode back, whatever
    follows (in particular nothing) -/
theorem C11_roundtrip_zero_width (n : Nat) (hn : n < 4294967296) (r : Bytes) :
    marshal (.seq .unit) (.list (List.replicate n .unit)) = encodeUint n ∧
    unmarshal (.seq .unit) (marshal (.seq .unit) (.list (List.replicate n .unit)) ++ r)
      = some (.list (List.replicate n .unit), r) := by
  constructor
  · have : ∀ (f : Val → Bytes) k, (∀ v, f v = []) → encList f (List.replicate k .unit) = [] := by
      intro f k hf; induction k with
      | zero => rfl
      | succ k ih => rw [List.replicate_succ, encList, hf, ih]; rfl
    simp only [marshal, encode, List.length_replicate]
    rw [this _ n (fun v => by simp [encode])]
    simp [codec]
  · apply C11_roundtrip_partial
    · have h64 : n < maxSeqLen := by rw [maxSeqLen_eq, pow2_64]; omega
      simp [wt, h64]
    · simp [leavesOk, okLen, uintOk, hn]

/-- the same for arrays of length 0 and nested slices: a concrete instance -/
example : (unmarshal (.seq (.seq (.array 0 (.prim .u8))))
    (marshal (.seq (.seq (.array 0 (.prim .u8)))) (.list [.list [.list [], .list []], .list []]))).isSome
      = true := by decide

/-- the excluded region is real: 2^32 is a well-typed Go `uint`, its encoding `07 00 00 00 00 01`
    is canonical, and the Go decoder rejects it -/
theorem C11_roundtrip_counterexample :
    wt (.prim .compact) (.nat 4294967296) = true ∧
    marshal (.prim .compact) (.nat 4294967296) = [7, 0, 0, 0, 0, 1] ∧
    (unmarshal (.prim .compact) (marshal (.prim .compact) (.nat 4294967296))).isNone = true := by
  refine ⟨by decide, by decide, by decide⟩

/-- the hypotheses of `C11_roundtrip_partial` are satisfiable by a non-trivial value -/
example : wt (.pair (.prim .compact) (.pair (.seq (.prim .u16)) .unit))
      (.pair (.nat 72057594037927936) (.pair (.list [.nat 1, .nat 65535]) .unit)) = true ∧
    leavesOk okLeaf okLen (.pair (.prim .compact) (.pair (.seq (.prim .u16)) .unit))
      (.pair (.nat 72057594037927936) (.pair (.list [.nat 1, .nat 65535]) .unit)) = true := by
  decide

/-! ## the pointer walk of `marshal` -/

theorem optJoin_map (f : Val → Option Bytes) (g : Val → Bytes) (vs : List Val)
    (h : ∀ v ∈ vs, f v = some (g v)) : optJoin (vs.map f) = some (encList g vs) := by
  induction vs with
  | nil => rfl
  | cons v vs ih =>
    simp only [List.map_cons, optJoin, encList]
    rw [h v (by simp)]
    simp only [optJoin]
    rw [ih (fun w hw => h w (by simp [hw]))]; rfl

/-- **Marshal as walked by the Go code** (partial: known finding opt-vdt): below no pointer to a
    varying data type the reflect walk writes exactly `marshal t v`. -/
theorem C11_marshalGo_partial (t : Ty) (h : C12.hasOptVdt t = false) :
    ∀ v, marshalGo t v = some (marshal t v) := by
  induction t with
  | prim p => intro v; simp [marshalGo, marshal, encode, codec]
  | unit => intro v; simp [marshalGo, marshal, encode]
  | pair a b iha ihb =>
    simp only [C12.hasOptVdt, Bool.or_eq_false_iff] at h
    intro v
    cases v <;> simp [marshalGo, marshal, encode]
    rename_i x y
    have := iha h.1 x; have := ihb h.2 y
    simp_all [marshal]
  | option t ih =>
    simp only [C12.hasOptVdt, Bool.or_eq_false_iff] at h
    intro v
    cases v <;> simp [marshalGo, marshal, encode, h.1]
    rename_i x
    have := ih h.2 x
    simp_all [marshal]
  | result a b iha ihb =>
    simp only [C12.hasOptVdt, Bool.or_eq_false_iff] at h
    intro v
    cases v <;> simp [marshalGo, marshal, encode]
    · rename_i x; have := iha h.1 x; simp_all [marshal]
    · rename_i x; have := ihb h.2 x; simp_all [marshal]
  | array n t ih =>
    simp only [C12.hasOptVdt] at h
    intro v
    cases v <;> simp [marshalGo, marshal, encode]
    rename_i vs
    exact optJoin_map _ _ vs (fun w _ => ih h w)
  | seq t ih =>
    simp only [C12.hasOptVdt] at h
    intro v
    cases v <;> simp [marshalGo, marshal, encode]
    rename_i vs
    rw [optJoin_map _ (encode codec t) vs (fun w _ => ih h w)]
    simp [codec]
  | enumNil => intro v; cases v <;> simp [marshalGo, marshal, encode]
  | enumCons i t rest iht ihr =>
    simp only [C12.hasOptVdt, Bool.or_eq_false_iff] at h
    intro v
    cases v <;> simp [marshalGo, marshal, encode]
    rename_i j x
    by_cases hj : j = i
    · subst hj
      have := iht h.1 x
      simp_all [marshal]
    · have := ihr h.2 (.variant j x)
      simp_all [marshal]

/-- the excluded region is real: `Some(v)` behind a pointer to a varying data type is written
    without its option byte, `None` panics -/
theorem C11_marshalGo_counterexample :
    marshalGo (.option (.enumCons 0 (.prim .u8) .enumNil)) (.some (.variant 0 (.nat 5))) = some [0, 5] ∧
    encode Spec.codec (.option (.enumCons 0 (.prim .u8) .enumNil)) (.some (.variant 0 (.nat 5))) = [1, 0, 5] ∧
    marshalGo (.option (.enumCons 0 (.prim .u8) .enumNil)) .none = none := by
  refine ⟨by decide, by decide, by decide⟩


/-! ## struct field order (`fieldScaleIndices`) -/

theorem insertTagged_perm (x : Nat × Int) (l : List (Nat × Int)) :
    (insertTagged x l).Perm (x :: l) := by
  induction l with
  | nil => exact List.Perm.refl _
  | cons y ys ih =>
    simp only [insertTagged]
    split
    · exact List.Perm.refl _
    · exact ((List.Perm.cons y ih).trans (List.Perm.swap x y ys))

theorem sortTagged_perm (l : List (Nat × Int)) : (sortTagged l).Perm l := by
  induction l with
  | nil => exact List.Perm.refl _
  | cons x xs ih => exact (insertTagged_perm x _).trans (List.Perm.cons x ih)

theorem insertTagged_sorted (x : Nat × Int) (l : List (Nat × Int))
    (h : l.Pairwise (fun a b => a.2 ≤ b.2)) : (insertTagged x l).Pairwise (fun a b => a.2 ≤ b.2) := by
  induction l with
  | nil => simp [insertTagged]
  | cons y ys ih =>
    have ⟨hy, hys⟩ := List.pairwise_cons.1 h
    simp only [insertTagged]
    split
    · rename_i hlt
      refine List.pairwise_cons.2 ⟨fun z hz => ?_, h⟩
      rcases List.mem_cons.1 hz with e | e
      · subst e; omega
      · have := hy z e; omega
    · rename_i hge
      refine List.pairwise_cons.2 ⟨fun z hz => ?_, ih hys⟩
      have hz' := (insertTagged_perm x ys).mem_iff.1 hz
      rcases List.mem_cons.1 hz' with e | e
      · subst e; omega
      · exact hy z e

theorem sortTagged_sorted (l : List (Nat × Int)) : (sortTagged l).Pairwise (fun a b => a.2 ≤ b.2) := by
  induction l with
  | nil => simp [sortTagged]
  | cons x xs ih => exact insertTagged_sorted x _ ih

theorem zipIdx_pairwise {α : Type} (l : List α) (k : Nat) :
    (l.zipIdx k).Pairwise (fun a b => a.2 < b.2) := by
  induction l generalizing k with
  | nil => simp
  | cons x xs ih =>
    simp only [List.zipIdx_cons]
    refine List.pairwise_cons.2 ⟨fun z hz => ?_, ih (k + 1)⟩
    have := List.le_snd_of_mem_zipIdx hz
    simp only; omega

/-- the tagged fields `(index, tag)` and the untagged indices of a struct -/
def taggedOf (tags : List FieldTag) : List (Nat × Int) :=
  tags.zipIdx.filterMap (fun (t, i) => match t with | some (some k) => some (i, k) | _ => none)
def untaggedOf (tags : List FieldTag) : List Nat :=
  tags.zipIdx.filterMap (fun (t, i) => match t with | none => some i | _ => none)

theorem fieldOrder_eq (tags : List FieldTag) :
    fieldOrder tags = (sortTagged (taggedOf tags)).map (·.1) ++ untaggedOf tags := rfl

theorem mem_taggedOf (tags : List FieldTag) (i : Nat) (k : Int) :
    (i, k) ∈ taggedOf tags ↔ tags[i]? = some (some (some k)) := by
  simp only [taggedOf, List.mem_filterMap]
  constructor
  · rintro ⟨⟨t, j⟩, hm, hf⟩
    have := List.mem_zipIdx_iff_getElem?.1 hm
    simp only at this
    cases t with
    | none => simp at hf
    | some t' =>
      cases t' with
      | none => simp at hf
      | some k' =>
        simp only [Option.some.injEq, Prod.mk.injEq] at hf
        rw [← hf.1, ← hf.2]; exact this
  · intro h
    exact ⟨(some (some k), i), List.mem_zipIdx_iff_getElem?.2 h, rfl⟩

theorem mem_untaggedOf (tags : List FieldTag) (i : Nat) :
    i ∈ untaggedOf tags ↔ tags[i]? = some none := by
  simp only [untaggedOf, List.mem_filterMap]
  constructor
  · rintro ⟨⟨t, j⟩, hm, hf⟩
    have := List.mem_zipIdx_iff_getElem?.1 hm
    simp only at this
    cases t with
    | none => simp only [Option.some.injEq] at hf; rw [← hf]; exact this
    | some t' => cases t' <;> simp at hf
  · intro h
    exact ⟨(none, i), List.mem_zipIdx_iff_getElem?.2 h, rfl⟩

/-- **Field order, membership**: the encoding order contains exactly the fields that are not
    skipped (`scale:"-"`): those without a tag and those with a numeric tag. -/
theorem C11_fieldOrder_mem (tags : List FieldTag) (i : Nat) :
    i ∈ fieldOrder tags ↔ (tags[i]? = some none ∨ ∃ k, tags[i]? = some (some (some k))) := by
  rw [fieldOrder_eq, List.mem_append, List.mem_map]
  constructor
  · rintro (⟨⟨j, k⟩, hm, hj⟩ | h)
    · simp only at hj; subst hj
      exact Or.inr ⟨k, (mem_taggedOf tags j k).1 ((sortTagged_perm _).mem_iff.1 hm)⟩
    · exact Or.inl ((mem_untaggedOf tags i).1 h)
  · rintro (h | ⟨k, h⟩)
    · exact Or.inr ((mem_untaggedOf tags i).2 h)
    · exact Or.inl ⟨(i, k), (sortTagged_perm _).mem_iff.2 ((mem_taggedOf tags i k).2 h), rfl⟩

/-- **Field order, shape**: first the tagged fields in ascending tag order (a permutation of the
    tagged fields), then the untagged fields in declaration order. -/
theorem C11_fieldOrder_sorted (tags : List FieldTag) :
    ∃ (ts : List (Nat × Int)) (us : List Nat), fieldOrder tags = ts.map (·.1) ++ us ∧
      ts.Perm (taggedOf tags) ∧ ts.Pairwise (fun a b => a.2 ≤ b.2) ∧
      us = untaggedOf tags ∧ us.Pairwise (· < ·) := by
  refine ⟨sortTagged (taggedOf tags), untaggedOf tags, fieldOrder_eq tags, sortTagged_perm _,
    sortTagged_sorted _, rfl, ?_⟩
  unfold untaggedOf
  refine List.Pairwise.filterMap _ ?_ (zipIdx_pairwise tags 0)
  intro a a' hlt b hb b' hb'
  obtain ⟨t, i⟩ := a
  obtain ⟨t', i'⟩ := a'
  cases t with
  | none =>
    cases t' with
    | none =>
      simp only [Option.some.injEq] at hb hb'
      subst hb; subst hb'; exact hlt
    | some x => cases x <;> simp at hb'
  | some x => cases x <;> simp at hb


/-- tag order, ties by declaration order -/
def tagLt (a b : Nat × Int) : Prop := a.2 < b.2 ∨ (a.2 = b.2 ∧ a.1 < b.1)

theorem insertTagged_stable (x : Nat × Int) (l : List (Nat × Int)) (hl : l.Pairwise tagLt)
    (hx : ∀ z ∈ l, x.1 < z.1) : (insertTagged x l).Pairwise tagLt := by
  induction l with
  | nil => simp [insertTagged]
  | cons y ys ih =>
    have ⟨hy, hys⟩ := List.pairwise_cons.1 hl
    simp only [insertTagged]
    split
    · rename_i hle
      refine List.pairwise_cons.2 ⟨fun z hz => ?_, hl⟩
      have hxz := hx z hz
      rcases List.mem_cons.1 hz with e | e
      · subst e; unfold tagLt; omega
      · have := hy z e; unfold tagLt at this ⊢; omega
    · rename_i hgt
      refine List.pairwise_cons.2 ⟨fun z hz => ?_, ih hys (fun z hz => hx z (by simp [hz]))⟩
      have hz' := (insertTagged_perm x ys).mem_iff.1 hz
      rcases List.mem_cons.1 hz' with e | e
      · subst e; unfold tagLt; omega
      · exact hy z e

theorem sortTagged_stable (l : List (Nat × Int)) (h : l.Pairwise (fun a b => a.1 < b.1)) :
    (sortTagged l).Pairwise tagLt := by
  induction l with
  | nil => simp [sortTagged]
  | cons x xs ih =>
    have ⟨hx, hxs⟩ := List.pairwise_cons.1 h
    exact insertTagged_stable x _ (ih hxs)
      (fun z hz => hx z ((sortTagged_perm xs).mem_iff.1 hz))

theorem taggedOf_ascending (tags : List FieldTag) :
    (taggedOf tags).Pairwise (fun a b => a.1 < b.1) := by
  unfold taggedOf
  refine List.Pairwise.filterMap _ ?_ (zipIdx_pairwise tags 0)
  intro a a' hlt b hb b' hb'
  obtain ⟨t, i⟩ := a
  obtain ⟨t', i'⟩ := a'
  cases t with
  | none => simp at hb
  | some x =>
    cases x with
    | none => simp at hb
    | some k =>
      cases t' with
      | none => simp at hb'
      | some x' =>
        cases x' with
        | none => simp at hb'
        | some k' =>
          simp only [Option.some.injEq] at hb hb'
          subst hb; subst hb'; exact hlt

/-- **Field order is a stable sort of the declaration order**: the tagged fields come first, by
    ascending tag and, among equal tags, in declaration order; the untagged fields follow in
    declaration order — for any number of fields. -/
theorem C11_fieldOrder_stable (tags : List FieldTag) :
    ∃ (ts : List (Nat × Int)) (us : List Nat), fieldOrder tags = ts.map (·.1) ++ us ∧
      ts.Perm (taggedOf tags) ∧ ts.Pairwise tagLt ∧ us = untaggedOf tags ∧ us.Pairwise (· < ·) := by
  obtain ⟨ts, us, h1, h2, _, h4, h5⟩ := C11_fieldOrder_sorted tags
  refine ⟨sortTagged (taggedOf tags), untaggedOf tags, fieldOrder_eq tags, sortTagged_perm _,
    sortTagged_stable _ (taggedOf_ascending tags), rfl, ?_⟩
  rw [← h4]; exact h5

/-- a struct of 16 fields, tags interleaved with untagged and ignored fields (harness `c11W16`) -/
example : fieldOrder [none, some (some 3), none, none, some (some 1), none, some none, none, none,
    some (some 2), none, none, none, some (some 7), none, none]
    = [4, 9, 1, 13, 0, 2, 3, 5, 7, 8, 10, 11, 12, 14, 15] := by decide

example : fieldOrder [some (some 2), some none, some (some (-1)), none, none] = [2, 0, 3, 4] := by decide


end Gossamer.C11
