/-
C11  SCALE encoding round-trips and is canonical.

Model: `Gossamer.C11` (Model/C11.lean), the Go codec of pkg/scale.  Spec: `Scale.Spec.codec`, the
canonical SCALE codec, for which round trip / soundness / truncation are proved in Lib/Scale.

  C11_encodeUint_canonical, C11_encodeBigInt_canonical   Go's compact encoders = canonical compact
  C11_encode_canonical          Marshal = canonical encoder on every well-typed value
  C11_marshalGo_partial         … also for the pointer walk, except below a pointer to a VDT
  C11_marshalGo_counterexample  (known finding opt-vdt)
  C11_roundtrip_partial         Unmarshal (Marshal v ++ r) = (v, r) unless a Go uint / length lies
                                in [2^32, 2^56)
  C11_roundtrip_counterexample  (known finding uint-5to7)
  C11_fieldOrder_mem / _sorted  fieldScaleIndices: exactly the non-skipped fields, tagged ones first
                                in ascending tag order, then the untagged ones in declaration order
-/
import Gossamer.Model.C11
import Gossamer.Model.C12
namespace Gossamer.C11
open Gossamer Gossamer.Scale

/-! ## encoders -/

theorem numBytesLoop_eq (fuel m nb : Nat) (h1 : (leMin m).length ≤ fuel)
    (h2 : nb + (leMin m).length ≤ 256) : numBytesLoop fuel m nb = nb + (leMin m).length := by
  induction fuel generalizing m nb with
  | zero =>
    have : (leMin m).length = 0 := by omega
    simp [numBytesLoop, this]
  | succ fuel ih =>
    by_cases hm : m = 0
    · subst hm; simp [numBytesLoop, leMin_zero]
    · have e := leMin_pos hm
      rw [e] at h1 h2 ⊢
      simp only [List.length_cons] at h1 h2 ⊢
      have hnb : nb < 256 := by omega
      simp only [numBytesLoop, hnb, hm, ne_eq, not_false_eq_true, and_self, if_true]
      rw [ih (m / 256) (nb + 1) (by omega) (by omega)]; omega

theorem take_leBytes_leMin (k n : Nat) (h : n < 256 ^ k) :
    (leBytes k n).take (leMin n).length = leMin n := by
  induction k generalizing n with
  | zero =>
    have : n = 0 := by simpa using h
    subst this; simp [leMin_zero]
  | succ k ih =>
    by_cases hn : n = 0
    · subst hn; simp [leMin_zero]
    · rw [leMin_pos hn, leBytes_succ]
      simp only [List.length_cons, List.take_succ_cons]
      rw [ih (n / 256) (by rw [Nat.pow_succ] at h; omega)]

theorem lengthByte_eq (L : Nat) (h4 : 4 ≤ L) (h67 : L ≤ 67) :
    lengthByte L = UInt8.ofNat (4 * (L - 4) + 3) := by
  unfold lengthByte; congr 1; omega

theorem pow2_64 : (2:Nat) ^ 64 = 18446744073709551616 := by decide
theorem pow256_8 : (256:Nat) ^ 8 = 18446744073709551616 := by decide

/-- `encodeUint` is the canonical compact encoder on the whole range of a Go `uint` -/
theorem C11_encodeUint_canonical (n : Nat) (h : n < 2 ^ 64) : encodeUint n = compactEnc n := by
  rw [pow2_64] at h
  unfold encodeUint compactEnc
  rw [pow2_64]
  by_cases h1 : n < 64
  · simp only [h1, if_true]; congr 2; omega
  · by_cases h2 : n < 16384
    · simp only [h1, h2, if_true, if_false]; congr 1; omega
    · by_cases h3 : n < 1073741824
      · simp only [h1, h2, h3, if_true, if_false]; congr 1; omega
      · simp only [h1, h2, h3, if_false]
        have h8 : n < 256 ^ 8 := by rw [pow256_8]; exact h
        have hl8 : (leMin n).length ≤ 8 := (length_leMin_le n 8).2 h8
        have ⟨hl4, _⟩ := length_leMin_big (by omega) (lt_pow67 (by decide) h8)
        have hnb : numBytesLoop 256 n 0 = (leMin n).length := by
          rw [numBytesLoop_eq 256 n 0 (by omega) (by omega)]; omega
        simp only [hnb]
        rw [lengthByte_eq _ hl4 (by omega), take_leBytes_leMin 8 n h8]

/-- `encodeBigInt` is the canonical compact encoder for every non-negative integer below 2^536 -/
theorem C11_encodeBigInt_canonical (n : Nat) (h : n < 256 ^ 67) : encodeBigInt n = compactEnc n := by
  unfold encodeBigInt compactEnc
  by_cases h1 : n < 64
  · simp only [h1, if_true]; congr 2; omega
  · by_cases h2 : n < 16384
    · simp only [h1, h2, if_true, if_false]; congr 1; omega
    · by_cases h3 : n < 1073741824
      · simp only [h1, h2, h3, if_true, if_false]; congr 1; omega
      · simp only [h1, h2, h3, if_false]
        have ⟨hl4, hl67⟩ := length_leMin_big (by omega) h
        rw [lengthByte_eq _ hl4 hl67]

theorem emod_twos (M : Nat) (hM : 0 < M) (i : Int) (h1 : -(M:Int) ≤ i) (h2 : i < (M:Int)) :
    (i % (M:Int)).toNat = if 0 ≤ i then i.toNat else (i + (M:Int)).toNat := by
  by_cases hi : 0 ≤ i
  · simp only [hi, if_true]; rw [Int.emod_eq_of_lt hi h2]
  · simp only [hi, if_false]
    have : i % (M:Int) = (i + (M:Int)) % (M:Int) := by simp
    rw [this, Int.emod_eq_of_lt (by omega) (by omega)]

theorem goUnsigned_eq (w : Nat) (i : Int)
    (h1 : - ((256 ^ w / 2 : Nat) : Int) ≤ i) (h2 : i < ((256 ^ w / 2 : Nat) : Int)) :
    goUnsigned w i = Spec.twos w i := by
  unfold goUnsigned Spec.twos
  have hpos : 0 < 256 ^ w := Nat.pow_pos (by decide)
  apply emod_twos _ hpos <;> omega

theorem maxSeqLen_eq : maxSeqLen = 2 ^ 64 := rfl

/-- every primitive encoder of the Go code is the canonical one on well-typed values -/
theorem encP_canonical (p : Prim) (v : Val) (h : wtKind p.kind v = true) :
    encP p v = Spec.encKind p.kind v := by
  cases p <;> simp only [Prim.kind] at h <;> cases v <;>
    simp only [wtKind, decide_eq_true_eq, Bool.false_eq_true] at h <;>
    simp only [encP, Spec.encKind, Prim.kind]
  case i8.int i => rw [goUnsigned_eq 1 i h.1 h.2]
  case i16.int i => rw [goUnsigned_eq 2 i h.1 h.2]
  case i32.int i => rw [goUnsigned_eq 4 i h.1 h.2]
  case i64.int i => rw [goUnsigned_eq 8 i h.1 h.2]
  case compact.nat n => exact C11_encodeUint_canonical n (by rw [pow2_64, ← pow256_8]; exact h)
  case big.nat n => exact C11_encodeBigInt_canonical n h
  case bytes.bytes b =>
    rw [C11_encodeUint_canonical b.length (Nat.lt_of_lt_of_le h (by decide))]
  case str.bytes b =>
    rw [C11_encodeUint_canonical b.length (Nat.lt_of_lt_of_le h (by decide))]

/-- **Canonical encoding**: on every well-typed value of every type, the Go encoder produces
    exactly the canonical SCALE encoding. -/
theorem C11_encode_canonical (t : Ty) (v : Val) (h : wt t v = true) :
    marshal t v = encode Spec.codec t v :=
  encode_congr codec Spec.codec encP_canonical
    (fun n hn => C11_encodeUint_canonical n (by rw [← maxSeqLen_eq]; exact hn)) t v h

end Gossamer.C11
