/-
C02 — the in-memory trie behaves as an ordered byte-string map.

State relation: `Rep t es` — the model trie `t` (Go: `InMemoryTrie.root`) is canonical and its
entries are exactly the strictly sorted byte-keyed list `es` (the ordered map of the spec).
Each theorem is a refinement step `Rep t es → (observable of the Go model) = (observable of the
ordered map) ∧ Rep (new trie) (new map)`, for ALL tries, keys, values, prefixes and limits;
`C02_refines_partial` chains them over arbitrary op sequences of the harness language.

Full statements (no side condition):      `C02_put`, `C02_nextKey`, `C02_entries`.
Partial (the code violates the property; hypothesis = complement of the known-finding region,
each with a `_counterexample` inside the region):
  `C02_get_partial`, `C02_delete_partial`          — `empty-remaining-key`
  `C02_keysWithPrefix_partial`, `C02_clearPrefix_partial` — `prefix-zero-nibble`
  `C02_clearPrefixLimit_partial`                  — `prefix-zero-nibble`, `clrl-children-first`
-/
import Gossamer.Lib.TrieLimit
import Gossamer.Model.C02
set_option linter.unusedSectionVars false
set_option linter.unusedSimpArgs false
namespace Gossamer.C02
open Gossamer Gossamer.Trie

/-! ### single operations -/

/-- the empty trie represents the empty map -/
theorem C02_empty : Rep Trie.nil [] := Rep.empty

/-- Put = upsert of the ordered map (all tries, keys, values) -/
theorem C02_put {t : Trie} {es : Entries} (h : Rep t es) (k v : Bytes) :
    Rep (Trie.put t k v) (OMap.upsert k v es) := h.put k v

/-- FULL STATEMENT (false for the code): `Rep t es → Trie.get t k = OMap.get k es`.
    Proved outside the region of the `len(key) == 0` short cut. -/
theorem C02_get_partial {t : Trie} {es : Entries} (h : Rep t es) (k : Bytes)
    (hk : emptyKeyHit t (keyLEToNibbles k) = false) : Trie.get t k = OMap.get k es := by
  rw [keyLEToNibbles_eq] at hk; exact h.get k hk

/-- keys that are present are always outside that region: Get of a stored key is exact -/
theorem C02_get_present {t : Trie} {es : Entries} (h : Rep t es) (k v : Bytes)
    (hk : OMap.get k es = some v) : Trie.get t k = some v := by
  rw [h.get k (h.safe_of_present hk), hk]

/-- the trie of `put 00 09; put 000001 71` -/
def cexTrie : Trie := Trie.put (Trie.put Trie.nil [0x00] [0x09]) [0x00, 0x00, 0x01] [0x71]
def cexMap : Entries := OMap.upsert [0x00, 0x00, 0x01] [0x71] (OMap.upsert [0x00] [0x09] [])

theorem cex_rep : Rep cexTrie cexMap := (Rep.empty.put _ _).put _ _

/-- inside the region: `Get("")` returns the value of key `00` -/
theorem C02_get_counterexample :
    ∃ (t : Trie) (es : Entries) (k : Bytes), Rep t es ∧ Trie.get t k ≠ OMap.get k es :=
  ⟨cexTrie, cexMap, [], cex_rep, by decide⟩

/-- FULL STATEMENT (false for the code): `Rep t es → Rep (Trie.delete t k) (OMap.erase k es)`. -/
theorem C02_delete_partial {t : Trie} {es : Entries} (h : Rep t es) (k : Bytes)
    (hk : emptyKeyHit t (keyLEToNibbles k) = false) :
    Rep (Trie.delete t k) (OMap.erase k es) := by
  rw [keyLEToNibbles_eq] at hk; exact h.delete k hk

/-- deleting a stored key is always exact -/
theorem C02_delete_present {t : Trie} {es : Entries} (h : Rep t es) (k v : Bytes)
    (hk : OMap.get k es = some v) : Rep (Trie.delete t k) (OMap.erase k es) :=
  h.delete k (h.safe_of_present hk)

/-- inside the region: `Delete("")` on the trie holding only key `13` removes that key -/
theorem C02_delete_counterexample :
    ∃ (t : Trie) (es : Entries) (k : Bytes), Rep t es ∧
      ¬ Rep (Trie.delete t k) (OMap.erase k es) := by
  refine ⟨Trie.put Trie.nil [0x13] [0x04], OMap.upsert [0x13] [0x04] [], [], Rep.empty.put _ _, ?_⟩
  intro h
  have := h.entries
  revert this
  decide

/-- NextKey = the smallest strictly greater key (all tries, all keys) -/
theorem C02_nextKey {t : Trie} {es : Entries} (h : Rep t es) (k : Bytes) :
    Trie.nextKey t k = OMap.nextKey k es := h.nextKey k

/-- FULL STATEMENT (false for the code): `Rep t es → Trie.keysWithPrefix t p = OMap.keysWithPrefix p es`
    (same keys, ascending order). -/
theorem C02_keysWithPrefix_partial {t : Trie} {es : Entries} (h : Rep t es) (p : Bytes)
    (hp : trimRegion p es = false) : Trie.keysWithPrefix t p = OMap.keysWithPrefix p es :=
  h.keysWithPrefix p hp

/-- in particular for every prefix whose last byte has a non-zero low nibble -/
theorem C02_keysWithPrefix_nonzero {t : Trie} {es : Entries} (h : Rep t es) (p : Bytes)
    (hp : lowNibbleZero p = false) : Trie.keysWithPrefix t p = OMap.keysWithPrefix p es :=
  h.keysWithPrefix p (by simp [trimRegion, hp])

/-- inside the region: prefix `10` lists key `1f` -/
theorem C02_keysWithPrefix_counterexample :
    ∃ (t : Trie) (es : Entries) (p : Bytes), Rep t es ∧
      Trie.keysWithPrefix t p ≠ OMap.keysWithPrefix p es :=
  ⟨Trie.put Trie.nil [0x1f] [0x01], OMap.upsert [0x1f] [0x01] [], [0x10], Rep.empty.put _ _,
    by decide⟩

/-- FULL STATEMENT (false for the code): `Rep t es → Rep (Trie.clearPrefix t p) (OMap.clearPrefix p es)`. -/
theorem C02_clearPrefix_partial {t : Trie} {es : Entries} (h : Rep t es) (p : Bytes)
    (hp : trimRegion p es = false) : Rep (Trie.clearPrefix t p) (OMap.clearPrefix p es) :=
  h.clearPrefix p hp

/-- inside the region: clearing prefix `10` deletes key `1f` -/
theorem C02_clearPrefix_counterexample :
    ∃ (t : Trie) (es : Entries) (p : Bytes), Rep t es ∧
      ¬ Rep (Trie.clearPrefix t p) (OMap.clearPrefix p es) := by
  refine ⟨Trie.put Trie.nil [0x1f] [0x01], OMap.upsert [0x1f] [0x01] [], [0x10], Rep.empty.put _ _, ?_⟩
  intro h
  have := h.entries
  revert this
  decide

/-- FULL STATEMENT (false for the code): for every limit the new map, the number of removed keys
    and the all-deleted flag are those of `OMap.clearPrefixLimit` (the `n` smallest keys go). -/
theorem C02_clearPrefixLimit_partial {t : Trie} {es : Entries} (h : Rep t es) (p : Bytes) (n : Nat)
    (hp : trimRegion p es = false) (hnest : nestedRegion p es = false) :
    Rep (Trie.clearPrefixLimit t p n).1 (OMap.clearPrefixLimit p n es).1 ∧
    (Trie.clearPrefixLimit t p n).2 = (OMap.clearPrefixLimit p n es).2 :=
  h.clearPrefixLimit p n hp hnest

unseal Trie.dnlBranch in
/-- inside the region `clrl-children-first`: keys `11`, `1101`, prefix `11`, limit 1 removes `1101` -/
theorem C02_clearPrefixLimit_counterexample :
    ∃ (t : Trie) (es : Entries) (p : Bytes) (n : Nat), Rep t es ∧ trimRegion p es = false ∧
      ¬ Rep (Trie.clearPrefixLimit t p n).1 (OMap.clearPrefixLimit p n es).1 := by
  refine ⟨Trie.put (Trie.put Trie.nil [0x11] [0x01]) [0x11, 0x01] [0x02],
    OMap.upsert [0x11, 0x01] [0x02] (OMap.upsert [0x11] [0x01] []), [0x11], 1,
    (Rep.empty.put _ _).put _ _, by decide, ?_⟩
  intro h
  have := h.entries
  revert this
  decide

/-- `Entries()` lists exactly the map, every value as `Get` returns it -/
theorem C02_entries {t : Trie} {es : Entries} (h : Rep t es) :
    Trie.entries t = es.map (fun e => (e.1, some e.2)) := h.entries_eq

/-! ### op sequences of the harness language -/

/-- the op is outside of every known-finding region (this is `kfTag t es op = ""`) -/
def opSafe (t : Trie) (es : Entries) : Op → Bool
  | .get k => !emptyKeyHit t (keyLEToNibbles k)
  | .del k => !emptyKeyHit t (keyLEToNibbles k)
  | .keys p => !trimRegion p es
  | .clr p => !trimRegion p es
  | .clrl p _ => !trimRegion p es && !nestedRegion p es
  | _ => true

theorem opSafe_iff_no_tag (t : Trie) (es : Entries) (op : Op) :
    opSafe t es op = true ↔ kfTag t es op = "" := by
  cases op <;> simp [opSafe, kfTag] <;> (try split) <;> simp_all <;> (try split) <;> simp_all

/-- no op of the run lies in a known-finding region -/
def safeFrom (t : Trie) (es : Entries) : List Op → Bool
  | [] => true
  | op :: r => opSafe t es op && safeFrom (stepModel t op).1 (stepSpec es op).1 r

abbrev SafeFrom (t : Trie) (es : Entries) (ops : List Op) : Prop := safeFrom t es ops = true

theorem sortEntries_of_rep {t : Trie} {es : Entries} (h : Rep t es) :
    sortEntries (Trie.entries t) = es.map (fun e => (e.1, some e.2)) := by
  rw [h.entries_eq, sortEntries]
  apply List.mergeSort_of_pairwise
  rw [List.pairwise_map]
  have := (OMap.sorted_iff_pairwise es).mp h.sorted
  refine this.imp ?_
  intro a b hab
  simp [klt_asymm hab]

theorem modelEntries_eq {t : Trie} {es : Entries} (h : Rep t es) : modelEntries t = specEntries es := by
  rw [modelEntries, specEntries, sortEntries_of_rep h]

/-- one step: same observable, and the representation is kept -/
theorem step_refines {t : Trie} {es : Entries} (h : Rep t es) (op : Op)
    (hs : opSafe t es op = true) :
    (stepModel t op).2 = (stepSpec es op).2 ∧ Rep (stepModel t op).1 (stepSpec es op).1 := by
  cases op with
  | put k v =>
    have h' := h.put k v
    exact ⟨by simp [stepModel, stepSpec, modelEntries_eq h'], h'⟩
  | del k =>
    have h' := C02_delete_partial h k (by simpa [opSafe] using hs)
    exact ⟨by simp [stepModel, stepSpec, modelEntries_eq h'], h'⟩
  | clr p =>
    have h' := h.clearPrefix p (by simpa [opSafe] using hs)
    exact ⟨by simp [stepModel, stepSpec, modelEntries_eq h'], h'⟩
  | clrl p n =>
    simp only [opSafe, Bool.and_eq_true, Bool.not_eq_true'] at hs
    have h' := h.clearPrefixLimit p n hs.1 hs.2
    refine ⟨?_, h'.1⟩
    simp only [stepModel, stepSpec, modelEntries_eq h'.1]
    rw [h'.2]
  | get k =>
    have := C02_get_partial h k (by simpa [opSafe] using hs)
    exact ⟨by simp [stepModel, stepSpec, this], h⟩
  | next k => exact ⟨by simp [stepModel, stepSpec, h.nextKey k], h⟩
  | keys p =>
    have := h.keysWithPrefix p (by simpa [opSafe] using hs)
    exact ⟨by simp [stepModel, stepSpec, this], h⟩
  | entries => exact ⟨by simp [stepModel, stepSpec, modelEntries_eq h], h⟩
  | bad => exact ⟨rfl, h⟩

theorem refines_from {t : Trie} {es : Entries} (h : Rep t es) (ops : List Op)
    (hs : SafeFrom t es ops) : runModelFrom t ops = runSpecFrom es ops := by
  induction ops generalizing t es with
  | nil => rfl
  | cons op r ih =>
    simp only [SafeFrom, safeFrom, Bool.and_eq_true] at hs
    obtain ⟨h1, h2⟩ := hs
    obtain ⟨e1, e2⟩ := step_refines h op h1
    simp only [runModelFrom, runSpecFrom, e1]
    rw [ih e2 h2]

/-- FULL STATEMENT (false for the code): `∀ ops, runModel ops = runSpec ops`.
    Every sequence of put / delete / clear-prefix / clear-prefix-limit / get / next-key /
    keys-with-prefix / entries all of whose ops stay outside the three known-finding regions gives
    exactly the observables of the ordered map. -/
theorem C02_refines_partial (ops : List Op) (hs : SafeFrom Trie.nil [] ops) :
    runModel ops = runSpec ops := refines_from Rep.empty ops hs

unseal Trie.dnlBranch in
/-- the hypothesis is not vacuous: a run with every kind of op (prefix keys, a key that is a prefix
    of another key, a limited clear) is safe -/
example : SafeFrom Trie.nil []
    [.put [0x10] [1], .put [0x10, 0x01] [2], .put [] [3], .get [0x10], .next [0x10], .keys [0x11],
     .clrl [0x10, 0x01] 1, .del [0x10], .clr [0x11], .entries] := by decide

/-- final states of a run -/
def finalModel (ops : List Op) : Trie := ops.foldl (fun t op => (stepModel t op).1) Trie.nil
def finalSpec (ops : List Op) : Entries := ops.foldl (fun es op => (stepSpec es op).1) []

theorem final_rep_from (ops : List Op) : ∀ (t : Trie) (es : Entries), Rep t es → SafeFrom t es ops →
    Rep (ops.foldl (fun t op => (stepModel t op).1) t)
      (ops.foldl (fun es op => (stepSpec es op).1) es) := by
  induction ops with
  | nil => intro t es h _; exact h
  | cons op r ih =>
    intro t es h hs
    simp only [SafeFrom, safeFrom, Bool.and_eq_true] at hs
    exact ih _ _ (step_refines h op hs.1).2 hs.2

/-- outside the regions the final trie represents the final map -/
theorem C02_final_rep_partial (ops : List Op) (hs : SafeFrom Trie.nil [] ops) :
    Rep (finalModel ops) (finalSpec ops) := final_rep_from ops _ _ Rep.empty hs

/-- the full statement fails: after the run `put 13 04; del -` the trie is empty, the map is not -/
theorem C02_refines_counterexample : ∃ ops : List Op, ¬ Rep (finalModel ops) (finalSpec ops) := by
  refine ⟨[.put [0x13] [0x04], .del []], ?_⟩
  intro h
  have := h.entries
  revert this
  decide

end Gossamer.C02
