/-
C25 — BABE lottery arithmetic.  Theorems about `Gossamer.C25` (Model/C25.lean).

What is proved (for ALL inputs): the exact part of CalculateThreshold — for every float64 value
`p = num / 2^k ∈ [0,1]` the result is `min (2^128 - 1) ⌊2^128 · p⌋`, monotone in `p`, saturating
at `p = 1`; the guards (`C1 = 0`, `C2 = 0`, `C1 > C2`) and that no guard fires on `0 < C1 ≤ C2`
(float64 conversion of integers is monotone); the threshold comparison; the secondary author formula.

What is NOT a theorem: that the float64 `p` equals the real `1 - (1 - c)^(1/n)` — `math.Pow` is a
software routine outside any model; the driver checks it per case by rational enclosure
(`encloses`, absolute tolerance 2^-50) and monotonicity in `c` is sampled on adjacent pairs.
-/
import Gossamer.Model.C25
import Gossamer.Props.C13
namespace Gossamer.C25
open Gossamer.C13 (U128 C13_ofBig C13_ofBytesLE C13_compare)

/-! ### exact part -/

theorem maxU128_lt : maxU128 < 2 ^ 128 := by decide

theorem floor_le_one (num k : Nat) (h : num ≤ 2 ^ k) : 2 ^ 128 * num / 2 ^ k ≤ 2 ^ 128 := by
  have hpos : 0 < 2 ^ k := Nat.two_pow_pos _
  calc 2 ^ 128 * num / 2 ^ k ≤ 2 ^ 128 * 2 ^ k / 2 ^ k :=
        Nat.div_le_div_right (Nat.mul_le_mul_left _ h)
    _ = 2 ^ 128 := Nat.mul_div_cancel _ hpos

/-- `⌊2^128 · p⌋` really is the floor: `t ≤ 2^128·num/2^k < t + 1` -/
theorem C25_floor (num k : Nat) :
    (2 ^ 128 * num / 2 ^ k) * 2 ^ k ≤ 2 ^ 128 * num ∧
    2 ^ 128 * num < (2 ^ 128 * num / 2 ^ k + 1) * 2 ^ k := by
  have hpos : 0 < 2 ^ k := Nat.two_pow_pos _
  refine ⟨Nat.div_mul_le_self _ _, ?_⟩
  have := Nat.lt_mul_div_succ (2 ^ 128 * num) hpos
  rw [Nat.mul_comm (2 ^ k)] at this; exact this

/-- The exact part of CalculateThreshold: for every dyadic `p = num / 2^k ∈ [0, 1]` the result is
    `min (2^128 - 1) ⌊2^128 · p⌋` (never an error). -/
theorem C25_exact (num k : Nat) (h : num ≤ 2 ^ k) :
    ∃ t, thresholdOf num k = .ok t ∧ t.toNat = min (2 ^ 128 - 1) (2 ^ 128 * num / 2 ^ k) := by
  have hle := floor_le_one num k h
  unfold thresholdOf
  by_cases he : 2 ^ 128 * num / 2 ^ k = 2 ^ 128
  · refine ⟨C13.ofBig maxU128, by simp [he], ?_⟩
    rw [C13_ofBig _ maxU128_lt, he]; decide
  · have hlt : 2 ^ 128 * num / 2 ^ k < 2 ^ 128 := by omega
    refine ⟨C13.ofBig (2 ^ 128 * num / 2 ^ k), ?_, ?_⟩
    · simp only [he, if_false]
      rw [if_neg (by omega)]
    · rw [C13_ofBig _ hlt]; omega

/-- the value of the result, as a function (total on `[0,1]` by `C25_exact`) -/
def thrVal (num k : Nat) : Nat := min (2 ^ 128 - 1) (2 ^ 128 * num / 2 ^ k)

theorem div_le_div_of_cross (a b c d : Nat) (hb : 0 < b) (hd : 0 < d) (h : a * d ≤ c * b) :
    a / b ≤ c / d := by
  rw [Nat.le_div_iff_mul_le hd]
  apply Nat.le_of_mul_le_mul_right _ hb
  calc a / b * d * b = a / b * b * d := by rw [Nat.mul_assoc, Nat.mul_comm d b, ← Nat.mul_assoc]
    _ ≤ a * d := Nat.mul_le_mul_right _ (Nat.div_mul_le_self _ _)
    _ ≤ c * b := h

/-- monotone in `p`: `num₁/2^k₁ ≤ num₂/2^k₂` implies threshold₁ ≤ threshold₂ -/
theorem C25_monotone_in_p (n1 k1 n2 k2 : Nat) (hp : n1 * 2 ^ k2 ≤ n2 * 2 ^ k1) (h2 : n2 ≤ 2 ^ k2) :
    ∃ t1 t2, thresholdOf n1 k1 = .ok t1 ∧ thresholdOf n2 k2 = .ok t2 ∧ t1.toNat ≤ t2.toNat := by
  have hk1 : 0 < 2 ^ k1 := Nat.two_pow_pos _
  have hk2 : 0 < 2 ^ k2 := Nat.two_pow_pos _
  have h1 : n1 ≤ 2 ^ k1 := by
    apply Nat.le_of_mul_le_mul_right _ hk2
    calc n1 * 2 ^ k2 ≤ n2 * 2 ^ k1 := hp
      _ ≤ 2 ^ k2 * 2 ^ k1 := Nat.mul_le_mul_right _ h2
      _ = 2 ^ k1 * 2 ^ k2 := Nat.mul_comm _ _
  obtain ⟨t1, e1, v1⟩ := C25_exact n1 k1 h1
  obtain ⟨t2, e2, v2⟩ := C25_exact n2 k2 h2
  refine ⟨t1, t2, e1, e2, ?_⟩
  have : 2 ^ 128 * n1 / 2 ^ k1 ≤ 2 ^ 128 * n2 / 2 ^ k2 := by
    apply div_le_div_of_cross _ _ _ _ hk1 hk2
    rw [Nat.mul_assoc, Nat.mul_assoc]
    exact Nat.mul_le_mul_left _ hp
  rw [v1, v2]; omega

/-- `p = 1` gives the maximum -/
theorem C25_saturates (k : Nat) :
    ∃ t, thresholdOf (2 ^ k) k = .ok t ∧ t.toNat = 2 ^ 128 - 1 := by
  obtain ⟨t, e, v⟩ := C25_exact (2 ^ k) k (Nat.le_refl _)
  refine ⟨t, e, ?_⟩
  rw [v, Nat.mul_div_cancel _ (Nat.two_pow_pos _)]; omega

/-- only `p = 1` saturates: below it the threshold is the plain floor -/
theorem C25_below_one (num k : Nat) (h : num < 2 ^ k) :
    ∃ t, thresholdOf num k = .ok t ∧ t.toNat = 2 ^ 128 * num / 2 ^ k := by
  obtain ⟨t, e, v⟩ := C25_exact num k (Nat.le_of_lt h)
  refine ⟨t, e, ?_⟩
  have hpos : 0 < 2 ^ k := Nat.two_pow_pos _
  have : 2 ^ 128 * num / 2 ^ k < 2 ^ 128 := by
    rw [Nat.div_lt_iff_lt_mul hpos]
    exact Nat.mul_lt_mul_of_pos_left h (Nat.two_pow_pos _)
  rw [v]; omega

/-! ### float64 decoding -/

/-- the bit pattern of 1.0 decodes to 2^52 / 2^52 -/
theorem decode_one : decodeF64 0x3ff0000000000000 = some ⟨false, 2 ^ 52, 0, 52⟩ := by decide

/-- a non-negative, finite float64 in normal range below 2 is `(2^52 + f) / 2^(1075 - e)` -/
theorem decode_normal (bits : Nat) (hs : bits < 2 ^ 63) (he0 : bits / 2 ^ 52 % 2 ^ 11 ≠ 0)
    (he : bits / 2 ^ 52 % 2 ^ 11 ≤ 1075) :
    decodeF64 bits = some ⟨false, 2 ^ 52 + bits % 2 ^ 52, 0, 1075 - bits / 2 ^ 52 % 2 ^ 11⟩ := by
  have hneg : (bits / 2 ^ 63 % 2 == 1) = false := by
    have : bits / 2 ^ 63 = 0 := Nat.div_eq_of_lt hs
    simp [this]
  unfold decodeF64
  simp only [hneg]
  rw [if_neg (by omega), if_neg he0, if_pos he]

theorem thresholdOfBits_nonneg (bits m k : Nat) (h : decodeF64 bits = some ⟨false, m, 0, k⟩) :
    thresholdOfBits bits = thresholdOf m k := by
  unfold thresholdOfBits thresholdOfDy
  simp [h]

/-! ### the guards -/

theorem f64_small (x : Nat) (h : x < 2 ^ 53) : f64OfNat x = x := by
  unfold f64OfNat; simp [h]

/-- rounding `x` at a fixed shift -/
def roundAt (sh x : Nat) : Nat :=
  (if x % 2 ^ sh > 2 ^ (sh - 1) ∨ (x % 2 ^ sh = 2 ^ (sh - 1) ∧ x / 2 ^ sh % 2 = 1)
    then x / 2 ^ sh + 1 else x / 2 ^ sh) * 2 ^ sh

theorem f64_big (x : Nat) (h : ¬ x < 2 ^ 53) : f64OfNat x = roundAt (Nat.log2 x - 52) x := by
  unfold f64OfNat roundAt; simp [h]

theorem roundAt_mono (sh x y : Nat) (h : x ≤ y) : roundAt sh x ≤ roundAt sh y := by
  unfold roundAt
  apply Nat.mul_le_mul_right
  have hpos : 0 < 2 ^ sh := Nat.two_pow_pos _
  have hq : x / 2 ^ sh ≤ y / 2 ^ sh := Nat.div_le_div_right h
  by_cases hqe : x / 2 ^ sh = y / 2 ^ sh
  · have hr : x % 2 ^ sh ≤ y % 2 ^ sh := by
      have hx := Nat.div_add_mod x (2 ^ sh)
      have hy := Nat.div_add_mod y (2 ^ sh)
      rw [hqe] at hx
      omega
    rw [hqe]
    split <;> split <;> omega
  · have : x / 2 ^ sh + 1 ≤ y / 2 ^ sh := by omega
    split <;> split <;> omega

theorem roundAt_bounds (x : Nat) (h : 2 ^ 53 ≤ x) :
    2 ^ Nat.log2 x ≤ roundAt (Nat.log2 x - 52) x ∧ roundAt (Nat.log2 x - 52) x ≤ 2 ^ (Nat.log2 x + 1) := by
  have hx0 : x ≠ 0 := by
    have : 0 < 2 ^ 53 := by decide
    omega
  have hL : 53 ≤ Nat.log2 x := (Nat.le_log2 hx0).2 h
  have hlo : 2 ^ Nat.log2 x ≤ x := Nat.log2_self_le hx0
  have hhi : x < 2 ^ (Nat.log2 x + 1) := Nat.lt_log2_self
  generalize hLd : Nat.log2 x = L at *
  obtain ⟨sh, rfl⟩ : ∃ sh, L = sh + 52 := ⟨L - 52, by omega⟩
  have hsh : sh + 52 - 52 = sh := by omega
  rw [hsh]
  have hpos : 0 < 2 ^ sh := Nat.two_pow_pos _
  have e1 : 2 ^ (sh + 52) = 2 ^ 52 * 2 ^ sh := by rw [Nat.pow_add, Nat.mul_comm]
  have e2 : 2 ^ (sh + 52 + 1) = 2 ^ 53 * 2 ^ sh := by
    rw [show sh + 52 + 1 = sh + 53 by omega, Nat.pow_add, Nat.mul_comm]
  have hq1 : 2 ^ 52 ≤ x / 2 ^ sh := by
    rw [Nat.le_div_iff_mul_le hpos, ← e1]; exact hlo
  have hq2 : x / 2 ^ sh < 2 ^ 53 := by
    rw [Nat.div_lt_iff_lt_mul hpos, ← e2]; exact hhi
  unfold roundAt
  rw [e1, e2]
  constructor
  · apply Nat.mul_le_mul_right
    split <;> omega
  · apply Nat.mul_le_mul_right
    split <;> omega

/-- Go's `float64(uint64)` conversion is monotone -/
theorem f64OfNat_mono (x y : Nat) (h : x ≤ y) : f64OfNat x ≤ f64OfNat y := by
  by_cases hx : x < 2 ^ 53
  · by_cases hy : y < 2 ^ 53
    · rw [f64_small x hx, f64_small y hy]; exact h
    · rw [f64_small x hx, f64_big y hy]
      have hy' : 2 ^ 53 ≤ y := by omega
      have hy0 : y ≠ 0 := by
        have : 0 < 2 ^ 53 := by decide
        omega
      have hb := (roundAt_bounds y hy').1
      have hL : 2 ^ 53 ≤ 2 ^ Nat.log2 y :=
        Nat.pow_le_pow_right (by decide) ((Nat.le_log2 hy0).2 hy')
      omega
  · have hx' : 2 ^ 53 ≤ x := by omega
    have hy' : 2 ^ 53 ≤ y := by omega
    have hy : ¬ y < 2 ^ 53 := by omega
    have hx0 : x ≠ 0 := by
      have : 0 < 2 ^ 53 := by decide
      omega
    have hy0 : y ≠ 0 := by omega
    rw [f64_big x hx, f64_big y hy]
    have hLL : Nat.log2 x ≤ Nat.log2 y :=
      (Nat.le_log2 hy0).2 (Nat.le_trans (Nat.log2_self_le hx0) h)
    by_cases hLe : Nat.log2 x = Nat.log2 y
    · rw [hLe]; exact roundAt_mono _ _ _ h
    · have h1 := (roundAt_bounds x hx').2
      have h2 := (roundAt_bounds y hy').1
      have : 2 ^ (Nat.log2 x + 1) ≤ 2 ^ Nat.log2 y :=
        Nat.pow_le_pow_right (by decide) (by omega)
      omega

theorem thresholdOf_ne (num k : Nat) :
    thresholdOf num k ≠ .errZero ∧ thresholdOf num k ≠ .errGt1 := by
  unfold thresholdOf
  by_cases h1 : 2 ^ 128 * num / 2 ^ k = 2 ^ 128
  · simp [h1]
  · by_cases h2 : 2 ^ 128 * num / 2 ^ k ≥ 2 ^ 128
    · simp [h1, h2]
    · simp [h1, h2]

theorem thresholdOfBits_ne (b : Nat) :
    thresholdOfBits b ≠ .errZero ∧ thresholdOfBits b ≠ .errGt1 := by
  unfold thresholdOfBits
  cases decodeF64 b with
  | none => simp
  | some d =>
    simp only []
    unfold thresholdOfDy
    by_cases hn : d.neg ∧ d.m ≠ 0
    · rw [if_pos hn]
      by_cases h2 : (2 ^ 128 * d.m * 2 ^ d.up + 2 ^ d.down - 1) / 2 ^ d.down ≥ 2 ^ 128
      · simp [h2]
      · simp [h2]
    · rw [if_neg hn]; exact thresholdOf_ne _ _

/-- The guards of CalculateThreshold: the zero guard fires exactly on `C1 = 0 ∨ C2 = 0`;
    the ratio guard fires only when `C1 > C2`, and always when `C1 > C2` are below 2^53
    (where `float64` conversion is exact); on `0 < C1 ≤ C2` no guard fires. -/
theorem C25_errors (c1 c2 pb : Nat) :
    (calcThreshold c1 c2 pb = .errZero ↔ c1 = 0 ∨ c2 = 0) ∧
    (calcThreshold c1 c2 pb = .errGt1 → c1 ≠ 0 ∧ c2 ≠ 0 ∧ c1 > c2) ∧
    (c1 ≠ 0 → c2 ≠ 0 → c1 > c2 → c1 < 2 ^ 53 → calcThreshold c1 c2 pb = .errGt1) ∧
    (c1 ≠ 0 → c1 ≤ c2 → calcThreshold c1 c2 pb = thresholdOfBits pb) := by
  have hne := thresholdOfBits_ne
  refine ⟨?_, ?_, ?_, ?_⟩
  · unfold calcThreshold
    constructor
    · intro h
      by_cases hz : c1 = 0 ∨ c2 = 0
      · exact hz
      · rw [if_neg hz] at h
        split at h
        · cases h
        · exact absurd h (hne pb).1
    · intro hz; rw [if_pos hz]
  · unfold calcThreshold
    intro h
    by_cases hz : c1 = 0 ∨ c2 = 0
    · rw [if_pos hz] at h; cases h
    · rw [if_neg hz] at h
      by_cases hg : f64OfNat c1 > f64OfNat c2
      · refine ⟨by omega, by omega, ?_⟩
        apply Nat.lt_of_not_le
        intro hle
        have := f64OfNat_mono c1 c2 hle
        omega
      · rw [if_neg hg] at h
        exact absurd h (hne pb).2
  · intro h1 h2 hgt hb
    unfold calcThreshold
    rw [if_neg (by omega), f64_small c1 hb, f64_small c2 (by omega), if_pos hgt]
  · intro h1 hle
    unfold calcThreshold
    have h2 : c2 ≠ 0 := by omega
    rw [if_neg (by omega), if_neg (by have := f64OfNat_mono c1 c2 hle; omega)]

/-- above 2^53 the ratio guard is blind to `C1 > C2` when both round to the same double:
    `C1 = 2^53 + 1 > C2 = 2^53` is not rejected (it is treated as c = 1) -/
theorem C25_errors_rounding_counterexample :
    f64OfNat (2 ^ 53 + 1) = f64OfNat (2 ^ 53) ∧
    calcThreshold (2 ^ 53 + 1) (2 ^ 53) 0x3ff0000000000000 ≠ .errGt1 := by
  have h1 : f64OfNat (2 ^ 53 + 1) = 2 ^ 53 := by decide
  have h2 : f64OfNat (2 ^ 53) = 2 ^ 53 := by decide
  refine ⟨by rw [h1, h2], ?_⟩
  intro h
  have := (C25_errors (2 ^ 53 + 1) (2 ^ 53) 0x3ff0000000000000).2.1 h
  unfold calcThreshold at h
  rw [if_neg (by decide), h1, h2, if_neg (by omega)] at h
  rw [thresholdOfBits_nonneg _ _ _ decode_one] at h
  obtain ⟨t, e, _⟩ := C25_saturates 52
  rw [e] at h; cases h

/-- CalculateThreshold on the property's domain: `0 < C1 ≤ C2` and the float kernel produced a value
    `p = m / 2^k ∈ [0,1]`: the result is `min (2^128 - 1) ⌊2^128 · p⌋`. -/
theorem C25_calc (c1 c2 pb m k : Nat) (h1 : c1 ≠ 0) (hle : c1 ≤ c2)
    (hd : decodeF64 pb = some ⟨false, m, 0, k⟩) (hm : m ≤ 2 ^ k) :
    ∃ t, calcThreshold c1 c2 pb = .ok t ∧ t.toNat = min (2 ^ 128 - 1) (2 ^ 128 * m / 2 ^ k) := by
  rw [(C25_errors c1 c2 pb).2.2.2 h1 hle, thresholdOfBits_nonneg _ _ _ hd]
  exact C25_exact m k hm

example : ∃ t, calcThreshold 1 1 0x3ff0000000000000 = .ok t ∧ t.toNat = 2 ^ 128 - 1 := by
  obtain ⟨t, e, v⟩ := C25_calc 1 1 0x3ff0000000000000 (2 ^ 52) 52 (by decide) (by decide) decode_one
    (Nat.le_refl _)
  exact ⟨t, e, by rw [v]; decide⟩

/-! ### threshold comparison -/

/-- checkPrimaryThreshold accepts exactly when the 16 VRF bytes, read little-endian, are
    numerically below the threshold -/
theorem C25_compare (res : Bytes) (thr : U128) (h : res.length ≤ 16) :
    checkPrimary res thr = decide (natOfLE res < thr.toNat) := by
  unfold checkPrimary
  rw [C13_compare, C13_ofBytesLE res h]
  by_cases h1 : natOfLE res > thr.toNat
  · simp only [h1, if_true]
    have : ¬ natOfLE res < thr.toNat := by omega
    simp [this]
  · simp only [h1, if_false]
    by_cases h2 : natOfLE res < thr.toNat
    · simp [h2]
    · simp [h2]

/-! ### secondary slot author -/

/-- For every hash function `H`, randomness, slot and authority count `1 ≤ n ≤ 2^32`:
    the author index is `natOfBE (H (randomness ++ le64 slot)) mod n`, and it is a valid index. -/
theorem C25_secondary_author (H : Bytes → Bytes) (r : Bytes) (slot n : Nat)
    (h1 : 1 ≤ n) (h32 : n ≤ 2 ^ 32) :
    ∃ i, secondaryAuthor H r slot n = .idx i ∧ i < n ∧
      i = natOfBE (H (r ++ leBytes 8 slot)) % n := by
  unfold secondaryAuthor
  have hlt : natOfBE (H (r ++ leBytes 8 slot)) % n < n := Nat.mod_lt _ (by omega)
  refine ⟨_, by rw [if_neg (by omega)], ?_, ?_⟩
  · have : natOfBE (H (r ++ leBytes 8 slot)) % n % 2 ^ 64 % 2 ^ 32
        = natOfBE (H (r ++ leBytes 8 slot)) % n := by
      rw [Nat.mod_eq_of_lt (a := _ % n) (by omega), Nat.mod_eq_of_lt (by omega)]
    rw [this]; exact hlt
  · rw [Nat.mod_eq_of_lt (a := _ % n) (by omega), Nat.mod_eq_of_lt (by omega)]

/-- the 8 bytes appended to the randomness are the slot number, little endian -/
theorem C25_slot_bytes (slot : Nat) (h : slot < 2 ^ 64) :
    (leBytes 8 slot).length = 8 ∧ natOfLE (leBytes 8 slot) = slot := by
  refine ⟨length_leBytes 8 slot, ?_⟩
  rw [natOfLE_leBytes, show (256 : Nat) ^ 8 = 2 ^ 64 by decide, Nat.mod_eq_of_lt h]

/-- beyond 2^32 authorities the `uint32` conversion truncates the index (not reachable: an
    authority index is a `uint32` in every pre-digest) -/
theorem C25_secondary_author_counterexample :
    ∃ H : Bytes → Bytes, secondaryAuthor H [] 0 (2 ^ 32 + 1) = .idx 0 ∧
      natOfBE (H ([] ++ leBytes 8 0)) % (2 ^ 32 + 1) = 2 ^ 32 :=
  ⟨fun _ => [1, 0, 0, 0, 0], by decide, by decide⟩

end Gossamer.C25
