/-
C33  Network message decoders withstand arbitrary peer input.

Model: `Gossamer.C33.decode : Kind → Bytes → Out Msg` (Model/C33.lean), every decoder a peer's bytes
reach, over the SCALE model of C11/C12 and the protobuf-go wire model of Lib/C33Wire.lean.

  C33_no_panic                 no input drives any decoder into a partial operation of its glue
                               (nil dereference of the starting block, Uint32 of a short slice, …)
  C33_reencode                 decode k bs = ok m → decode k (encode k m) = ok m, for all k, bs
                               (`encode` = the Go `Encode()`/`ToConsensusMessage()`); the hypothesis
                               "the re-encoding is shorter than 2^64 bytes" is needed for block
                               responses only:
  C33_reencode_small           … every other decoder, no hypothesis
  C33_stream_no_panic / C33_stream_frame / C33_stream_buffer   (Lib/C33Stream.lean) the LEB128 length
                               prefix of `readStream`: no panic, exact framing under any chunking of
                               `Read`, pooled buffer ≤ max(len, maxSize); C33_stream_old_* = the three
                               repaired defects
  C33_steps_linear             unmarshal calls + glue iterations ≤ stepsA k * |bs| + stepsB k
  C33_steps_constants          the constants, e.g. (10,119) block announce, (139,324) GRANDPA message
  C33_steps_block              block response: SCALE work per block linear in the field sizes protobuf
                               hands over
  C33_steps_linear_bresp       … and all blocks together ≤ 125 * |bs| + 1 (the parsed fields fit into
                               the input: `goParse_size`); the protobuf library's own work is trusted
  C33_alloc_linear_partial     read-buffer bytes ≤ 67 * steps for the decoders without Go []byte/string
  C33_alloc_linear_counterexample   (known finding bytes-alloc) 107 bytes of block announcement
                               allocate 2^30 bytes
Supporting: `steps_ok` (Lib/C33Cost.lean: steps ≤ sA t * consumed + sB t for every type whose
sequence elements take ≥ 1 byte), `unmarshal_reencode` (Lib/C33Scale.lean: whatever scale.Unmarshal
returns survives Marshal/Unmarshal), `goParse_encFields` (Lib/C33WireLemmas.lean).
-/
import Gossamer.Model.C33
import Gossamer.Lib.C33Reencode
import Gossamer.Lib.C33Cost
import Gossamer.Lib.C33WireSize
import Gossamer.Lib.C33Stream
namespace Gossamer.C33
open Gossamer Gossamer.Scale Gossamer.Proto

/-! ## no panic -/

theorem unmarshalTop_ne_panic (t : Ty) (bs : Bytes) : unmarshalTop t bs ≠ .panic := by
  unfold unmarshalTop; split <;> simp

theorem scaleMsg_ne_panic (o : Out Val) (h : o ≠ .panic) : scaleMsg o ≠ .panic := by
  cases o <;> simp_all [scaleMsg]

theorem grandpaGlue_ne_panic (v : Val) : grandpaGlue v ≠ .panic := by
  unfold grandpaGlue; split <;> (try split) <;> simp

theorem le32_some (b : Bytes) (h : b.length = 4) : ∃ n, le32? b = some n := by
  unfold le32?; simp [h]

theorem blockRequestGlue_ne_panic (msg : Proto.BlockRequest) : blockRequestGlue msg ≠ .panic := by
  unfold blockRequestGlue
  cases hfb : msg.fromBlock with
  | unset => simp
  | hash b => simp
  | number b =>
    by_cases hl : b.length = 4
    · obtain ⟨n, hn⟩ := le32_some b hl
      simp [hl, hn]
    · simp [hl]

theorem decodeBlockRequest_ne_panic (bs : Bytes) : decodeBlockRequest bs ≠ .panic := by
  unfold decodeBlockRequest
  cases goParse bs with
  | none => simp
  | some fs => exact blockRequestGlue_ne_panic _

theorem headerOf_ne_panic (b : Bytes) : headerOf b ≠ .panic := by
  unfold headerOf; split
  · simp
  · split <;> simp

theorem bodyOf_ne_panic (e : List Bytes) : bodyOf e ≠ .panic := by
  unfold bodyOf; split
  · simp
  · split <;> simp

theorem protobufToBlockData_ne_panic (d : Proto.BlockData) : protobufToBlockData d ≠ .panic := by
  unfold protobufToBlockData
  have h1 := headerOf_ne_panic d.header
  have h2 := bodyOf_ne_panic d.body
  cases hh : headerOf d.header with
  | panic => exact absurd hh h1
  | err => simp
  | ok h =>
    cases hb : bodyOf d.body with
    | panic => exact absurd hb h2
    | err => simp
    | ok b => simp

theorem blockDatas_ne_panic (ds : List Proto.BlockData) : blockDatas ds ≠ .panic := by
  induction ds with
  | nil => simp [blockDatas]
  | cons d ds ih =>
    simp only [blockDatas]
    have := protobufToBlockData_ne_panic d
    cases h : protobufToBlockData d with
    | panic => exact absurd h this
    | err => simp
    | ok m =>
      cases h2 : blockDatas ds with
      | panic => exact absurd h2 ih
      | err => simp
      | ok ms => simp

theorem decodeBlockResponse_ne_panic (bs : Bytes) : decodeBlockResponse bs ≠ .panic := by
  unfold decodeBlockResponse
  cases hp : goParse bs with
  | none => simp
  | some fs =>
    simp only
    cases hb : blocksOf fs with
    | none => simp
    | some ds =>
      simp only
      have := blockDatas_ne_panic ds
      cases h : blockDatas ds with
      | panic => exact absurd h this
      | err => simp
      | ok ms => simp

/-- **C33 (no panic)**: no decoder reaches a partial operation of its glue on any input -/
theorem C33_no_panic (k : Kind) (bs : Bytes) : decode k bs ≠ .panic := by
  cases k <;> simp only [decode]
  case txh => simp
  case cons => simp
  case breq => exact decodeBlockRequest_ne_panic bs
  case bresp => exact decodeBlockResponse_ne_panic bs
  case body => cases newBodyFromBytes bs <;> simp
  case gmsg =>
    have := unmarshalTop_ne_panic grandpaMessageTy bs
    cases h : unmarshalTop grandpaMessageTy bs with
    | panic => exact absurd h this
    | err => simp
    | ok v => exact grandpaGlue_ne_panic v
  case sreq => unfold decodeStateRequest; cases goParse bs <;> simp
  case sresp =>
    unfold decodeStateResponse
    cases goParse bs with
    | none => simp
    | some fs => simp only; cases kvEntriesOf fs <;> simp
  all_goals exact scaleMsg_ne_panic _ (unmarshalTop_ne_panic _ bs)

/-! ## re-encoding -/

theorem fieldOk_of_size (fs : List WField) (hsz : (encFields fs).length < 18446744073709551616)
    (hnum : ∀ f ∈ fs, 1 ≤ f.num ∧ f.num ≤ 7)
    (hvar : ∀ f ∈ fs, ∀ n, f.val = .varint n → n < 18446744073709551616) :
    ∀ f ∈ fs, FieldOk f := by
  intro f hf
  have hlen := length_encFields_mem fs f hf
  obtain ⟨num, val⟩ := f
  have hn := hnum _ hf
  refine ⟨hn.1, by simp only [maxValidNumber]; exact Nat.le_trans hn.2 (by decide), ?_⟩
  cases val with
  | varint n => exact hvar _ hf n rfl
  | len b =>
    have := length_encField_len num b
    show b.length < 18446744073709551616
    omega

theorem toFields_shape (d : Proto.BlockData) :
    ∀ f ∈ d.toFields, (1 ≤ f.num ∧ f.num ≤ 7) ∧ ∀ n, f.val = .varint n → n < 18446744073709551616 := by
  intro f hf
  have ob : ∀ k b, 1 ≤ k → k ≤ 7 → f ∈ optBytes k b →
      (1 ≤ f.num ∧ f.num ≤ 7) ∧ ∀ n, f.val = .varint n → n < 18446744073709551616 := by
    intro k b h1 h2 h
    unfold optBytes at h
    split at h
    · simp at h
    · simp only [List.mem_singleton] at h; subst h
      exact ⟨⟨h1, h2⟩, by intro n hn; cases hn⟩
  simp only [BlockData.toFields, List.mem_append] at hf
  rcases hf with h | h | h | h | h | h | h
  · exact ob 1 _ (by decide) (by decide) h
  · exact ob 2 _ (by decide) (by decide) h
  · simp only [bodyFields, List.mem_map] at h
    obtain ⟨b, _, rfl⟩ := h
    exact ⟨⟨by simp, by simp⟩, by intro n hn; cases hn⟩
  · exact ob 4 _ (by decide) (by decide) h
  · exact ob 5 _ (by decide) (by decide) h
  · exact ob 6 _ (by decide) (by decide) h
  · cases hb : d.isEmptyJustification <;> simp [flag, hb] at h
    subst h
    exact ⟨⟨by simp, by simp⟩, by intro n hn; injection hn with hn; omega⟩

theorem goParse_blockData (d : Proto.BlockData) (hsz : d.encode.length < 18446744073709551616) :
    goParse d.encode = some d.toFields :=
  goParse_encFields _ (fieldOk_of_size _ hsz (fun f hf => (toFields_shape d f hf).1)
    (fun f hf => (toFields_shape d f hf).2))

theorem blocksOf_encoded (ps : List Proto.BlockData)
    (h : ∀ d ∈ ps, d.encode.length < 18446744073709551616) :
    blocksOf (ps.map (fun d => (⟨1, .len d.encode⟩ : WField))) = some ps := by
  induction ps with
  | nil => rfl
  | cons d ds ih =>
    simp only [List.map_cons, blocksOf, goParse_blockData d (h d (by simp)),
      BlockData.ofFields_toFields, ih (fun e he => h e (by simp [he])), Option.map_some]

theorem blockResponse_reencode (bs : Bytes) (ms : List BlockDataMsg)
    (hsz : (encode .bresp (.blockResp ms)).length < 18446744073709551616)
    (h : decodeBlockResponse bs = .ok (.blockResp ms)) :
    decodeBlockResponse (encode .bresp (.blockResp ms)) = .ok (.blockResp ms) := by
  unfold decodeBlockResponse at h
  cases hp : goParse bs with
  | none => simp [hp] at h
  | some fs =>
    simp only [hp] at h
    cases hb : blocksOf fs with
    | none => simp [hb] at h
    | some ds =>
      simp only [hb] at h
      cases hd : blockDatas ds with
      | err => simp [hd] at h
      | panic => simp [hd] at h
      | ok ms' =>
        simp only [hd, Out.ok.injEq, Msg.blockResp.injEq] at h
        subst h
        have hre := blockDatas_reencode ds ms' hd
        -- sizes of the parts
        simp only [encode, BlockResponse.encode, BlockResponse.toFields] at hsz ⊢
        have hparts : ∀ d ∈ ms'.map blockDataToProto, d.encode.length < 18446744073709551616 := by
          intro d hdm
          have hmem : (⟨1, .len d.encode⟩ : WField) ∈ (ms'.map blockDataToProto).map (fun d => (⟨1, .len d.encode⟩ : WField)) :=
            List.mem_map.mpr ⟨d, hdm, rfl⟩
          have h1 := length_encFields_mem _ _ hmem
          have h2 := length_encField_len 1 d.encode
          omega
        have houter : ∀ f ∈ (ms'.map blockDataToProto).map (fun d => (⟨1, .len d.encode⟩ : WField)), FieldOk f := by
          apply fieldOk_of_size _ hsz
          · intro f hf
            obtain ⟨d, _, rfl⟩ := List.mem_map.mp hf
            exact ⟨by simp, by simp⟩
          · intro f hf n hn
            obtain ⟨d, _, rfl⟩ := List.mem_map.mp hf
            cases hn
        unfold decodeBlockResponse
        rw [goParse_encFields _ houter]
        simp only [blocksOf_encoded _ hparts, hre]

/-- re-encoding of the kinds that are `scaleMsg (unmarshalTop t ·)` -/
theorem plain_reencode (t : Ty) (hwf : t.wf = true) (bs : Bytes) (m : Msg)
    (h : scaleMsg (unmarshalTop t bs) = .ok m) :
    ∃ v, m = .scale v ∧ scaleMsg (unmarshalTop t (C11.marshal t v)) = .ok (.scale v) := by
  obtain ⟨v, hv, hm⟩ := scaleMsg_ok h
  exact ⟨v, hm, by rw [scale_reencode t hwf bs v hv]; rfl⟩

theorem stateRequest_reencode (bs : Bytes) (m : Msg)
    (hsz : (encode .sreq m).length < 18446744073709551616)
    (h : decodeStateRequest bs = .ok m) : decodeStateRequest (encode .sreq m) = .ok m := by
  unfold decodeStateRequest at h
  cases hp : goParse bs with
  | none => simp [hp] at h
  | some fs =>
    simp only [hp, Out.ok.injEq] at h
    subst h
    simp only [encode] at hsz ⊢
    have hok := fieldOk_of_size _ hsz (fun f hf => (stateReq_shape _ f hf).1)
      (fun f hf => (stateReq_shape _ f hf).2)
    unfold decodeStateRequest
    rw [goParse_encFields _ hok]
    simp only [StateReqP.ofFields_toFields, bytesToHash_of_32 _ (length_bytesToHash _)]

theorem reencode_core (k : Kind) (bs : Bytes) (m : Msg) (hk : k ≠ .sresp)
    (hsz : k = .bresp ∨ k = .sreq → (encode k m).length < 18446744073709551616)
    (h : decode k bs = .ok m) : decode k (encode k m) = .ok m := by
  cases k <;> simp only [decode] at h ⊢
  case txh => simp only [Out.ok.injEq] at h; subst h; rfl
  case cons => simp only [Out.ok.injEq] at h; subst h; rfl
  case breq =>
    unfold decodeBlockRequest at h
    cases hp : goParse bs with
    | none => simp [hp] at h
    | some fs =>
      simp only [hp] at h
      have hb := ofFields_bounds fs
      obtain ⟨r, hm, hre⟩ := blockRequest_reencode _ m hb.1 hb.2 h
      subst hm
      exact hre
  case bresp =>
    have hm : ∃ ms, m = .blockResp ms := by
      unfold decodeBlockResponse at h
      cases hp : goParse bs with
      | none => simp [hp] at h
      | some fs =>
        simp only [hp] at h
        cases hb : blocksOf fs with
        | none => simp [hb] at h
        | some ds =>
          simp only [hb] at h
          cases hd : blockDatas ds with
          | err => simp [hd] at h
          | panic => simp [hd] at h
          | ok ms' => simp only [hd, Out.ok.injEq] at h; exact ⟨ms', h.symm⟩
    obtain ⟨ms, rfl⟩ := hm
    exact blockResponse_reencode bs ms (hsz (Or.inl rfl)) h
  case body =>
    cases hn : newBodyFromBytes bs with
    | none => simp [hn] at h
    | some v =>
      simp only [hn, Out.ok.injEq] at h
      subst h
      show (match newBodyFromBytes (C11.marshal bodyTy v) with | some v => Out.ok (Msg.scale v) | none => Out.err) = _
      rw [newBodyFromBytes_reencode bs v hn]
  case gmsg =>
    cases hu : unmarshalTop grandpaMessageTy bs with
    | err => simp [hu] at h
    | panic => simp [hu] at h
    | ok v =>
      simp only [hu] at h
      have hm := grandpaGlue_ok h
      subst hm
      show (match unmarshalTop grandpaMessageTy (C11.marshal grandpaMessageTy v) with
        | .ok v => grandpaGlue v | .err => Out.err | .panic => Out.panic) = _
      rw [scale_reencode grandpaMessageTy wf_grandpaMessage bs v hu]
      exact h
  case ba => obtain ⟨v, rfl, hre⟩ := plain_reencode _ wf_blockAnnounce bs m h; exact hre
  case bah => obtain ⟨v, rfl, hre⟩ := plain_reencode _ wf_baHandshake bs m h; exact hre
  case tx => obtain ⟨v, rfl, hre⟩ := plain_reencode _ wf_transactions bs m h; exact hre
  case lreq => obtain ⟨v, rfl, hre⟩ := plain_reencode _ wf_lightRequest bs m h; exact hre
  case lresp => obtain ⟨v, rfl, hre⟩ := plain_reencode _ wf_lightResponse bs m h; exact hre
  case warp => obtain ⟨v, rfl, hre⟩ := plain_reencode _ wf_warp bs m h; exact hre
  case ghs => obtain ⟨v, rfl, hre⟩ := plain_reencode _ wf_grandpaHandshake bs m h; exact hre
  case sreq => exact stateRequest_reencode bs m (hsz (Or.inr rfl)) h
  case sresp => exact absurd rfl hk
  case wproof => obtain ⟨v, rfl, hre⟩ := plain_reencode _ (by decide) bs m h; exact hre

/-- **C33 (re-encoding)**: a message any decoder returned, encoded by the Go `Encode`, decodes to
    an equal message (`StateResponse` has no `Encode` in the Go code and is excluded).  The size
    hypothesis says that the re-encoded message is a real byte slice (protobuf length prefixes are
    64-bit); it is used for block responses and state requests only, see `C33_reencode_small`. -/
theorem C33_reencode (k : Kind) (hk : k ≠ .sresp) (bs : Bytes) (m : Msg)
    (hsz : (encode k m).length < 18446744073709551616)
    (h : decode k bs = .ok m) : decode k (encode k m) = .ok m :=
  reencode_core k bs m hk (fun _ => hsz) h

/-- every other decoder: no size hypothesis at all -/
theorem C33_reencode_small (k : Kind) (hk : k ≠ .bresp) (hk2 : k ≠ .sreq) (hk3 : k ≠ .sresp)
    (bs : Bytes) (m : Msg) (h : decode k bs = .ok m) : decode k (encode k m) = .ok m :=
  reencode_core k bs m hk3 (fun e => by rcases e with e | e <;> contradiction) h

/-- non-vacuity: a block announcement with one digest item, and a block response with a body of
    two extrinsics, decode -/
example : (decode .ba ([1] ++ List.replicate 31 0 ++ [20] ++ List.replicate 64 0 ++
    [4, 6, 0x42, 0x41, 0x42, 0x45, 8, 1, 2, 1])).isOk = true := by decide
example : (decode .bresp [0x0a, 0x0a, 0x0a, 0x01, 0xaa, 0x1a, 0x02, 0x04, 0x07, 0x1a, 0x01, 0x00]).isOk = true := by
  decide

/-! ## time and memory on the model's counters -/

/-- slope and offset of the step bound of a decoder -/
def stepsA (k : Kind) : Nat := match k.ty with | some t => sA t | none => 0
def stepsB (k : Kind) : Nat := match k.ty with | some t => sB t | none => 1

theorem seqOk_kinds (k : Kind) (t : Ty) (hk : k.ty = some t) : t.wf = true ∧ seqOk t = true := by
  cases k <;> simp only [Kind.ty, Option.some.injEq] at hk <;> first
    | (subst hk; exact ⟨by decide, by decide⟩)
    | cases hk

/-- **C33 (time)**: the number of `unmarshal` calls and glue-loop iterations of every decoder
    except the block response is at most `stepsA k * |input| + stepsB k`; the constants are those
    of the message type (`C33_steps_constants`).  The block response is `C33_steps_linear_bresp`. -/
theorem C33_steps_linear (k : Kind) (hk : k ≠ .bresp) (hk2 : k ≠ .sresp) (bs : Bytes) :
    (msgCost k bs).steps ≤ stepsA k * bs.length + stepsB k := by
  cases k <;> simp only [msgCost, stepsA, stepsB, Kind.ty]
  case bresp => exact absurd rfl hk
  case sresp => exact absurd rfl hk2
  case sreq => omega
  case txh => omega
  case cons => omega
  case breq => omega
  case body =>
    split
    · have := sB_pos bodyTy; simp only; omega
    · exact steps_le_input bodyTy (by decide) (by decide) bs
  all_goals exact steps_le_input _ (by decide) (by decide) bs

/-- the concrete constants -/
theorem C33_steps_constants :
    (stepsA .ba, stepsB .ba) = (10, 119) ∧ (stepsA .bah, stepsB .bah) = (0, 73) ∧
    (stepsA .tx, stepsB .tx) = (3, 3) ∧ (stepsA .lreq, stepsB .lreq) = (1, 108) ∧
    (stepsA .lresp, stepsB .lresp) = (128, 148) ∧ (stepsA .warp, stepsB .warp) = (0, 35) ∧
    (stepsA .body, stepsB .body) = (1, 2) ∧ (stepsA .gmsg, stepsB .gmsg) = (139, 324) ∧
    (stepsA .ghs, stepsB .ghs) = (0, 3) ∧ (stepsA .wproof, stepsB .wproof) = (sA warpProofTy, sB warpProofTy) := by
  decide

/-- the byte stream `NewBodyFromEncodedBytes` hands to `scale.Unmarshal` -/
def bodyStream (d : Proto.BlockData) : Bytes := C11.encodeBigInt d.body.length ++ d.body.flatten

/-- **C33 (time, block response)**: the SCALE work of one `protobufToBlockData` is linear in the
    sizes of the header field and of the body entries protobuf handed over (the protobuf library
    itself is trusted to be linear) -/
theorem C33_steps_block (d : Proto.BlockData) :
    (blockCost d).steps ≤ sA headerTy * d.header.length + sA bodyTy * (bodyStream d).length
      + (sB headerTy + sB bodyTy + 1) := by
  unfold blockCost bodyStream
  have h1 := steps_le_input headerTy (by decide) (by decide) d.header
  have h2 := steps_le_input bodyTy (by decide) (by decide) (C11.encodeBigInt d.body.length ++ d.body.flatten)
  simp only [Cost.add]
  split <;> split <;> (try simp only) <;> omega

theorem blocksCost_steps (ds : List Proto.BlockData) :
    (blocksCost ds).steps = (ds.map (fun d => (blockCost d).steps)).sum := by
  induction ds with
  | nil => rfl
  | cons d ds ih => simp [blocksCost, Cost.add, ih]

theorem blockCost_le (d : Proto.BlockData) : (blockCost d).steps ≤ 10 * bdSize d + 125 := by
  have h := C33_steps_block d
  have a1 : sA headerTy = 10 := by decide
  have a2 : sA bodyTy = 1 := by decide
  have b1 : sB headerTy = 117 := by decide
  have b2 : sB bodyTy = 2 := by decide
  rw [a1, a2, b1, b2] at h
  have hs : (bodyStream d).length ≤ d.body.length + 5 + sumLen d.body := by
    unfold bodyStream
    rw [List.length_append, length_flatten]
    have := length_encodeBigInt_le d.body.length
    omega
  unfold bdSize
  omega

theorem blocksCost_le (ds : List Proto.BlockData) : (blocksCost ds).steps ≤ 125 * blocksSize ds := by
  induction ds with
  | nil => simp [blocksCost, blocksSize]
  | cons d ds ih =>
    have := blockCost_le d
    simp only [blocksCost, blocksSize, Cost.add]
    omega

/-- **C33 (time, block response, whole message)**: header and body decoding of ALL blocks of a
    response together take at most `125 * |input| + 1` steps: the fields protobuf-go's parser hands
    over fit into the input (`goParse_size`), nested block by block -/
theorem C33_steps_linear_bresp (bs : Bytes) : (msgCost .bresp bs).steps ≤ 125 * bs.length + 1 := by
  simp only [msgCost]
  cases hp : goParse bs with
  | none => simp only; omega
  | some fs =>
    simp only
    cases hb : blocksOf fs with
    | none => simp only; omega
    | some ds =>
      have h1 := blocksCost_le ds
      have h2 := blocksOf_size fs ds hb
      have h3 := goParse_size bs fs hp
      simp only [Cost.add]
      omega

/-- **C33 (time, state response)**: the copy loops of `StateResponse.Decode` run at most once per
    input byte -/
theorem C33_steps_linear_sresp (bs : Bytes) : (msgCost .sresp bs).steps ≤ bs.length + 1 := by
  simp only [msgCost]
  cases hp : goParse bs with
  | none => simp only; omega
  | some fs =>
    simp only
    cases hk : kvEntriesOf fs with
    | none => simp only; omega
    | some es =>
      have h1 := kvEntriesOf_size fs es hk
      have h2 := goParse_size bs fs hp
      simp only
      omega

/-- the decoders whose messages contain no Go `[]byte` / `string` -/
def bytesFree (k : Kind) : Bool :=
  match k.ty with
  | some t => C12.noBytes t
  | none => k != .bresp

/-- **C33 (memory)** (partial: known finding bytes-alloc).  Full statement wanted:
    `(msgCost k bs).alloc ≤ a * |bs| + b` for every decoder.  It holds for the decoders without
    byte strings: block-announce handshake, transactions, warp request, GRANDPA messages and
    handshake, consensus, block request.  -/
theorem C33_alloc_linear_partial (k : Kind) (hk : bytesFree k = true) (bs : Bytes) :
    (msgCost k bs).alloc ≤ 67 * (stepsA k * bs.length + stepsB k) := by
  cases k <;> simp only [bytesFree, Kind.ty] at hk <;> simp only [msgCost, stepsA, stepsB, Kind.ty]
  case txh => omega
  case cons => omega
  case breq => omega
  case bresp => simp at hk
  case ba => exact absurd hk (by decide)
  case lreq => exact absurd hk (by decide)
  case lresp => exact absurd hk (by decide)
  case body => exact absurd hk (by decide)
  case wproof => exact absurd hk (by decide)
  case sreq => omega
  case sresp =>
    split
    · simp only; omega
    · split <;> simp only <;> omega
  case bah =>
    have h1 := alloc_le_steps _ hk bs
    have h2 := steps_le_input baHandshakeTy (by decide) (by decide) bs
    omega
  case tx =>
    have h1 := alloc_le_steps _ hk bs
    have h2 := steps_le_input transactionsTy (by decide) (by decide) bs
    omega
  case warp =>
    have h1 := alloc_le_steps _ hk bs
    have h2 := steps_le_input warpTy (by decide) (by decide) bs
    omega
  case gmsg =>
    have h1 := alloc_le_steps _ hk bs
    have h2 := steps_le_input grandpaMessageTy (by decide) (by decide) bs
    omega
  case ghs =>
    have h1 := alloc_le_steps _ hk bs
    have h2 := steps_le_input grandpaHandshakeTy (by decide) (by decide) bs
    omega

/-- a block announcement whose only digest item declares `Data` of 2^30-1 bytes and stops -/
def baHuge : Bytes :=
  List.replicate 32 0 ++ [0] ++ List.replicate 64 0 ++ [4, 6, 0x42, 0x41, 0x42, 0x45, 0xfe, 0xff, 0xff, 0xff]

/-- the excluded region is real: 107 bytes make `decodeBlockAnnounceMessage` allocate a gigabyte
    before it fails -/
theorem C33_alloc_linear_counterexample :
    baHuge.length = 107 ∧ (decode .ba baHuge).isOk = false ∧
    (msgCost .ba baHuge).alloc = 1073741926 ∧ allocBudget baHuge.length = 185856 := by
  refine ⟨by decide, by decide, by decide, by decide⟩

end Gossamer.C33
