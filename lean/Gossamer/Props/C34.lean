/-
C34  The transaction queue is ordered and linearizable.

Sequential part: the transcription of `PriorityQueue` over Go's container/heap (slots with
`index` back-pointers, `txs` map, `currOrder`) refines the list of queued transactions sorted
by (priority desc, insertion order asc), for every sequence of Push / Pop / Peek /
RemoveExtrinsic / Exists / Pending / Len; the heap invariant holds in every reachable state.
Concurrent part: lock tables of PriorityQueue, Pool and TransactionState (re-extracted from the
sources by the harness on every run) + the monitor theorem of Lib.Monitor.
-/
import Gossamer.Model.C34
import Gossamer.Lib.Heap34
import Gossamer.Lib.Monitor
namespace Gossamer.C34

/-- what the spec knows of an item -/
def key (it : Item) : SItem := { hash := it.hash, priority := it.priority, order := it.order }

theorem before_key (a b : Item) : (key a).before (key b) = less a b := rfl

@[simp] theorem key_idx (x : Item) (v : Int) : key { x with index := v } = key x := rfl

/-! ### predicates on the first `m` slots -/

def IdxOK (a : Arr) (m : Nat) : Prop := ∀ k, k < m → (a.get k).index = (k : Int)
def Mem (a : Arr) (m : Nat) (x : SItem) : Prop := ∃ k, k < m ∧ key (a.get k) = x
def Inj (a : Arr) (m : Nat) : Prop :=
  ∀ k1 k2, k1 < m → k2 < m → (a.get k1).order = (a.get k2).order → k1 = k2

theorem sw_lt {i j k m : Nat} (hi : i < m) (hj : j < m) (hk : k < m) : sw i j k < m := by
  unfold sw; split
  · exact hi
  · split
    · exact hj
    · exact hk

theorem sw_sw (i j k : Nat) : sw i j (sw i j k) = k := by
  unfold sw
  by_cases h1 : k = j
  · subst h1
    by_cases h2 : i = k
    · simp [h2]
    · simp [h2]
  · by_cases h2 : k = i
    · subst h2; simp [h1]
    · simp [h1, h2]

theorem key_swap (a : Arr) (i j k : Nat) : key ((swapA a i j).get k) = key (a.get (sw i j k)) := by
  unfold sw
  simp only [swapA_get]
  by_cases h1 : k = j
  · simp [h1]
  · by_cases h2 : k = i
    · subst h2; simp [h1]
    · simp [h1, h2]

theorem order_swap (a : Arr) (i j k : Nat) : ((swapA a i j).get k).order = (a.get (sw i j k)).order := by
  have := congrArg SItem.order (key_swap a i j k)
  exact this

theorem idx_swap {a : Arr} {m i j : Nat} (hi : i < m) (hj : j < m) (h : IdxOK a m) :
    IdxOK (swapA a i j) m := by
  intro k hk
  simp only [swapA_get]
  by_cases h1 : k = j
  · simp [h1]
  · by_cases h2 : k = i
    · subst h2; simp [h1]
    · simp [h1, h2, h k hk]

theorem mem_swap {a : Arr} {m i j : Nat} (hi : i < m) (hj : j < m) (x : SItem) :
    Mem (swapA a i j) m x ↔ Mem a m x := by
  constructor
  · rintro ⟨k, hk, hx⟩
    exact ⟨sw i j k, sw_lt hi hj hk, by rw [← key_swap]; exact hx⟩
  · rintro ⟨k, hk, hx⟩
    exact ⟨sw i j k, sw_lt hi hj hk, by rw [key_swap, sw_sw]; exact hx⟩

theorem inj_swap {a : Arr} {m i j : Nat} (hi : i < m) (hj : j < m) (h : Inj a m) :
    Inj (swapA a i j) m := by
  intro k1 k2 h1 h2 ho
  rw [order_swap, order_swap] at ho
  have := h _ _ (sw_lt hi hj h1) (sw_lt hi hj h2) ho
  have h3 := congrArg (sw i j) this
  rwa [sw_sw, sw_sw] at h3

theorem idx_mono {a : Arr} {m n : Nat} (hmn : n ≤ m) (h : IdxOK a m) : IdxOK a n :=
  fun k hk => h k (by omega)
theorem inj_mono {a : Arr} {m n : Nat} (hmn : n ≤ m) (h : Inj a m) : Inj a n :=
  fun k1 k2 h1 h2 => h k1 k2 (by omega) (by omega)
theorem ord_mono {a : Arr} {m n : Nat} (hmn : n ≤ m) (h : Ord a m) : Ord a n :=
  fun k h0 hk => h k h0 (by omega)

/-- distinct slots hold distinct keys -/
theorem key_ne_of_inj {a : Arr} {m k1 k2 : Nat} (h : Inj a m) (h1 : k1 < m) (h2 : k2 < m)
    (hne : k1 ≠ k2) : key (a.get k1) ≠ key (a.get k2) := by
  intro hk
  exact hne (h k1 k2 h1 h2 (congrArg SItem.order hk))

/-- slots `0..n-1` of an array `b` that holds, below `n`, what `Swap(i, n)` leaves there:
    exactly the old slots `0..n` without slot `i` -/
theorem mem_drop {a b : Arr} {n i : Nat} (hi : i ≤ n) (hinj : Inj a (n + 1))
    (hb : ∀ k, k < n → key (b.get k) = key (a.get (sw i n k))) (y : SItem) :
    Mem b n y ↔ (Mem a (n + 1) y ∧ y ≠ key (a.get i)) := by
  constructor
  · rintro ⟨k, hk, hy⟩
    rw [hb k hk] at hy
    have hlt : sw i n k < n + 1 := sw_lt (by omega) (by omega) (by omega)
    have hne : sw i n k ≠ i := by
      unfold sw
      have : k ≠ n := by omega
      simp only [this, if_false]
      split <;> omega
    exact ⟨⟨sw i n k, hlt, hy⟩, by rw [← hy]; exact key_ne_of_inj hinj hlt (by omega) hne⟩
  · rintro ⟨⟨k', hk', hy⟩, hne⟩
    have hk'i : k' ≠ i := by
      intro h; subst h; exact hne hy.symm
    refine ⟨sw i n k', ?_, ?_⟩
    · unfold sw
      by_cases h1 : k' = n
      · simp only [h1, if_true]; omega
      · simp only [h1, hk'i, if_false]; omega
    · have hlt : sw i n k' < n := by
        unfold sw
        by_cases h1 : k' = n
        · simp only [h1, if_true]; omega
        · simp only [h1, hk'i, if_false]; omega
      rw [hb _ hlt, sw_sw]; exact hy

/-! ### list facts for the spec -/

theorem before_iff (x y : SItem) :
    x.before y = true ↔ (x.priority > y.priority ∨ (x.priority = y.priority ∧ x.order < y.order)) := by
  unfold SItem.before
  by_cases h : x.priority = y.priority
  · simp [h]
  · simp only [h, if_false, decide_eq_true_eq]
    constructor
    · intro h1; exact Or.inl h1
    · rintro (h1 | ⟨h1, _⟩)
      · exact h1
      · exact h1.elim

theorem before_false_iff (x y : SItem) :
    x.before y = false ↔ (x.priority < y.priority ∨ (x.priority = y.priority ∧ y.order ≤ x.order)) := by
  rw [← Bool.not_eq_true, before_iff]; omega

theorem before_irrefl (x : SItem) : x.before x = false := by rw [before_false_iff]; omega

theorem before_trans {x y z : SItem} (h1 : x.before y = true) (h2 : y.before z = true) :
    x.before z = true := by
  rw [before_iff] at *; omega

theorem before_total {x y : SItem} (h : x.before y = false) (hne : x.order ≠ y.order) :
    y.before x = true := by
  rw [before_false_iff] at h; rw [before_iff]; omega

theorem mem_insertSorted (x y : SItem) (l : List SItem) : y ∈ insertSorted x l ↔ (y = x ∨ y ∈ l) := by
  induction l with
  | nil => simp [insertSorted]
  | cons z zs ih =>
    unfold insertSorted
    split
    · simp
    · simp only [List.mem_cons, ih]
      constructor
      · rintro (h | h | h)
        · exact Or.inr (Or.inl h)
        · exact Or.inl h
        · exact Or.inr (Or.inr h)
      · rintro (h | h | h)
        · exact Or.inr (Or.inl h)
        · exact Or.inl h
        · exact Or.inr (Or.inr h)

theorem length_insertSorted (x : SItem) (l : List SItem) : (insertSorted x l).length = l.length + 1 := by
  induction l with
  | nil => rfl
  | cons z zs ih =>
    unfold insertSorted
    split
    · rfl
    · simp [ih]

theorem sorted_insertSorted (x : SItem) (l : List SItem)
    (hs : l.Pairwise (fun a b => a.before b = true)) (hne : ∀ y ∈ l, x.order ≠ y.order) :
    (insertSorted x l).Pairwise (fun a b => a.before b = true) := by
  induction l with
  | nil => simp [insertSorted]
  | cons z zs ih =>
    rw [List.pairwise_cons] at hs
    unfold insertSorted
    split
    · rename_i hb
      rw [List.pairwise_cons]
      refine ⟨?_, List.pairwise_cons.mpr hs⟩
      intro a ha
      rcases List.mem_cons.mp ha with rfl | ha'
      · exact hb
      · exact before_trans hb (hs.1 a ha')
    · rename_i hb
      have hb' : x.before z = false := by simpa using hb
      rw [List.pairwise_cons]
      refine ⟨?_, ih hs.2 (fun y hy => hne y (List.mem_cons_of_mem _ hy))⟩
      intro a ha
      rcases (mem_insertSorted x a zs).mp ha with rfl | ha'
      · exact before_total hb' (hne z (List.mem_cons_self))
      · exact hs.1 a ha'

theorem sorted_nodup {l : List SItem} (hs : l.Pairwise (fun a b => a.before b = true)) : l.Nodup := by
  apply List.Pairwise.imp _ hs
  intro a b hab heq
  subst heq
  rw [before_irrefl] at hab
  cases hab

theorem length_filter_remove {α : Type} (p : α → Bool) (x : α) : ∀ (l : List α), l.Nodup → x ∈ l →
    (∀ y ∈ l, p y = false ↔ y = x) → (l.filter p).length + 1 = l.length := by
  intro l
  induction l with
  | nil => intro _ h; cases h
  | cons z zs ih =>
    intro hn hx hp
    rw [List.nodup_cons] at hn
    by_cases hz : z = x
    · subst hz
      have h1 : p z = false := (hp z List.mem_cons_self).mpr rfl
      have h2 : zs.filter p = zs := by
        rw [List.filter_eq_self]
        intro a ha
        cases hpa : p a with
        | true => rfl
        | false =>
          have := (hp a (List.mem_cons_of_mem _ ha)).mp hpa
          subst this
          exact absurd ha hn.1
      simp [List.filter_cons, h1, h2]
    · have hx' : x ∈ zs := by
        rcases List.mem_cons.mp hx with h | h
        · exact absurd h.symm hz
        · exact h
      have h1 : p z = true := by
        cases hpz : p z with
        | true => rfl
        | false => exact absurd ((hp z List.mem_cons_self).mp hpz) hz
      have := ih hn.2 hx' (fun y hy => hp y (List.mem_cons_of_mem _ hy))
      simp only [List.filter_cons, h1, if_true, List.length_cons]
      omega

theorem lookup_filter_ne (m : List (Nat × Nat)) (k k2 : Nat) :
    (m.filter (·.1 != k2)).lookup k = if k = k2 then none else m.lookup k := by
  induction m with
  | nil => simp
  | cons a as ih =>
    obtain ⟨a1, a2⟩ := a
    by_cases h1 : a1 = k2
    · subst h1
      have : (List.filter (fun x => x.1 != a1) ((a1, a2) :: as)) = List.filter (fun x => x.1 != a1) as := by
        simp [List.filter_cons]
      rw [this, ih]
      by_cases hk : k = a1
      · simp [hk]
      · have hb : (k == a1) = false := by simpa using hk
        simp [hk, List.lookup_cons, hb]
    · have : (List.filter (fun x => x.1 != k2) ((a1, a2) :: as)) = (a1, a2) :: List.filter (fun x => x.1 != k2) as := by
        simp [List.filter_cons, h1]
      rw [this]
      by_cases hk : k = a1
      · subst hk
        simp [List.lookup_cons, h1]
      · have hb : (k == a1) = false := by simpa using hk
        simp only [List.lookup_cons, hb, ih]

/-! ### container/heap operations on a well-formed heap -/

/-- well-formedness of the first `m` slots -/
structure WF (a : Arr) (m : Nat) : Prop where
  ord : Ord a m
  idx : IdxOK a m
  inj : Inj a m

/-- what is left below `n` once slot `i` of a heap of `n+1` slots has been taken out -/
def Dropped (a : Arr) (n i : Nat) (c : Arr) : Prop :=
  IdxOK c n ∧ Inj c n ∧ ∀ y, Mem c n y ↔ (Mem a (n + 1) y ∧ y ≠ key (a.get i))

theorem dropped_swap {a c : Arr} {n i i' j' : Nat} (hi : i' < n) (hj : j' < n) (h : Dropped a n i c) :
    Dropped a n i (swapA c i' j') :=
  ⟨idx_swap hi hj h.1, inj_swap hi hj h.2.1, fun y => (mem_swap hi hj y).trans (h.2.2 y)⟩

theorem dropped_init {a : Arr} {n i : Nat} (hw : WF a (n + 1)) (hi : i ≤ n) :
    Dropped a n i (swapA a i n) := by
  refine ⟨idx_mono (Nat.le_succ n) (idx_swap (by omega) (by omega) hw.idx),
    inj_mono (Nat.le_succ n) (inj_swap (by omega) (by omega) hw.inj), ?_⟩
  intro y
  exact mem_drop hi hw.inj (fun k _ => key_swap a i n k) y

theorem dropped_last {a : Arr} {n : Nat} (hw : WF a (n + 1)) : Dropped a n n a := by
  refine ⟨idx_mono (Nat.le_succ n) hw.idx, inj_mono (Nat.le_succ n) hw.inj, ?_⟩
  intro y
  apply mem_drop (Nat.le_refl n) hw.inj
  intro k hk
  have : sw n n k = k := sw_other (by omega) (by omega)
  rw [this]

theorem downInv_root {a : Arr} {n : Nat} (hw : WF a (n + 1)) : DownInv (swapA a 0 n) n 0 0 := by
  refine ⟨Nat.le_refl 0, ?_, ?_⟩
  · intro k hk0 hkn hpk _
    rw [le_swap]
    have h1 : k ≠ 0 := by omega
    have h2 : k ≠ n := by omega
    have h3 : par k ≠ n := by have := par_lt hk0; omega
    rw [sw_other hpk h3, sw_other h1 h2]
    exact hw.ord k hk0 (by omega)
  · intro k _ _ _ h; omega

theorem downInv_mid {a : Arr} {n i : Nat} (hw : WF a (n + 1)) (hi : i < n) :
    DownInv (swapA a i n) n i i := by
  refine ⟨Nat.le_refl i, ?_, ?_⟩
  · intro k hk0 hkn hpk hki
    have hki' : k ≠ i := fun h => hki h rfl
    rw [le_swap]
    have h2 : k ≠ n := by omega
    have h3 : par k ≠ n := by have := par_lt hk0; omega
    rw [sw_other hpk h3, sw_other hki' h2]
    exact hw.ord k hk0 (by omega)
  · intro k hk0 hkn hpk hi0
    rw [le_swap]
    have h1 : par i ≠ i := by have := par_lt hi0; omega
    have h2 : par i ≠ n := by have := par_lt hi0; omega
    have h3 : k ≠ i := by have := par_lt hk0; omega
    have h4 : k ≠ n := by omega
    rw [sw_other h1 h2, sw_other h3 h4]
    have ha := hw.ord i hi0 (by omega)
    have hb := hw.ord k hk0 (by omega)
    rw [hpk] at hb
    exact le_trans ha hb

/-- `heap.Pop` on a well-formed heap of `n+1` slots -/
theorem heapPop_spec {a : Arr} {n : Nat} (hw : WF a (n + 1)) :
    (heapPop ⟨a, n + 1⟩).2.len = n ∧
    (heapPop ⟨a, n + 1⟩).1.hash = (a.get 0).hash ∧
    Ord (heapPop ⟨a, n + 1⟩).2.arr n ∧ Dropped a n 0 (heapPop ⟨a, n + 1⟩).2.arr := by
  have hsub : n + 1 - 1 = n := by omega
  have hd := down_ord n 0 n 0 (swapA a 0 n) (by omega) (downInv_root hw)
  refine ⟨?_, ?_, ?_, ?_⟩
  · simp [heapPop]
  · simp only [heapPop, hsub]
    have hfr := down_pres (fun c => c.get n = (swapA a 0 n).get n) n
      (fun c i j hi hj h => by
        have h1 : n ≠ i := by omega
        have h2 : n ≠ j := by omega
        show (swapA c i j).get n = _
        rw [swapA_get_other c h1 h2]; exact h) n 0 (swapA a 0 n) rfl
    rw [hfr, swapA_get_j]
  · simp only [heapPop, hsub]
    intro k hk0 hkn
    exact hd.1 k hk0 hkn (fun h => by omega)
  · simp only [heapPop, hsub]
    exact down_pres (Dropped a n 0) n (fun c i j hi hj h => dropped_swap hi hj h) n 0 _
      (dropped_init hw (Nat.zero_le n))

/-- `heap.Remove(i)` on a well-formed heap of `n+1` slots -/
theorem heapRemove_spec {a : Arr} {n i : Nat} (hw : WF a (n + 1)) (hi : i ≤ n) :
    (heapRemove ⟨a, n + 1⟩ i).2.len = n ∧
    Ord (heapRemove ⟨a, n + 1⟩ i).2.arr n ∧ Dropped a n i (heapRemove ⟨a, n + 1⟩ i).2.arr := by
  have hsub : n + 1 - 1 = n := by omega
  refine ⟨by simp [heapRemove], ?_⟩
  simp only [heapRemove, hsub]
  by_cases hni : n = i
  · subst hni
    simp only [ne_eq, not_true_eq_false, if_false]
    exact ⟨ord_mono (Nat.le_succ n) hw.ord, dropped_last hw⟩
  · have hin : i < n := by omega
    simp only [ne_eq, hni, not_false_eq_true, if_true]
    have hI := downInv_mid hw hin
    have hd := down_ord n i n i (swapA a i n) (by omega) hI
    have hdrop : Dropped a n i (down (swapA a i n) n n i).1 :=
      down_pres (Dropped a n i) n (fun c i' j' hi' hj' h => dropped_swap hi' hj' h) n i _
        (dropped_init hw hi)
    by_cases hmoved : (down (swapA a i n) n n i).2 > i
    · rw [if_pos hmoved]
      refine ⟨?_, hdrop⟩
      intro k hk0 hkn
      exact hd.1 k hk0 hkn (fun _ => by omega)
    · rw [if_neg hmoved]
      have heq : (down (swapA a i n) n n i).2 = i := by have := hd.2.2; omega
      have hsame := hd.2.1 heq
      refine ⟨?_, ?_⟩
      · apply up_ord n i i _ (Nat.le_refl i) hin
        rw [hsame]
        refine ⟨?_, hI.2.2⟩
        intro k hk0 hkn hki
        have := hd.1 k hk0 hkn (fun h => absurd h hki)
        rw [hsame] at this
        exact this
      · exact up_pres (Dropped a n i) n (fun c i' j' hi' hj' h => dropped_swap hi' hj' h) i i _ hin hdrop

/-- `heap.Push` of an item whose `order` is not in the heap -/
theorem heapPush_spec {a : Arr} {n : Nat} (hw : WF a n) (it : Item)
    (hfresh : ∀ k, k < n → (a.get k).order ≠ it.order) :
    (heapPush ⟨a, n⟩ it).len = n + 1 ∧ WF (heapPush ⟨a, n⟩ it).arr (n + 1) ∧
    ∀ y, Mem (heapPush ⟨a, n⟩ it).arr (n + 1) y ↔ (y = key it ∨ Mem a n y) := by
  refine ⟨rfl, ?_, ?_⟩
  · simp only [heapPush]
    have hget : ∀ k, (setSlot a n { it with index := (n : Int) }).get k =
        if k = n then { it with index := (n : Int) } else a.get k := fun k => rfl
    refine ⟨?_, ?_, ?_⟩
    · apply up_ord (n + 1) n n _ (Nat.le_refl n) (Nat.lt_succ_self n)
      refine ⟨?_, ?_⟩
      · intro k hk0 hkn hkne
        have h1 : k < n := by omega
        have h2 : par k ≠ n := by have := par_lt hk0; omega
        rw [hget, hget, if_neg hkne, if_neg h2]
        exact hw.ord k hk0 h1
      · intro k hk0 hkn hpk _
        have := par_lt hk0; omega
    · apply up_pres (fun c => IdxOK c (n + 1)) (n + 1) (fun c i j hi hj h => idx_swap hi hj h) n n _
        (Nat.lt_succ_self n)
      intro k hk
      rw [hget]
      by_cases hkn : k = n
      · simp [hkn]
      · rw [if_neg hkn]; exact hw.idx k (by omega)
    · apply up_pres (fun c => Inj c (n + 1)) (n + 1) (fun c i j hi hj h => inj_swap hi hj h) n n _
        (Nat.lt_succ_self n)
      intro k1 k2 h1 h2 ho
      rw [hget, hget] at ho
      by_cases hk1 : k1 = n <;> by_cases hk2 : k2 = n
      · omega
      · rw [if_pos hk1, if_neg hk2] at ho
        exact absurd ho.symm (hfresh k2 (by omega))
      · rw [if_neg hk1, if_pos hk2] at ho
        exact absurd ho (hfresh k1 (by omega))
      · rw [if_neg hk1, if_neg hk2] at ho
        exact hw.inj k1 k2 (by omega) (by omega) ho
  · simp only [heapPush]
    have hget : ∀ k, (setSlot a n { it with index := (n : Int) }).get k =
        if k = n then { it with index := (n : Int) } else a.get k := fun k => rfl
    apply up_pres (fun c => ∀ y, Mem c (n + 1) y ↔ (y = key it ∨ Mem a n y)) (n + 1)
      (fun c i j hi hj h y => (mem_swap hi hj y).trans (h y)) n n _ (Nat.lt_succ_self n)
    intro y
    constructor
    · rintro ⟨k, hk, hy⟩
      rw [hget] at hy
      by_cases hkn : k = n
      · rw [if_pos hkn] at hy; exact Or.inl hy.symm
      · rw [if_neg hkn] at hy; exact Or.inr ⟨k, by omega, hy⟩
    · rintro (h | ⟨k, hk, hy⟩)
      · exact ⟨n, Nat.lt_succ_self n, by rw [hget, if_pos rfl, h]; rfl⟩
      · exact ⟨k, by omega, by rw [hget, if_neg (by omega)]; exact hy⟩

theorem deref_eq {q : PQ} (hidx : IdxOK q.arr q.len) (hinj : Inj q.arr q.len) {k0 : Nat}
    (hk : k0 < q.len) : derefIndex q (q.arr.get k0).order = (k0 : Int) := by
  unfold derefIndex PQ.toList
  cases hf : ((List.range q.len).map q.arr.get).find? (·.order == (q.arr.get k0).order) with
  | none =>
    exfalso
    rw [List.find?_eq_none] at hf
    exact hf (q.arr.get k0) (List.mem_map.mpr ⟨k0, List.mem_range.mpr hk, rfl⟩) (by simp)
  | some it =>
    have h1 := List.find?_some hf
    have h2 := List.mem_of_find?_eq_some hf
    obtain ⟨k, hkr, hke⟩ := List.mem_map.mp h2
    have hkl : k < q.len := List.mem_range.mp hkr
    subst hke
    have : k = k0 := hinj k k0 hkl hk (by simpa using h1)
    subst this
    exact hidx k hkl

/-! ### the refinement relation (it contains the heap invariant) -/

structure Rel (s : State) (t : Spec) : Prop where
  wf : WF s.pq.arr s.pq.len
  next : t.next = s.currOrder
  sorted : t.items.Pairwise (fun x y => x.before y = true)
  mem : ∀ x, x ∈ t.items ↔ Mem s.pq.arr s.pq.len x
  len : t.items.length = s.pq.len
  fresh : ∀ x ∈ t.items, x.order < t.next
  hashInj : ∀ x ∈ t.items, ∀ y ∈ t.items, x.hash = y.hash → x = y
  txs : ∀ h o, s.txs.lookup h = some o ↔ ∃ x ∈ t.items, x.hash = h ∧ x.order = o

theorem rel_init : Rel State.init Spec.init := by
  refine ⟨⟨?_, ?_, ?_⟩, rfl, ?_, ?_, rfl, ?_, ?_, ?_⟩
  · intro k _ hk; exact absurd hk (Nat.not_lt_zero k)
  · intro k hk; exact absurd hk (Nat.not_lt_zero k)
  · intro k1 _ hk; exact absurd hk (Nat.not_lt_zero k1)
  · simp [Spec.init]
  · intro x
    simp only [Spec.init, State.init, List.not_mem_nil, false_iff]
    rintro ⟨k, hk, _⟩; exact absurd hk (Nat.not_lt_zero k)
  · intro x hx; simp [Spec.init] at hx
  · intro x hx; simp [Spec.init] at hx
  · intro h o; simp [Spec.init, State.init]

theorem any_hash_iff {s : State} {t : Spec} (hR : Rel s t) (h : Nat) :
    t.items.any (·.hash == h) = (s.txs.lookup h).isSome := by
  cases hl : s.txs.lookup h with
  | none =>
    simp only [Option.isSome_none]
    rw [List.any_eq_false]
    intro x hx hxh
    have : s.txs.lookup h = some x.order := (hR.txs h x.order).mpr ⟨x, hx, by simpa using hxh, rfl⟩
    rw [hl] at this; cases this
  | some o =>
    simp only [Option.isSome_some]
    obtain ⟨x, hx, hxh, _⟩ := (hR.txs h o).mp hl
    rw [List.any_eq_true]
    exact ⟨x, hx, by simp [hxh]⟩

/-- the item in the root slot is the head of the sorted list -/
theorem root_is_head {s : State} {t : Spec} (hR : Rel s t) {x : SItem} {r : List SItem}
    (hit : t.items = x :: r) : key (s.pq.arr.get 0) = x := by
  have hlen : 0 < s.pq.len := by rw [← hR.len, hit]; simp
  have hy : key (s.pq.arr.get 0) ∈ t.items := (hR.mem _).mpr ⟨0, hlen, rfl⟩
  rw [hit] at hy
  rcases List.mem_cons.mp hy with h | h
  · exact h
  · exfalso
    have hs := hR.sorted
    rw [hit, List.pairwise_cons] at hs
    have hb := hs.1 _ h
    obtain ⟨k, hk, hkx⟩ := (hR.mem x).mp (by rw [hit]; exact List.mem_cons_self)
    have hle := root_min hR.wf.ord k hk
    have : (key (s.pq.arr.get k)).before (key (s.pq.arr.get 0)) = false := by rw [before_key]; exact hle
    rw [hkx] at this
    rw [this] at hb; cases hb

/-- the relation after slot `i` has been taken out of the heap -/
theorem rel_remove_slot {s : State} {t : Spec} (hR : Rel s t) {n i : Nat} (hlen : s.pq.len = n + 1)
    (hi : i ≤ n) (b : Arr) (hord : Ord b n) (hdrop : Dropped s.pq.arr n i b) :
    Rel { pq := ⟨b, n⟩, currOrder := s.currOrder,
          txs := s.txs.filter (·.1 != (s.pq.arr.get i).hash) }
        { items := t.items.filter (·.hash != (s.pq.arr.get i).hash), next := t.next } := by
  have hx : key (s.pq.arr.get i) ∈ t.items := (hR.mem _).mpr ⟨i, by omega, rfl⟩
  have hxh : (key (s.pq.arr.get i)).hash = (s.pq.arr.get i).hash := rfl
  -- among the queued items, having that hash is being that item
  have hchar : ∀ y ∈ t.items, (y.hash != (s.pq.arr.get i).hash) = false ↔ y = key (s.pq.arr.get i) := by
    intro y hy
    constructor
    · intro h
      have h' : y.hash = (s.pq.arr.get i).hash := by simpa using h
      exact hR.hashInj y hy _ hx h'
    · intro h; rw [h]; simp [key]
  have hmemf : ∀ y, y ∈ t.items.filter (·.hash != (s.pq.arr.get i).hash) ↔
      (y ∈ t.items ∧ y ≠ key (s.pq.arr.get i)) := by
    intro y
    rw [List.mem_filter]
    constructor
    · rintro ⟨h1, h2⟩
      refine ⟨h1, fun h => ?_⟩
      have := (hchar y h1).mpr h
      rw [this] at h2; cases h2
    · rintro ⟨h1, h2⟩
      refine ⟨h1, ?_⟩
      cases hb : (y.hash != (s.pq.arr.get i).hash) with
      | true => rfl
      | false => exact absurd ((hchar y h1).mp hb) h2
  refine ⟨⟨hord, hdrop.1, hdrop.2.1⟩, hR.next, hR.sorted.filter _, ?_, ?_, ?_, ?_, ?_⟩
  · intro y
    show y ∈ t.items.filter _ ↔ Mem b n y
    rw [hmemf, hdrop.2.2 y, hR.mem y, hlen]
  · show (t.items.filter _).length = n
    have := length_filter_remove (fun y : SItem => y.hash != (s.pq.arr.get i).hash) _ t.items
      (sorted_nodup hR.sorted) hx hchar
    have h2 := hR.len
    omega
  · intro y hy
    exact hR.fresh y (List.mem_filter.mp hy).1
  · intro y hy z hz
    exact hR.hashInj y (List.mem_filter.mp hy).1 z (List.mem_filter.mp hz).1
  · intro h o
    show (s.txs.filter _).lookup h = some o ↔ _
    rw [lookup_filter_ne]
    by_cases hh : h = (s.pq.arr.get i).hash
    · rw [if_pos hh]
      constructor
      · intro hc; cases hc
      · rintro ⟨y, hy, hyh, _⟩
        have := (hmemf y).mp hy
        exact absurd (hR.hashInj y this.1 _ hx (by rw [hyh, hh]; rfl)) this.2
    · rw [if_neg hh, hR.txs h o]
      constructor
      · rintro ⟨y, hy, hyh, hyo⟩
        refine ⟨y, (hmemf y).mpr ⟨hy, fun he => hh ?_⟩, hyh, hyo⟩
        rw [← hyh, he]; rfl
      · rintro ⟨y, hy, hyh, hyo⟩
        exact ⟨y, ((hmemf y).mp hy).1, hyh, hyo⟩

/-- dropping the head's hash from a sorted list with distinct hashes leaves the tail -/
theorem filter_head {x : SItem} {r : List SItem}
    (hs : (x :: r).Pairwise (fun a b => a.before b = true))
    (hinj : ∀ a ∈ x :: r, ∀ b ∈ x :: r, a.hash = b.hash → a = b) :
    (x :: r).filter (·.hash != x.hash) = r := by
  have hnd := sorted_nodup hs
  rw [List.nodup_cons] at hnd
  simp only [List.filter_cons, bne_self_eq_false, Bool.false_eq_true, if_false]
  rw [List.filter_eq_self]
  intro a ha
  cases hb : (a.hash != x.hash) with
  | true => rfl
  | false =>
    have : a = x := hinj a (List.mem_cons_of_mem _ ha) x List.mem_cons_self (by simpa using hb)
    subst this
    exact absurd ha hnd.1

/-- observable results agree; `Pending` returns the same transactions in heap order on one side
    and in service order on the other -/
def OutRel : Out → Out → Prop
  | .list a, .list b => a.Perm b
  | x, y => x = y

theorem OutRel.refl_of_eq {a b : Out} (h : a = b) (hl : ∀ l, a ≠ .list l) : OutRel a b := by
  subst h
  cases a <;> simp [OutRel]

theorem push_rel {s : State} {t : Spec} (hR : Rel s t) (h p : Nat) :
    (push s h p).1 = (sstep t (.push h p)).1 ∧ Rel (push s h p).2 (sstep t (.push h p)).2 := by
  have hany := any_hash_iff hR h
  unfold push
  simp only [sstep]
  cases hl : s.txs.lookup h with
  | some o =>
    rw [hl] at hany
    simp only [Option.isSome_some] at hany
    rw [if_pos hany]
    exact ⟨rfl, hR⟩
  | none =>
    rw [hl] at hany
    simp only [Option.isSome_none] at hany
    rw [if_neg (by rw [hany]; simp)]
    refine ⟨rfl, ?_⟩
    obtain ⟨⟨arr, len⟩, co, txs⟩ := s
    have hnext : t.next = co := hR.next
    have hwf : WF arr len := hR.wf
    let it : Item := { hash := h, priority := p, order := co, index := 0 }
    have hfresh : ∀ k, k < len → (arr.get k).order ≠ it.order := by
      intro k hk
      have hm : key (arr.get k) ∈ t.items := (hR.mem _).mpr ⟨k, hk, rfl⟩
      have := hR.fresh _ hm
      show (arr.get k).order ≠ co
      have h2 : (key (arr.get k)).order = (arr.get k).order := rfl
      omega
    obtain ⟨_, hwf', hmem'⟩ := heapPush_spec hwf it hfresh
    have hkey : key it = { hash := h, priority := p, order := t.next } := by
      simp [key, it, hnext]
    have hnoh : ∀ y ∈ t.items, y.hash ≠ h := by
      intro y hy hyh
      rw [List.any_eq_false] at hany
      exact hany y hy (by simp [hyh])
    refine ⟨hwf', ?_, ?_, ?_, ?_, ?_, ?_, ?_⟩
    · show t.next + 1 = co + 1
      rw [hnext]
    · apply sorted_insertSorted _ _ hR.sorted
      intro y hy
      have := hR.fresh y hy
      show t.next ≠ y.order
      omega
    · intro y
      show y ∈ insertSorted _ t.items ↔ Mem (heapPush ⟨arr, len⟩ it).arr (len + 1) y
      rw [mem_insertSorted, hmem' y, hkey, hR.mem y]
    · show (insertSorted _ t.items).length = len + 1
      rw [length_insertSorted, hR.len]
    · intro y hy
      show y.order < t.next + 1
      rcases (mem_insertSorted _ y _).mp hy with rfl | hy'
      · show t.next < t.next + 1
        omega
      · have := hR.fresh y hy'; omega
    · intro y hy z hz hyz
      rcases (mem_insertSorted _ y _).mp hy with rfl | hy' <;>
        rcases (mem_insertSorted _ z _).mp hz with rfl | hz'
      · rfl
      · exact absurd hyz.symm (hnoh z hz')
      · exact absurd hyz (hnoh y hy')
      · exact hR.hashInj y hy' z hz' hyz
    · intro h' o
      show List.lookup h' ((h, co) :: txs) = some o ↔ ∃ x ∈ insertSorted _ t.items, x.hash = h' ∧ x.order = o
      by_cases hh : h' = h
      · subst hh
        have : List.lookup h' ((h', co) :: txs) = some co := by simp [List.lookup_cons]
        rw [this]
        constructor
        · intro hc
          have : co = o := by simpa using hc
          subst this
          exact ⟨_, (mem_insertSorted _ _ _).mpr (Or.inl rfl), rfl, hnext⟩
        · rintro ⟨y, hy, hyh, hyo⟩
          rcases (mem_insertSorted _ y _).mp hy with rfl | hy'
          · simp only at hyo
            rw [← hyo, hnext]
          · exact absurd hyh (hnoh y hy')
      · have hb : (h' == h) = false := by simpa using hh
        have : List.lookup h' ((h, co) :: txs) = List.lookup h' txs := by simp [List.lookup_cons, hb]
        rw [this]
        have htx : List.lookup h' txs = some o ↔ ∃ x ∈ t.items, x.hash = h' ∧ x.order = o := hR.txs h' o
        rw [htx]
        constructor
        · rintro ⟨y, hy, hyh, hyo⟩
          exact ⟨y, (mem_insertSorted _ _ _).mpr (Or.inr hy), hyh, hyo⟩
        · rintro ⟨y, hy, hyh, hyo⟩
          rcases (mem_insertSorted _ y _).mp hy with rfl | hy'
          · exact absurd hyh.symm hh
          · exact ⟨y, hy', hyh, hyo⟩

theorem pop_rel {s : State} {t : Spec} (hR : Rel s t) :
    (pop s).1 = (sstep t .pop).1 ∧ Rel (pop s).2 (sstep t .pop).2 := by
  obtain ⟨⟨arr, len⟩, co, txs⟩ := s
  unfold pop
  simp only [sstep]
  cases hit : t.items with
  | nil =>
    have hl : len = 0 := by have := hR.len; rw [hit] at this; simpa using this.symm
    subst hl
    simp only [if_true]
    exact ⟨trivial, hR⟩
  | cons x r =>
    have hl : len = r.length + 1 := by have := hR.len; rw [hit] at this; simpa using this.symm
    have hne : ¬ (len = 0) := by omega
    simp only [hne, if_false]
    subst hl
    have hwf : WF arr (r.length + 1) := hR.wf
    obtain ⟨_, hhash, hord, hdrop⟩ := heapPop_spec hwf
    have hroot : key (arr.get 0) = x := root_is_head hR hit
    have hxh : (arr.get 0).hash = x.hash := by rw [← hroot]; rfl
    refine ⟨?_, ?_⟩
    · show Out.tx (heapPop ⟨arr, r.length + 1⟩).1.hash = Out.tx x.hash
      rw [hhash, hxh]
    · have := rel_remove_slot hR (n := r.length) (i := 0) rfl (Nat.zero_le _) _ hord hdrop
      have hf : t.items.filter (·.hash != (arr.get 0).hash) = r := by
        rw [hit, hxh]
        exact filter_head (hit ▸ hR.sorted) (hit ▸ hR.hashInj)
      simp only at this
      rw [hf] at this
      show Rel { pq := (heapPop ⟨arr, r.length + 1⟩).2, currOrder := co,
                 txs := txs.filter (·.1 != (heapPop ⟨arr, r.length + 1⟩).1.hash) } { items := r, next := t.next }
      rw [hhash]
      have hpq : (heapPop ⟨arr, r.length + 1⟩).2 = ⟨(heapPop ⟨arr, r.length + 1⟩).2.arr, r.length⟩ := by
        simp [heapPop]
      rw [hpq]
      exact this

theorem peek_rel {s : State} {t : Spec} (hR : Rel s t) : peek s = (sstep t .peek).1 := by
  unfold peek
  simp only [sstep]
  cases hit : t.items with
  | nil =>
    have hl : s.pq.len = 0 := by have := hR.len; rw [hit] at this; simpa using this.symm
    simp [hl]
  | cons x r =>
    have hl : s.pq.len = r.length + 1 := by have := hR.len; rw [hit] at this; simpa using this.symm
    have hne : ¬ (s.pq.len = 0) := by omega
    simp only [hne, if_false]
    have hroot : key (s.pq.arr.get 0) = x := root_is_head hR hit
    rw [← hroot]; rfl

theorem remove_rel {s : State} {t : Spec} (hR : Rel s t) (h : Nat) :
    (removeExtrinsic s h).1 = .ok ∧ Rel (removeExtrinsic s h).2 (sstep t (.remove h)).2 := by
  obtain ⟨⟨arr, len⟩, co, txs⟩ := s
  unfold removeExtrinsic
  simp only [sstep]
  cases hl : List.lookup h txs with
  | none =>
    have hany := any_hash_iff hR h
    have hl' : List.lookup h txs = none := hl
    simp only [hl', Option.isSome_none] at hany
    rw [List.any_eq_false] at hany
    have hf : t.items.filter (·.hash != h) = t.items := by
      rw [List.filter_eq_self]
      intro a ha
      have := hany a ha
      simpa using this
    simp only [hf]
    exact ⟨trivial, hR⟩
  | some o =>
    obtain ⟨x, hx, hxh, hxo⟩ := (hR.txs h o).mp hl
    obtain ⟨k0, hk0, hkx⟩ := (hR.mem x).mp hx
    have hko : (arr.get k0).order = o := by rw [← hxo, ← hkx]; rfl
    have hkh : (arr.get k0).hash = h := by rw [← hxh, ← hkx]; rfl
    have hderef : derefIndex ⟨arr, len⟩ o = (k0 : Int) := by
      rw [← hko]; exact deref_eq (q := ⟨arr, len⟩) hR.wf.idx hR.wf.inj hk0
    simp only [hderef]
    have hk0' : k0 < len := hk0
    have hnp : ¬ ((k0 : Int) < 0 ∨ (k0 : Int) ≥ (len : Int)) := by omega
    rw [if_neg hnp]
    obtain ⟨n, hn⟩ : ∃ n, len = n + 1 := ⟨len - 1, by omega⟩
    subst hn
    have hwf : WF arr (n + 1) := hR.wf
    obtain ⟨_, hord, hdrop⟩ := heapRemove_spec hwf (i := k0) (by omega)
    refine ⟨rfl, ?_⟩
    have := rel_remove_slot hR (n := n) (i := k0) rfl (by omega) _ hord hdrop
    simp only [hkh] at this
    have hpq : (heapRemove ⟨arr, n + 1⟩ k0).2 = ⟨(heapRemove ⟨arr, n + 1⟩ k0).2.arr, n⟩ := by
      simp [heapRemove]
    show Rel { pq := (heapRemove ⟨arr, n + 1⟩ (Int.toNat (k0 : Int))).2, currOrder := co,
               txs := txs.filter (·.1 != h) } _
    rw [Int.toNat_natCast, hpq]
    exact this

theorem pending_rel {s : State} {t : Spec} (hR : Rel s t) :
    (s.pq.toList.map (·.hash)).Perm (t.items.map (·.hash)) := by
  have hslot : ∀ k, k < s.pq.len → key (s.pq.arr.get k) ∈ t.items := fun k hk => (hR.mem _).mpr ⟨k, hk, rfl⟩
  rw [List.perm_ext_iff_of_nodup]
  · intro h
    simp only [PQ.toList, List.map_map, List.mem_map, List.mem_range, Function.comp]
    constructor
    · rintro ⟨k, hk, hkh⟩
      exact ⟨_, hslot k hk, hkh⟩
    · rintro ⟨x, hx, hxh⟩
      obtain ⟨k, hk, hkx⟩ := (hR.mem x).mp hx
      exact ⟨k, hk, by rw [← hxh, ← hkx]; rfl⟩
  · simp only [PQ.toList, List.map_map]
    rw [List.nodup_iff_pairwise_ne, List.pairwise_map]
    apply List.Pairwise.imp_of_mem _ List.nodup_range
    intro k1 k2 h1 h2 hne heq
    have h1' := List.mem_range.mp h1
    have h2' := List.mem_range.mp h2
    have := hR.hashInj _ (hslot k1 h1') _ (hslot k2 h2') heq
    exact hne (hR.wf.inj k1 k2 h1' h2' (congrArg SItem.order this))
  · rw [List.nodup_iff_pairwise_ne, List.pairwise_map]
    apply List.Pairwise.imp_of_mem _ (sorted_nodup hR.sorted)
    intro a b ha hb hne heq
    exact hne (hR.hashInj a ha b hb heq)

theorem step_rel {s : State} {t : Spec} (hR : Rel s t) (op : Op) :
    OutRel (step s op).1 (sstep t op).1 ∧ Rel (step s op).2 (sstep t op).2 := by
  cases op with
  | push h p =>
    have := push_rel hR h p
    refine ⟨?_, this.2⟩
    apply OutRel.refl_of_eq this.1
    intro l hl
    simp only [step, push] at hl
    split at hl <;> cases hl
  | pop =>
    have := pop_rel hR
    refine ⟨?_, this.2⟩
    apply OutRel.refl_of_eq this.1
    intro l hl
    simp only [step, pop] at hl
    split at hl <;> cases hl
  | peek =>
    have := peek_rel hR
    have h2 : (sstep t .peek).2 = t := by
      simp only [sstep]; split <;> rfl
    refine ⟨?_, by rw [h2]; exact hR⟩
    apply OutRel.refl_of_eq this
    intro l hl
    simp only [step, peek] at hl
    split at hl <;> cases hl
  | remove h =>
    have := remove_rel hR h
    refine ⟨?_, this.2⟩
    show OutRel (removeExtrinsic s h).1 .ok
    rw [this.1]; simp [OutRel]
  | exist h =>
    refine ⟨?_, hR⟩
    show OutRel (.bool _) (.bool _)
    rw [any_hash_iff hR h]; simp [OutRel]
  | pending => exact ⟨pending_rel hR, hR⟩
  | len =>
    refine ⟨?_, hR⟩
    show OutRel (.num _) (.num _)
    rw [hR.len]; simp [OutRel]

/-- pointwise `OutRel` on result lists of equal length -/
def OutsRel : List Out → List Out → Prop
  | [], [] => True
  | a :: as, b :: bs => OutRel a b ∧ OutsRel as bs
  | _, _ => False

theorem run_rel (ops : List Op) : ∀ {s : State} {t : Spec}, Rel s t →
    OutsRel (run s ops).1 (srun t ops).1 ∧ Rel (run s ops).2 (srun t ops).2 := by
  induction ops with
  | nil => intro s t hR; exact ⟨trivial, hR⟩
  | cons op ops ih =>
    intro s t hR
    have h := step_rel hR op
    have ih' := ih h.2
    exact ⟨⟨h.1, ih'.1⟩, ih'.2⟩

/-! ### the property theorems -/

/-- the state reached from the empty queue by a sequence of operations -/
def reach (ops : List Op) : State := (run State.init ops).2

/-- **C34_refines.**  For every sequence of Push / Pop / Peek / RemoveExtrinsic / Exists /
    Pending / Len on a fresh queue, the heap implementation returns what the sorted list returns
    (Pending: the same transactions, in heap layout order instead of service order), and the
    final states are related by `Rel` (same queued items, same next insertion number). -/
theorem C34_refines (ops : List Op) :
    OutsRel (run State.init ops).1 (srun Spec.init ops).1 ∧
    Rel (reach ops) (srun Spec.init ops).2 :=
  run_rel ops rel_init

/-- **C34_heap_inv.**  In every reachable state: the slice is a heap for `Less`; every `index`
    back-pointer equals the slot position; insertion numbers and hashes are pairwise distinct
    and below `currOrder`; and the `txs` map is exactly the set of queued items (the pointer
    stored under a hash designates the slot holding that hash). -/
theorem C34_heap_inv (ops : List Op) :
    let s := reach ops
    Ord s.pq.arr s.pq.len ∧ IdxOK s.pq.arr s.pq.len ∧ Inj s.pq.arr s.pq.len ∧
    (∀ k1 k2, k1 < s.pq.len → k2 < s.pq.len → (s.pq.arr.get k1).hash = (s.pq.arr.get k2).hash → k1 = k2) ∧
    (∀ k, k < s.pq.len → (s.pq.arr.get k).order < s.currOrder) ∧
    (∀ h o, s.txs.lookup h = some o ↔
      ∃ k, k < s.pq.len ∧ (s.pq.arr.get k).hash = h ∧ (s.pq.arr.get k).order = o) := by
  intro s
  have hR := (C34_refines ops).2
  have hslot : ∀ k, k < s.pq.len → key (s.pq.arr.get k) ∈ (srun Spec.init ops).2.items :=
    fun k hk => (hR.mem _).mpr ⟨k, hk, rfl⟩
  refine ⟨hR.wf.ord, hR.wf.idx, hR.wf.inj, ?_, ?_, ?_⟩
  · intro k1 k2 h1 h2 heq
    have := hR.hashInj _ (hslot k1 h1) _ (hslot k2 h2) heq
    exact hR.wf.inj k1 k2 h1 h2 (congrArg SItem.order this)
  · intro k hk
    have := hR.fresh _ (hslot k hk)
    rw [hR.next] at this
    exact this
  · intro h o
    rw [hR.txs h o]
    constructor
    · rintro ⟨x, hx, hxh, hxo⟩
      obtain ⟨k, hk, hkx⟩ := (hR.mem x).mp hx
      exact ⟨k, hk, by rw [← hxh, ← hkx]; rfl, by rw [← hxo, ← hkx]; rfl⟩
    · rintro ⟨k, hk, hkh, hko⟩
      exact ⟨_, hslot k hk, hkh, hko⟩

theorem pop_out {s : State} (hw : WF s.pq.arr s.pq.len) (hne : s.pq.len ≠ 0) :
    (pop s).1 = .tx (s.pq.arr.get 0).hash := by
  obtain ⟨⟨arr, len⟩, co, txs⟩ := s
  obtain ⟨n, hn⟩ : ∃ n, len = n + 1 := ⟨len - 1, by have : len ≠ 0 := hne; omega⟩
  subst hn
  have := (heapPop_spec (a := arr) (n := n) hw).2.1
  unfold pop
  simp only [Nat.add_one_ne_zero, if_false]
  rw [this]

/-- **C34_pop_is_max.**  In every reachable non-empty state, Pop yields a queued transaction
    whose priority is at least the priority of every queued transaction. -/
theorem C34_pop_is_max (ops : List Op) (hne : (reach ops).pq.len ≠ 0) :
    let s := reach ops
    (pop s).1 = .tx (s.pq.arr.get 0).hash ∧
    ∀ k, k < s.pq.len → (s.pq.arr.get k).priority ≤ (s.pq.arr.get 0).priority := by
  intro s
  have hR : Rel s _ := (C34_refines ops).2
  refine ⟨pop_out hR.wf hne, ?_⟩
  intro k hk
  have := root_min (a := s.pq.arr) (n := s.pq.len) hR.wf.ord k hk
  rw [le_iff] at this
  omega

/-- **C34_fifo_among_equal.**  Among the queued transactions of the same (highest) priority,
    Pop yields the one with the smallest insertion number … -/
theorem C34_fifo_among_equal (ops : List Op) (hne : (reach ops).pq.len ≠ 0) :
    let s := reach ops
    (pop s).1 = .tx (s.pq.arr.get 0).hash ∧
    ∀ k, k < s.pq.len → (s.pq.arr.get k).priority = (s.pq.arr.get 0).priority →
      (s.pq.arr.get 0).order ≤ (s.pq.arr.get k).order := by
  intro s
  have hR : Rel s _ := (C34_refines ops).2
  refine ⟨pop_out hR.wf hne, ?_⟩
  intro k hk hp
  have := root_min (a := s.pq.arr) (n := s.pq.len) hR.wf.ord k hk
  rw [le_iff] at this
  omega

/-- … and insertion numbers are insertion order: a successful Push gives the new transaction the
    number `currOrder`, larger than the number of everything already queued, and increments it. -/
theorem C34_order_is_insertion (ops : List Op) (h p : Nat)
    (hnew : (reach ops).txs.lookup h = none) :
    let s := reach ops
    (push s h p).1 = .ok ∧ (push s h p).2.currOrder = s.currOrder + 1 ∧
    (∃ k, k < (push s h p).2.pq.len ∧ (push s h p).2.pq.arr.get k =
        { hash := h, priority := p, order := s.currOrder, index := (k : Int) }) ∧
    ∀ k, k < s.pq.len → (s.pq.arr.get k).order < s.currOrder := by
  intro s
  have hinv : ∀ k, k < s.pq.len → (s.pq.arr.get k).order < s.currOrder := (C34_heap_inv ops).2.2.2.2.1
  have hR : Rel s _ := (C34_refines ops).2
  let it : Item := { hash := h, priority := p, order := s.currOrder, index := 0 }
  have hpush : push s h p =
      (.ok, { pq := heapPush s.pq it, currOrder := s.currOrder + 1, txs := (h, s.currOrder) :: s.txs }) := by
    unfold push
    have : s.txs.lookup h = none := hnew
    rw [this]
  refine ⟨by rw [hpush], by rw [hpush], ?_, hinv⟩
  rw [hpush]
  have hfresh : ∀ k, k < s.pq.len → (s.pq.arr.get k).order ≠ it.order := by
    intro k hk; have := hinv k hk
    show (s.pq.arr.get k).order ≠ s.currOrder
    omega
  have hs := heapPush_spec (a := s.pq.arr) (n := s.pq.len) hR.wf it hfresh
  have hm := (hs.2.2 (key it)).mpr (Or.inl rfl)
  obtain ⟨k, hk, hkk⟩ := hm
  have hidx := hs.2.1.idx k hk
  refine ⟨k, hk, ?_⟩
  show (heapPush ⟨s.pq.arr, s.pq.len⟩ it).arr.get k = _
  generalize (heapPush ⟨s.pq.arr, s.pq.len⟩ it).arr.get k = it' at hkk hidx
  obtain ⟨ih, ip, io, ii⟩ := it'
  simp only [key, it, SItem.mk.injEq] at hkk
  simp only at hidx
  obtain ⟨h1, h2, h3⟩ := hkk
  subst h1; subst h2; subst hidx
  rw [h3]

/-- **C34_dup_refused.**  In every reachable state, pushing a transaction whose hash is queued
    is refused with ErrTransactionExists and leaves the queue untouched; conversely a hash that
    is not queued is accepted. -/
theorem C34_dup_refused (ops : List Op) (h p : Nat) :
    let s := reach ops
    ((∃ k, k < s.pq.len ∧ (s.pq.arr.get k).hash = h) → push s h p = (.dup, s)) ∧
    ((¬ ∃ k, k < s.pq.len ∧ (s.pq.arr.get k).hash = h) → (push s h p).1 = .ok) := by
  intro s
  have hinv := (C34_heap_inv ops).2.2.2.2.2
  constructor
  · rintro ⟨k, hk, hkh⟩
    have := (hinv h (s.pq.arr.get k).order).mpr ⟨k, hk, hkh, rfl⟩
    unfold push
    rw [this]
  · intro hno
    have : s.txs.lookup h = none := by
      cases hl : s.txs.lookup h with
      | none => rfl
      | some o =>
        obtain ⟨k, hk, hkh, _⟩ := (hinv h o).mp hl
        exact absurd ⟨k, hk, hkh⟩ hno
    unfold push
    rw [this]

/-- **C34_at_most_once.**  A transaction yielded by Pop, or removed by RemoveExtrinsic, is no
    longer queued afterwards (no slot holds its hash, Exists answers false), so it cannot be
    yielded or removed a second time unless it is pushed again. -/
theorem C34_at_most_once (ops : List Op) (h : Nat) :
    let s := reach ops
    ((pop s).1 = .tx h →
      (¬ ∃ k, k < (pop s).2.pq.len ∧ ((pop s).2.pq.arr.get k).hash = h) ∧ (pop s).2.txs.lookup h = none) ∧
    ((¬ ∃ k, k < (removeExtrinsic s h).2.pq.len ∧ ((removeExtrinsic s h).2.pq.arr.get k).hash = h) ∧
      (removeExtrinsic s h).2.txs.lookup h = none) := by
  intro s
  have hR := (C34_refines ops).2
  -- a state related to a spec list without hash `h` holds no `h`
  have gone : ∀ (s' : State) (t' : Spec), Rel s' t' → (∀ x ∈ t'.items, x.hash ≠ h) →
      (¬ ∃ k, k < s'.pq.len ∧ (s'.pq.arr.get k).hash = h) ∧ s'.txs.lookup h = none := by
    intro s' t' hR' hno
    constructor
    · rintro ⟨k, hk, hkh⟩
      exact hno _ ((hR'.mem _).mpr ⟨k, hk, rfl⟩) hkh
    · cases hl : s'.txs.lookup h with
      | none => rfl
      | some o =>
        obtain ⟨x, hx, hxh, _⟩ := (hR'.txs h o).mp hl
        exact absurd hxh (hno x hx)
  constructor
  · intro hpop
    have hp := pop_rel hR
    apply gone _ _ hp.2
    rw [hpop] at hp
    have h1 := hp.1
    simp only [sstep] at h1 ⊢
    cases hit : (srun Spec.init ops).2.items with
    | nil => rw [hit] at h1; cases h1
    | cons x r =>
      rw [hit] at h1
      simp only at h1 ⊢
      have hxh : h = x.hash := by simpa using h1
      have hf := filter_head (hit ▸ hR.sorted) (hit ▸ hR.hashInj)
      intro y hy
      rw [← hf] at hy
      have := (List.mem_filter.mp hy).2
      rw [hxh]
      simpa using this
  · have hp := remove_rel hR h
    apply gone _ _ hp.2
    intro y hy
    simp only [sstep] at hy
    have := (List.mem_filter.mp hy).2
    simpa using this

/-- non-vacuity: a concrete run with equal priorities, a duplicate, and removal of a middle slot -/
example : (run State.init [.push 1 5, .push 2 7, .push 3 5, .push 1 9, .peek, .remove 3, .pop, .pop, .pop, .exist 3]).1 =
    [.ok, .ok, .ok, .dup, .tx 2, .ok, .tx 2, .tx 1, .none, .bool false] := by decide

/-! ### conservation: no transaction is lost or duplicated -/

/-- bookkeeping of what went in and what came out -/
structure Ledger where
  pushed : List Nat     -- hashes accepted by Push (result ok)
  yielded : List Nat    -- hashes returned by Pop / PopWithTimer
  removed : List Nat    -- hashes taken out by RemoveExtrinsic (only when they were queued)

/-- `present`: for a RemoveExtrinsic, whether the hash was queued before the call -/
def ledgerStep (present : Bool) (op : Op) (out : Out) (l : Ledger) : Ledger :=
  match op, out with
  | .push h _, .ok => { l with pushed := h :: l.pushed }
  | .pop, .tx h => { l with yielded := h :: l.yielded }
  | .remove h, _ => if present then { l with removed := h :: l.removed } else l
  | _, _ => l

def Op.hash : Op → Nat
  | .push h _ => h | .remove h => h | .exist h => h | _ => 0

/-- the ledger of a run of the implementation model -/
def ledger (s : State) : List Op → Ledger → Ledger
  | [], l => l
  | op :: ops, l =>
    let o := step s op
    ledger o.2 ops (ledgerStep (s.txs.lookup op.hash).isSome op o.1 l)

/-- everything accepted is either still queued, or was yielded, or was removed — as multisets -/
def Bal (t : Spec) (l : Ledger) : Prop :=
  l.pushed.Perm (t.items.map (·.hash) ++ (l.yielded ++ l.removed))

theorem perm_insertSorted (x : SItem) (l : List SItem) : (insertSorted x l).Perm (x :: l) := by
  induction l with
  | nil => exact List.Perm.refl _
  | cons y ys ih =>
    unfold insertSorted
    split
    · exact List.Perm.refl _
    · exact (List.Perm.cons y ih).trans (List.Perm.swap x y ys)

theorem perm_filter_remove {α : Type} (p : α → Bool) (x : α) : ∀ (l : List α), l.Nodup → x ∈ l →
    (∀ y ∈ l, p y = false ↔ y = x) → l.Perm (x :: l.filter p) := by
  intro l
  induction l with
  | nil => intro _ h; cases h
  | cons z zs ih =>
    intro hn hx hp
    rw [List.nodup_cons] at hn
    by_cases hz : z = x
    · subst hz
      have h1 : p z = false := (hp z List.mem_cons_self).mpr rfl
      have h2 : zs.filter p = zs := by
        rw [List.filter_eq_self]
        intro a ha
        cases hpa : p a with
        | true => rfl
        | false =>
          have := (hp a (List.mem_cons_of_mem _ ha)).mp hpa
          subst this
          exact absurd ha hn.1
      simp [List.filter_cons, h1, h2]
    · have hx' : x ∈ zs := by
        rcases List.mem_cons.mp hx with h | h
        · exact absurd h.symm hz
        · exact h
      have h1 : p z = true := by
        cases hpz : p z with
        | true => rfl
        | false => exact absurd ((hp z List.mem_cons_self).mp hpz) hz
      have := ih hn.2 hx' (fun y hy => hp y (List.mem_cons_of_mem _ hy))
      simp only [List.filter_cons, h1, if_true]
      exact (List.Perm.cons z this).trans (List.Perm.swap x z _)

theorem bal_step {s : State} {t : Spec} (hR : Rel s t) {l : Ledger} (hB : Bal t l) (op : Op) :
    Bal (sstep t op).2 (ledgerStep (s.txs.lookup op.hash).isSome op (step s op).1 l) := by
  cases op with
  | push h p =>
    have ho : (step s (.push h p)).1 = (sstep t (.push h p)).1 := (push_rel hR h p).1
    rw [ho]
    simp only [sstep]
    split
    · exact hB
    · show List.Perm (h :: l.pushed) _
      have h1 := (perm_insertSorted { hash := h, priority := p, order := t.next } t.items).map (·.hash)
      exact (List.Perm.cons h hB).trans ((List.Perm.append_right _ h1).symm)
  | pop =>
    have ho : (step s .pop).1 = (sstep t .pop).1 := (pop_rel hR).1
    rw [ho]
    cases hit : t.items with
    | nil =>
      have hs : sstep t .pop = (.none, t) := by simp only [sstep, hit]
      rw [hs]; exact hB
    | cons x r =>
      have hs : sstep t .pop = (.tx x.hash, { t with items := r }) := by simp only [sstep, hit]
      rw [hs]
      show List.Perm l.pushed (r.map (·.hash) ++ (x.hash :: (l.yielded ++ l.removed)))
      have hB' : l.pushed.Perm (x.hash :: (r.map (·.hash) ++ (l.yielded ++ l.removed))) := by
        unfold Bal at hB; rw [hit] at hB; simpa using hB
      exact hB'.trans (List.perm_middle (a := x.hash) (l₁ := r.map (·.hash))
        (l₂ := l.yielded ++ l.removed)).symm
  | remove h =>
    have hany := any_hash_iff hR h
    show Bal { t with items := t.items.filter (·.hash != h) }
      (if (s.txs.lookup h).isSome then { l with removed := h :: l.removed } else l)
    rw [← hany]
    cases ha : t.items.any (·.hash == h) with
    | false =>
      simp only [Bool.false_eq_true, if_false]
      rw [List.any_eq_false] at ha
      have hf : t.items.filter (·.hash != h) = t.items := by
        rw [List.filter_eq_self]
        intro a haa
        have := ha a haa
        simpa using this
      unfold Bal; rw [hf]; exact hB
    | true =>
      simp only [if_true]
      rw [List.any_eq_true] at ha
      obtain ⟨x, hx, hxh⟩ := ha
      have hxh' : x.hash = h := by simpa using hxh
      have hchar : ∀ y ∈ t.items, (y.hash != h) = false ↔ y = x := by
        intro y hy
        constructor
        · intro hh
          exact hR.hashInj y hy x hx (by rw [hxh']; simpa using hh)
        · intro hh; rw [hh, hxh']; simp
      have hp := (perm_filter_remove (fun y : SItem => y.hash != h) x t.items
        (sorted_nodup hR.sorted) hx hchar).map (·.hash)
      rw [List.map_cons, hxh'] at hp
      unfold Bal at hB ⊢
      show List.Perm l.pushed ((t.items.filter (·.hash != h)).map (·.hash) ++ (l.yielded ++ h :: l.removed))
      have h2 : List.Perm (t.items.map (·.hash) ++ (l.yielded ++ l.removed))
          (h :: ((t.items.filter (·.hash != h)).map (·.hash) ++ (l.yielded ++ l.removed))) :=
        List.Perm.append_right _ hp
      have h3 : List.Perm ((t.items.filter (·.hash != h)).map (·.hash) ++ (l.yielded ++ h :: l.removed))
          (h :: ((t.items.filter (·.hash != h)).map (·.hash) ++ (l.yielded ++ l.removed))) := by
        rw [← List.append_assoc, ← List.append_assoc]
        exact List.perm_middle
      exact (hB.trans h2).trans h3.symm
  | peek =>
    have h2 : (sstep t .peek).2 = t := by simp only [sstep]; split <;> rfl
    rw [h2]
    have : ledgerStep (s.txs.lookup Op.peek.hash).isSome .peek (step s .peek).1 l = l := by
      unfold ledgerStep; split <;> first | rfl | contradiction
    rw [this]; exact hB
  | exist h => exact hB
  | pending => exact hB
  | len => exact hB

theorem bal_run (ops : List Op) : ∀ {s : State} {t : Spec} {l : Ledger}, Rel s t → Bal t l →
    Bal (srun t ops).2 (ledger s ops l) := by
  induction ops with
  | nil => intro s t l _ hB; exact hB
  | cons op ops ih =>
    intro s t l hR hB
    exact ih (step_rel hR op).2 (bal_step hR hB op)

/-- **C34_conservation.**  For every operation sequence on a fresh queue: the transactions
    accepted by Push are, as a multiset, exactly those yielded by Pop/PopWithTimer plus those
    taken out by RemoveExtrinsic plus those still in the queue.  Nothing is lost, nothing is
    yielded twice. -/
theorem C34_conservation (ops : List Op) :
    let l := ledger State.init ops ⟨[], [], []⟩
    l.pushed.Perm ((reach ops).pq.toList.map (·.hash) ++ (l.yielded ++ l.removed)) := by
  intro l
  have hR := (C34_refines ops).2
  have hB : Bal (srun Spec.init ops).2 l :=
    bal_run ops rel_init (by simp [Bal, Spec.init])
  exact hB.trans (List.Perm.append_right _ (pending_rel hR).symm)

/-- **C34_nil_takes_nothing.**  A Pop (and PopWithTimer, which is Pop or a time-out) that
    returns nil has not changed the queue: it can report "nothing" only when nothing was taken. -/
theorem C34_nil_takes_nothing (s : State) (h : (pop s).1 = .none) : (pop s).2 = s := by
  unfold pop at h ⊢
  split
  · rfl
  · rename_i hne
    rw [if_neg hne] at h
    cases h

/-! ### TransactionState: RemoveExtrinsic takes the extrinsic out of pool AND queue -/

/-- the queue part is related to a spec list none of whose items has hash `h` -/
def QAbsent (h : Nat) (q : State) : Prop := ∃ t, Rel q t ∧ ∀ x ∈ t.items, x.hash ≠ h

theorem qabsent_facts {h : Nat} {q : State} (ha : QAbsent h q) :
    (¬ ∃ k, k < q.pq.len ∧ (q.pq.arr.get k).hash = h) ∧ q.txs.lookup h = none := by
  obtain ⟨t, hR, hno⟩ := ha
  constructor
  · rintro ⟨k, hk, hkh⟩
    exact hno _ ((hR.mem _).mpr ⟨k, hk, rfl⟩) hkh
  · cases hl : q.txs.lookup h with
    | none => rfl
    | some o =>
      obtain ⟨x, hx, hxh, _⟩ := (hR.txs h o).mp hl
      exact absurd hxh (hno x hx)

theorem lookup_poolDel (m : List (Nat × Nat)) (h : Nat) : (poolDel m h).lookup h = none := by
  unfold poolDel
  rw [lookup_filter_ne]; simp

/-- one TransactionState step that is not `push h _` keeps `h` out of the queue and does not
    yield it -/
theorem tsStep_absent {h : Nat} {ts : TS} (ha : QAbsent h ts.q) (op : TSOp)
    (hop : ∀ p, op ≠ .push h p) :
    QAbsent h (tsStep ts op).2.q ∧ (tsStep ts op).1 ≠ .tx h := by
  obtain ⟨t, hR, hno⟩ := ha
  cases op with
  | addPool h' p => exact ⟨⟨t, hR, hno⟩, by simp [tsStep]⟩
  | unpool h' => exact ⟨⟨t, hR, hno⟩, by simp [tsStep]⟩
  | rm h' =>
    have hr := remove_rel hR h'
    refine ⟨⟨_, hr.2, ?_⟩, ?_⟩
    · intro x hx
      simp only [sstep] at hx
      exact hno x (List.mem_filter.mp hx).1
    · show (removeExtrinsic ts.q h').1 ≠ .tx h
      rw [hr.1]; simp
  | push h' p =>
    have hne : h' ≠ h := fun e => hop p (by rw [e])
    have hr := push_rel hR h' p
    refine ⟨⟨_, hr.2, ?_⟩, ?_⟩
    · intro x hx
      simp only [sstep] at hx
      split at hx
      · exact hno x hx
      · rcases (mem_insertSorted _ x _).mp hx with rfl | hx'
        · exact hne
        · exact hno x hx'
    · show (push ts.q h' p).1 ≠ .tx h
      rw [hr.1]
      simp only [sstep]
      split <;> simp
  | pop =>
    have hr := pop_rel hR
    refine ⟨⟨_, hr.2, ?_⟩, ?_⟩
    · intro x hx
      simp only [sstep] at hx
      cases hit : t.items with
      | nil => rw [hit] at hx; simp only at hx; exact hno x (by rw [hit] at hx ⊢; exact hx)
      | cons y r =>
        rw [hit] at hx
        simp only at hx
        exact hno x (by rw [hit]; exact List.mem_cons_of_mem _ hx)
    · show (pop ts.q).1 ≠ .tx h
      rw [hr.1]
      simp only [sstep]
      cases hit : t.items with
      | nil => simp
      | cons y r =>
        simp only
        intro he
        have : y.hash = h := by simpa using he
        exact hno y (by rw [hit]; exact List.mem_cons_self) this
  | peek =>
    refine ⟨⟨t, hR, hno⟩, ?_⟩
    show peek ts.q ≠ .tx h
    rw [peek_rel hR]
    simp only [sstep]
    cases hit : t.items with
    | nil => simp
    | cons y r =>
      simp only
      intro he
      have : y.hash = h := by simpa using he
      exact hno y (by rw [hit]; exact List.mem_cons_self) this
  | exist h' => exact ⟨⟨t, hR, hno⟩, by simp [tsStep]⟩
  | pending => exact ⟨⟨t, hR, hno⟩, by simp [tsStep]⟩
  | pendingPool => exact ⟨⟨t, hR, hno⟩, by simp [tsStep]⟩

theorem tsRun_absent {h : Nat} (ops : List TSOp) (hno : ∀ p, TSOp.push h p ∉ ops) :
    ∀ {ts : TS}, QAbsent h ts.q → Out.tx h ∉ (tsRun ts ops).1 := by
  induction ops with
  | nil => intro ts _ hm; simp [tsRun] at hm
  | cons op ops ih =>
    intro ts ha hm
    have hs := tsStep_absent ha op (fun p e => hno p (by rw [e]; exact List.mem_cons_self))
    simp only [tsRun, List.mem_cons] at hm
    rcases hm with hm | hm
    · exact hs.2 hm.symm
    · exact ih (fun p hp => hno p (List.mem_cons_of_mem _ hp)) hs.1 hm

/-- every TransactionState reached from the initial one has a well-formed queue part -/
theorem tsRun_rel (ops : List TSOp) : ∀ {ts : TS}, (∃ t, Rel ts.q t) → ∃ t, Rel (tsRun ts ops).2.q t := by
  induction ops with
  | nil => intro ts h; exact h
  | cons op ops ih =>
    intro ts ⟨t, hR⟩
    apply ih
    cases op with
    | rm h => exact ⟨_, (remove_rel hR h).2⟩
    | push h p => exact ⟨_, (push_rel hR h p).2⟩
    | pop => exact ⟨_, (pop_rel hR).2⟩
    | addPool h p => exact ⟨t, hR⟩
    | unpool h => exact ⟨t, hR⟩
    | peek => exact ⟨t, hR⟩
    | exist h => exact ⟨t, hR⟩
    | pending => exact ⟨t, hR⟩
    | pendingPool => exact ⟨t, hR⟩

/-- **C34_state_remove_both.**  For every TransactionState reached by any operation sequence
    `ops1`: right after `RemoveExtrinsic(h)` the extrinsic is in neither container (not in the
    pool, in no slot of the ready queue, not in `txs`, `Exists` answers false), and whatever
    sequence `ops2` follows, as long as `h` is not pushed again, no Pop or Peek ever yields it. -/
theorem C34_state_remove_both (ops1 ops2 : List TSOp) (h : Nat) (hno : ∀ p, TSOp.push h p ∉ ops2) :
    let ts := (tsStep (tsRun TS.init ops1).2 (.rm h)).2
    ts.pool.lookup h = none ∧
    (¬ ∃ k, k < ts.q.pq.len ∧ (ts.q.pq.arr.get k).hash = h) ∧
    ts.q.txs.lookup h = none ∧
    (tsStep ts (.exist h)).1 = .bool false ∧
    Out.tx h ∉ (tsRun ts ops2).1 := by
  intro ts
  obtain ⟨t, hR⟩ := tsRun_rel ops1 (ts := TS.init) ⟨Spec.init, rel_init⟩
  have hr := remove_rel hR h
  have ha : QAbsent h ts.q := by
    refine ⟨_, hr.2, ?_⟩
    intro x hx
    simp only [sstep] at hx
    have := (List.mem_filter.mp hx).2
    simpa using this
  have hf := qabsent_facts ha
  have hp : ts.pool.lookup h = none := lookup_poolDel _ h
  refine ⟨hp, hf.1, hf.2, ?_, tsRun_absent ops2 hno ha⟩
  show Out.bool ((ts.pool.lookup h).isSome || (ts.q.txs.lookup h).isSome) = .bool false
  rw [hp, hf.2]; rfl

/-- non-vacuity: in pool and queue at once (promotion window), then removed -/
example : (tsRun TS.init [.addPool 1 7, .push 2 1, .push 1 7, .rm 1, .unpool 1, .exist 1, .peek, .pop, .pop]).1 =
    [.ok, .ok, .ok, .ok, .ok, .bool false, .tx 2, .tx 2, .none] := by decide

/-! ### concurrent part: lock tables + monitor theorem -/

def tablePQ : List Monitor.Method := (Monitor.ofTriples lockTablePQ).getD []
def tablePool : List Monitor.Method := (Monitor.ofTriples lockTablePool).getD []
def tableTS : List Monitor.Method := (Monitor.ofTriples lockTableTS).getD []

/-- **C34_race_free.**  Over the lock tables of PriorityQueue, Pool and TransactionState as
    transcribed when this file was written (informational: the check does NOT compare against
    them, it decides the tables it extracts from the three source files at run time with the
    same `Monitor.raceFree`): every method that writes guarded fields holds the exclusive lock and
    every method that reads them holds a lock, in one critical section; hence no two
    conflicting methods can be inside their critical sections together. -/
theorem C34_race_free :
    (tablePQ.length = 8 ∧ Monitor.disciplined tablePQ = true ∧ Monitor.raceFree tablePQ = true) ∧
    (tablePool.length = 5 ∧ Monitor.disciplined tablePool = true ∧ Monitor.raceFree tablePool = true) ∧
    (tableTS.length = 13 ∧ Monitor.disciplined tableTS = true ∧ Monitor.raceFree tableTS = true) := by
  decide

/-- the tables before the repairs (Exists without lock; Transactions reading the map size
    outside the lock, i.e. not one critical section) are rejected by the same check -/
theorem C34_race_free_counterexample :
    Monitor.raceFree [⟨"Exists", .none, .reads⟩, ⟨"Push", .lock, .writes⟩] = false ∧
    Monitor.Method.parse? "Transactions" ["split", "none", "reads", "RLock", "reads"]
      = some ⟨"Transactions", .none, .reads⟩ ∧
    Monitor.raceFree [⟨"Insert", .lock, .writes⟩, ⟨"Transactions", .none, .reads⟩] = false := by
  decide

def Op.method : Op → String
  | .push _ _ => "Push" | .pop => "Pop" | .peek => "Peek" | .remove _ => "RemoveExtrinsic"
  | .exist _ => "Exists" | .pending => "Pending" | .len => "Len"

/-- the methods that modify the queue -/
def Op.writes : Op → Bool
  | .push _ _ => true | .pop => true | .remove _ => true
  | .peek => false | .exist _ => false | .pending => false | .len => false

theorem step_pure (s : State) (op : Op) (h : op.writes = false) : (step s op).2 = s := by
  cases op <;> first | rfl | cases h

/-- an invocation of a queue method under lock table `t` (any table the harness may extract):
    it takes the lock the table assigns to its method and runs its body -/
def invOf (t : List Monitor.Method) (op : Op) : Monitor.Inv State Out :=
  { mode := Monitor.modeIn t op.method, body := [fun s _ => ((step s op).2, (step s op).1)], init := .ok }

/-- what the lock-table check establishes for a PriorityQueue table: it is race free, and the
    extractor classifies the modifying methods as writers of the guarded fields -/
structure GoodTable (t : List Monitor.Method) : Prop where
  raceFree : Monitor.raceFree t = true
  writers : ∀ op : Op, op.writes = true → Monitor.accessIn t op.method = .writes

/-- today's table is one such table; so is the same table with the pure readers under RLock
    (sync.RWMutex): the check decides the table extracted at run time, whichever it is -/
theorem goodTable_today : GoodTable tablePQ := by
  refine ⟨by decide, ?_⟩
  intro op h
  cases op with
  | push a b => show Monitor.accessIn _ "Push" = .writes; decide
  | pop => show Monitor.accessIn _ "Pop" = .writes; decide
  | remove a => show Monitor.accessIn _ "RemoveExtrinsic" = .writes; decide
  | peek => cases h
  | exist a => cases h
  | pending => cases h
  | len => cases h

theorem goodTable_rwmutex : GoodTable
    [⟨"Exists", .rlock, .reads⟩, ⟨"Len", .rlock, .reads⟩, ⟨"Peek", .rlock, .reads⟩,
     ⟨"Pending", .rlock, .reads⟩, ⟨"Pop", .lock, .writes⟩, ⟨"PopWithTimer", .none, .pure⟩,
     ⟨"Push", .lock, .writes⟩, ⟨"RemoveExtrinsic", .lock, .writes⟩] := by
  refine ⟨by decide, ?_⟩
  intro op h
  cases op with
  | push a b => show Monitor.accessIn _ "Push" = .writes; decide
  | pop => show Monitor.accessIn _ "Pop" = .writes; decide
  | remove a => show Monitor.accessIn _ "RemoveExtrinsic" = .writes; decide
  | peek => cases h
  | exist a => cases h
  | pending => cases h
  | len => cases h

/-- check-then-act Push (duplicate check under RLock, insertion under Lock: two critical
    sections) is parsed as an unlocked writer and rejected -/
theorem C34_check_then_act_rejected :
    Monitor.Method.parse? "Push" ["split", "RLock", "reads", "Lock", "writes"] = some ⟨"Push", .none, .writes⟩ ∧
    Monitor.raceFree [⟨"Exists", .rlock, .reads⟩, ⟨"Pop", .lock, .writes⟩, ⟨"Push", .none, .writes⟩] = false := by
  decide

theorem readersPure {t : List Monitor.Method} (ht : GoodTable t) (calls : Nat → Op) :
    Monitor.ReadersPure (fun i => invOf t (calls i)) := by
  intro i hr f hf s l
  cases hw : (calls i).writes with
  | true =>
    have : (invOf t (calls i)).mode = .lock := Monitor.modeIn_lock ht.raceFree (ht.writers _ hw)
    rw [this] at hr; cases hr
  | false =>
    have hf' : f = fun s _ => ((step s (calls i)).2, (step s (calls i)).1) := by
      simpa [invOf] using hf
    subst hf'
    exact step_pure s (calls i) hw

theorem seqRun_invOf (t : List Monitor.Method) (calls : Nat → Op) (order : List Nat) : ∀ s : State,
    Monitor.seqRun (fun i => invOf t (calls i)) s order =
      ((run s (order.map calls)).2, order.zip (run s (order.map calls)).1) := by
  induction order with
  | nil => intro s; rfl
  | cons i is ih =>
    intro s
    simp only [Monitor.seqRun, List.map_cons, run, List.zip_cons_cons]
    have hb : Monitor.runBody (invOf t (calls i)).body s (invOf t (calls i)).init =
        ((step s (calls i)).2, (step s (calls i)).1) := rfl
    rw [hb, ih]

/-- **C34_linearizable.**  For ANY lock table `t` that the check accepts (race free, modifying
    methods classified as writers — e.g. today's sync.Mutex table, or pure readers under RLock of
    a sync.RWMutex): any number of goroutines invoke Push / Pop / Peek / RemoveExtrinsic /
    Exists / Pending / Len (`calls i` is the i-th invocation) on a fresh queue; each invocation
    acquires the lock the table assigns to its method, runs, releases; acquisitions obey the
    reader/writer lock rules (readers may overlap); the interleaving is otherwise arbitrary.
    Whenever no invocation is in progress, the queue state and the result of every invocation
    are those of the sequential model run in release order, hence (C34_refines) those of the
    sorted-list specification.  Release order extends real-time order. -/
theorem C34_linearizable (t : List Monitor.Method) (ht : GoodTable t)
    (calls : Nat → Op) (es : List Monitor.Ev) (c : Monitor.Cfg State Out)
    (hs : Monitor.Steps (fun i => invOf t (calls i)) (Monitor.Cfg.init State.init) es c)
    (hq : ∀ j, c.fl j = none) :
    let order := c.log.reverse.map (·.1)
    c.shared = reach (order.map calls) ∧
    c.log.reverse = order.zip (run State.init (order.map calls)).1 ∧
    OutsRel (run State.init (order.map calls)).1 (srun Spec.init (order.map calls)).1 ∧
    Rel c.shared (srun Spec.init (order.map calls)).2 := by
  intro order
  have h := Monitor.linearizable _ (readersPure ht calls) State.init es c hs hq
  rw [seqRun_invOf] at h
  have h1 : (run State.init (order.map calls)).2 = c.shared := congrArg Prod.fst h
  have h2 : order.zip (run State.init (order.map calls)).1 = c.log.reverse := congrArg Prod.snd h
  have hr := C34_refines (order.map calls)
  exact ⟨h1.symm, h2.symm, hr.1, by rw [← h1]; exact hr.2⟩

/-- under any accepted table, two invocations inside the queue at the same time are both
    non-modifying (a modifying method is always alone inside) -/
theorem C34_mutual_exclusion (t : List Monitor.Method) (ht : GoodTable t)
    (calls : Nat → Op) (es : List Monitor.Ev) (c : Monitor.Cfg State Out)
    (hs : Monitor.Steps (fun i => invOf t (calls i)) (Monitor.Cfg.init State.init) es c)
    (i j : Nat) (hi : c.fl i ≠ none) (hj : c.fl j ≠ none) (hij : i ≠ j) :
    (calls i).writes = false ∧ (calls j).writes = false := by
  have h := Monitor.no_conflict _ (readersPure ht calls) State.init es c hs i j hi hj hij
  constructor
  · cases hw : (calls i).writes with
    | false => rfl
    | true =>
      have : (invOf t (calls i)).mode = .lock := Monitor.modeIn_lock ht.raceFree (ht.writers _ hw)
      rw [this] at h; cases h.1
  · cases hw : (calls j).writes with
    | false => rfl
    | true =>
      have : (invOf t (calls j)).mode = .lock := Monitor.modeIn_lock ht.raceFree (ht.writers _ hw)
      rw [this] at h; cases h.2

/-- non-vacuity of the hypotheses of C34_linearizable: a Push can run alone to completion -/
example : ∃ c, Monitor.Steps (fun i => invOf tablePQ ((fun _ => Op.push 1 5) i)) (Monitor.Cfg.init State.init)
    [.acq 0, .step 0, .rel 0] c ∧ (∀ j, c.fl j = none) := by
  obtain ⟨c, h1, h2, _⟩ := Monitor.solo_one (fun i => invOf tablePQ ((fun _ => Op.push 1 5) i)) 0 _ rfl
    (by
      have : (invOf tablePQ (Op.push 1 5)).mode = .lock :=
        Monitor.modeIn_lock goodTable_today.raceFree (goodTable_today.writers (Op.push 1 5) rfl)
      rw [this]; simp) State.init
  exact ⟨c, h1, h2⟩

end Gossamer.C34
