import Gossamer.Model.C34
import Gossamer.Lib.Monitor
namespace Gossamer.C34
end Gossamer.C34
