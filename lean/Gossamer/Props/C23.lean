/-
Property C23: authority set changes are applied as Substrate applies them.

Model      : Gossamer/Model/C23.lean  (dot/state/grandpa.go, grandpa_changes.go, dot/digest/block_import.go,
             dot/core/service.go handleBlock, the finalisation handler of dot/digest/digest.go)
Spec       : Gossamer/Lib/C23Spec.lean (Substrate `AuthoritySet` rules over the block tree)
Proofs     : Gossamer/Lib/C23{Tree,Keys,Inv,Forced,Sched,Fin,SimBase,Sim,Refine,Next}.lean

`run t St.init ops` is the model after the history `ops` (`imp b` / `fin b`) on the case tree `t`.
-/
import Gossamer.Lib.C23Next
namespace Gossamer.C23

/-! ## C23_refines — the model equals the specification on every history in scope

Scope (`Scoped`): every `imp` names a block that is not in the block tree at that moment (each block is imported
once), headers carry at most one scheduled and one forced change, and no import is refused by the code with
`errAlreadyHasForcedChange` / `errPendingScheduledChanges` (after such a refusal gossamer keeps the block, Substrate
does not: known finding `failed-import-keeps-block`, see `C23_refused_import_counterexample`).
Every prefix of a history in scope is in scope, so the statement covers the state after every operation. -/

/-- After every history in scope: the same result class for every operation, the same current set id, the
    same authorities and change block for every set, the same answer of `GetSetIDByBlockNumber` for every
    block number, and the same block tree (known blocks and finalised block). -/
theorem C23_refines (t : Tree) (wf : t.WF) (ops : List Op) (h : Scoped t St.init ops) :
    trace t St.init ops = Spec.trace t Spec.init ops ∧
    (run t St.init ops).setId = (Spec.run t Spec.init ops).setId ∧
    (∀ i, i ≤ (run t St.init ops).setId →
      lookup (run t St.init ops).auths i = (Spec.run t Spec.init ops).auths[i]? ∧
      lookup (run t St.init ops).change i = (Spec.run t Spec.init ops).starts[i]?) ∧
    (∀ n, setIdAt (run t St.init ops) n = some ((Spec.run t Spec.init ops).setIdAt n)) ∧
    (run t St.init ops).live = (Spec.run t Spec.init ops).known ∧
    (run t St.init ops).root = (Spec.run t Spec.init ops).fin := by
  have hsim := sim_run wf ops St.init Spec.init (sim_init t) (inv_init wf) h
  have hinv := inv_run wf ops St.init (inv_init wf) (scoped_fresh ops _ h)
  refine ⟨hsim.1.symm, hsim.2.setId.symm, fun i hi => ⟨hsim.2.auths i hi, hsim.2.starts i hi⟩,
    fun n => sim_setIdAt hsim.2 hinv.keys n, hsim.2.live.symm, hsim.2.root.symm⟩

/-- The pending changes agree as well: the forced changes as a multiset, the scheduled-change tree up to
    roots whose announcing block the block state no longer knows (they can never be selected again). -/
theorem C23_refines_pending (t : Tree) (wf : t.WF) (ops : List Op) (h : Scoped t St.init ops) :
    (run t St.init ops).forced.Perm (Spec.run t Spec.init ops).forced ∧
    (Spec.run t Spec.init ops).std =
      (run t St.init ops).roots.filter (fun r => (run t St.init ops).live.contains r.ann.blk) := by
  have hsim := sim_run wf ops St.init Spec.init (sim_init t) (inv_init wf) h
  exact ⟨hsim.2.forced, hsim.2.std⟩

/-- `NextGrandpaAuthorityChange`, asked for any block of the block tree after any history in scope, is the lowest
    effective number (not above the block's number) of a pending forced change or scheduled-change root
    announced on the block's chain, as the specification defines it (0 = `ErrNoNextAuthorityChange`). -/
theorem C23_refines_next (t : Tree) (wf : t.WF) (ops : List Op) (h : Scoped t St.init ops) (x : Nat)
    (hx : inBt t (run t St.init ops) x = true) :
    nextChange t (run t St.init ops) x = some ((Spec.run t Spec.init ops).nextChange t x) := by
  have h3 := sim_run_next wf ops St.init Spec.init (sim_init t) (inv_init wf) (nInv_init t) h
  exact nextChange_eq wf h3.1 h3.2.1 h3.2.2 x hx

/-- a history in scope that enacts a scheduled change on one fork after abandoning the other, and a forced
    change (the hypotheses of `C23_refines` are satisfiable on a non-trivial history) -/
def exTree : Tree :=
  { parents := [0, 0, 2, 3, 4],
    anns := [⟨1, false, 0, 1, 0⟩, ⟨2, false, 1, 2, 0⟩, ⟨4, true, 1, 3, 3⟩] }

def exOps : List Op := [.imp 1, .imp 2, .imp 3, .fin 3, .imp 4, .imp 5]

example : exTree.WF := by decide
example : Scoped exTree St.init exOps := by decide
example : (run exTree St.init exOps).setId = 2 := by decide
example : trace exTree St.init exOps = [.ok, .ok, .ok, .ok, .ok, .ok] := by decide
example : nextChange exTree (run exTree St.init (exOps.take 3)) 3 = some 2 := by decide

/-- why refused imports are outside `C23_refines`: the import of block 3 is refused (its forced change depends
    on the pending scheduled change of block 1), Substrate drops the block, the code keeps it in the tree -/
theorem C23_refused_import_counterexample :
    let t : Tree := { parents := [0, 1, 2], anns := [⟨1, false, 0, 1, 0⟩, ⟨2, true, 1, 2, 1⟩] }
    let ops : List Op := [.imp 1, .imp 2, .imp 3]
    trace t St.init ops = [.ok, .ok, .eForced .pending] ∧
    Spec.trace t Spec.init ops = [.ok, .ok, .eForced .pending] ∧
    (run t St.init ops).live = [0, 1, 2, 3] ∧ (Spec.run t Spec.init ops).known = [0, 1, 2] := by
  decide

/-! ## C23_setid_increments -/

/-- One operation leaves the set id alone or increases it by exactly one; in the latter case exactly the
    entries of the new set are written, and the entries of all earlier sets are never rewritten. -/
theorem C23_setid_increments (t : Tree) (s : St) (op : Op) (hk : KeysOK s) :
    ((step t s op).1.setId = s.setId ∨ (step t s op).1.setId = s.setId + 1) ∧
    (∀ i, i ≤ s.setId → lookup (step t s op).1.auths i = lookup s.auths i ∧
      lookup (step t s op).1.change i = lookup s.change i) ∧
    KeysOK (step t s op).1 := by
  refine ⟨?_, fun i hi => step_keeps t s op hk i hi, keysOK_step t s op hk⟩
  cases step_core t s op with
  | same h1 _ _ => exact Or.inl h1
  | next _ _ h1 _ _ => exact Or.inr h1

/-- After every history whatsoever the tables hold authorities and a change block for exactly the set ids
    `0 .. current`. -/
theorem C23_sets_contiguous (t : Tree) (ops : List Op) : KeysOK (run t St.init ops) :=
  keysOK_run t ops St.init keysOK_init

/-- `GetSetIDByBlockNumber`, after every history whatsoever: the latest set whose change block lies below
    the block number (set 0 if none). -/
theorem C23_setIdAt (t : Tree) (ops : List Op) (n : Nat) :
    setIdAt (run t St.init ops) n =
      some (topBelow (fun i => (lookup (run t St.init ops).change i).getD 0) n (run t St.init ops).setId) :=
  setIdAt_eq _ (C23_sets_contiguous t ops) n

/-! ## C23_one_forced_per_fork -/

/-- After every history in which each block is imported once: the pending forced changes are announced by
    nodes of the current block tree and no two of them by blocks related by ancestry. -/
theorem C23_one_forced_per_fork (t : Tree) (wf : t.WF) (ops : List Op) (h : Fresh t St.init ops) :
    (∀ c ∈ (run t St.init ops).forced, inBt t (run t St.init ops) c.blk = true) ∧
    (run t St.init ops).forced.Pairwise (fun a c => anc t a.blk c.blk = false ∧ anc t c.blk a.blk = false) :=
  fInv_run wf ops St.init (liveInv_init wf) (fInv_init t) h

/-- `handleBlock` tolerates the re-import of a block that is in the tree; then the claim fails: block 1's forced
    change is enacted at block 2, block 3 announces a forced change, block 1 is imported again and announces
    its own once more: two forced changes are pending on one fork (and `NextGrandpaAuthorityChange` reports the
    enacted one again) -/
theorem C23_reimport_counterexample :
    let t : Tree := { parents := [0, 1, 2], anns := [⟨1, true, 1, 1, 0⟩, ⟨3, true, 3, 2, 0⟩] }
    let s := run t St.init [.imp 1, .imp 2, .imp 3, .imp 1]
    s.setId = 1 ∧ s.forced.map (·.blk) = [1, 3] ∧ anc t 1 3 = true ∧
    ¬ Fresh t St.init [.imp 1, .imp 2, .imp 3, .imp 1] := by
  decide

/-! ## C23_abandoned_discarded -/

/-- After every history in which each block is imported once, every block that announces a tracked pending
    change is either known to the block state, or on a fork abandoned by finalisation — and then no block of
    the block tree is related to it, so no lookup selects it (`isDesc` answers `false` both ways).
    Forced changes are always of the first kind (`C23_one_forced_per_fork`). -/
theorem C23_abandoned_discarded (t : Tree) (wf : t.WF) (ops : List Op) (h : Fresh t St.init ops) :
    ∀ x ∈ blocksF (run t St.init ops).roots,
      x ∈ (run t St.init ops).live ∨
      (∀ y, inBt t (run t St.init ops) y = true →
        isDesc t (run t St.init ops) x y = some false ∧ isDesc t (run t St.init ops) y x = some false) := by
  intro x hx
  have hl := liveInv_run wf ops St.init (liveInv_init wf)
  have hr := rInv_run wf ops St.init (liveInv_init wf) (rInv_init t) h
  by_cases hxl : x ∈ (run t St.init ops).live
  · exact Or.inl hxl
  · right
    intro y hy
    have hy' := (inBt_iff t _ y).1 hy
    have hne : x ≠ y := fun e => hxl (e ▸ hy'.1)
    exact ⟨isDesc_dead (Or.inl hxl) hne, isDesc_dead (Or.inr hxl) (Ne.symm hne)⟩

/-- In the specification a finalisation keeps only pending changes announced on the finalised chain or below
    the finalised block. -/
theorem C23_spec_abandoned_discarded (t : Tree) (p : Spec) (b : Nat) (h : (p.finalise t b).2 ≠ .eFin) :
    (∀ f ∈ (p.finalise t b).1.forced, anc t b f.blk = true) ∧
    (∀ r ∈ (p.finalise t b).1.std, cmp t b r.ann.blk = true) := by
  unfold Spec.finalise at h ⊢
  by_cases hc : (!(p.known.contains b && anc t p.fin b)) = true
  · rw [if_pos hc] at h; exact absurd rfl h
  · rw [if_neg hc]
    dsimp only
    split
    · split
      · constructor
        · intro f hf; simp only [List.mem_filter] at hf; exact hf.2
        · intro r hr; simp only [List.mem_filter] at hr; exact hr.2
      · constructor
        · intro f hf; simp only [Spec.enact, List.mem_filter] at hf; exact hf.2
        · intro r hr; simp only [Spec.enact, List.mem_filter] at hr; exact hr.2
    · constructor
      · intro f hf; simp only [List.mem_filter] at hf; exact hf.2
      · intro r hr; simp only [List.mem_filter] at hr; exact hr.2

/-! ## C23_scheduled_applies_on_own_fork / forced changes at their effective block (what the specification
    demands; `C23_refines` carries it to the model) -/

/-- A finalisation of `b` enacts at most one change: a root of the standard-change tree announced on the chain
    of `b` whose effective number is not above the number of `b`; the outgoing set ends at `b`'s number. -/
theorem C23_scheduled_applies_on_own_fork (t : Tree) (p : Spec) (b : Nat) :
    ((p.finalise t b).1.setId = p.setId ∧ (p.finalise t b).1.auths = p.auths ∧ (p.finalise t b).1.starts = p.starts) ∨
    (∃ r ∈ p.std, anc t r.ann.blk b = true ∧ eff t r.ann ≤ num t b ∧
      (p.finalise t b).1.setId = p.setId + 1 ∧ (p.finalise t b).1.auths = p.auths ++ [r.ann.tag] ∧
      (p.finalise t b).1.starts = p.starts ++ [num t b]) := by
  unfold Spec.finalise
  split
  · exact Or.inl ⟨rfl, rfl, rfl⟩
  · dsimp only
    split
    · rename_i r hr
      split
      · exact Or.inl ⟨rfl, rfl, rfl⟩
      · right
        have hP := List.find?_some hr
        simp only [Bool.and_eq_true, decide_eq_true_eq] at hP
        exact ⟨r, List.mem_of_find?_eq_some hr, hP.2, hP.1, rfl, rfl, rfl⟩
    · exact Or.inl ⟨rfl, rfl, rfl⟩

/-- An import of `b` enacts at most one change: a pending (or just announced) forced change announced on the
    chain of `b` whose effective number is the number of `b`; the outgoing set ends at the change's best
    finalized number and every pending change is dropped. -/
theorem C23_forced_applies_at_effective_block (t : Tree) (p : Spec) (b : Nat) :
    ((p.importBlock t b).1.setId = p.setId ∧ (p.importBlock t b).1.auths = p.auths ∧
      (p.importBlock t b).1.starts = p.starts) ∨
    (∃ f, (f ∈ p.forced ∨ signalled t b = some f) ∧ anc t f.blk b = true ∧ eff t f = num t b ∧
      (p.importBlock t b).1.setId = p.setId + 1 ∧ (p.importBlock t b).1.auths = p.auths ++ [f.tag] ∧
      (p.importBlock t b).1.starts = p.starts ++ [f.best] ∧
      (p.importBlock t b).1.forced = [] ∧ (p.importBlock t b).1.std = []) := by
  unfold Spec.importBlock
  split
  · exact Or.inl ⟨rfl, rfl, rfl⟩
  · cases hadd : p.addChange t b with
    | error e => exact Or.inl ⟨rfl, rfl, rfl⟩
    | ok p1 =>
      -- what `addChange` may have done
      have hp1 : p1.setId = p.setId ∧ p1.auths = p.auths ∧ p1.starts = p.starts ∧
          (∀ f ∈ p1.forced, f ∈ p.forced ∨ signalled t b = some f) := by
        unfold Spec.addChange at hadd
        split at hadd
        · simp only [Except.ok.injEq] at hadd; subst hadd
          exact ⟨rfl, rfl, rfl, fun f hf => Or.inl hf⟩
        · rename_i c hc
          split at hadd
          · split at hadd
            · exact absurd hadd (by simp)
            · simp only [Except.ok.injEq] at hadd; subst hadd
              refine ⟨rfl, rfl, rfl, fun f hf => ?_⟩
              simp only [List.mem_append, List.mem_singleton] at hf
              rcases hf with hf | hf
              · exact Or.inl hf
              · exact Or.inr (hf ▸ hc)
          · simp only [Except.ok.injEq] at hadd; subst hadd
            exact ⟨rfl, rfl, rfl, fun f hf => Or.inl hf⟩
      simp only
      unfold Spec.enactForced
      split
      · exact Or.inl ⟨hp1.1, hp1.2.1, hp1.2.2.1⟩
      · rename_i f hf
        split
        · exact Or.inl ⟨rfl, rfl, rfl⟩
        · right
          have hP := List.find?_some hf
          simp only [Bool.and_eq_true, decide_eq_true_eq] at hP
          refine ⟨f, hp1.2.2.2 f (List.mem_of_find?_eq_some hf), hP.1, hP.2, ?_, ?_, ?_, rfl, rfl⟩
          · simp [Spec.enact, hp1.1]
          · simp [Spec.enact, hp1.2.1]
          · simp [Spec.enact, hp1.2.2.1]

/-- A forced change announced with delay 0 is enacted by the import of its own announcing block: the block's
    announcement is registered first (`add_pending_change`, `HandleDigests`) and then found by the forced-change
    application of the same import.  Hypotheses: the block is accepted, no forced change is pending on its
    chain, no pending standard change is a dependency. -/
theorem C23_forced_delay0_applies_at_own_block (t : Tree) (wf : t.WF) (p : Spec) (b : Nat) (f : Ann)
    (hsig : signalled t b = some f) (hf : f.forced = true) (hd : f.delay = 0)
    (hpar : (p.known.contains (par t b) && anc t p.fin (par t b)) = true)
    (hno : p.forced.any (fun g => anc t g.blk b) = false)
    (hdep : p.std.any (fun r => decide (eff t r.ann ≤ f.best) && anc t r.ann.blk f.blk) = false) :
    (p.importBlock t b).2 = .ok ∧ (p.importBlock t b).1.setId = p.setId + 1 ∧
    (p.importBlock t b).1.auths = p.auths ++ [f.tag] ∧ (p.importBlock t b).1.starts = p.starts ++ [f.best] ∧
    (p.importBlock t b).1.forced = [] ∧ (p.importBlock t b).1.std = [] := by
  have hb := signalled_blk t b f hsig
  have hfind : (p.forced ++ [f]).find? (fun g => anc t g.blk b && decide (eff t g = num t b)) = some f := by
    rw [List.find?_append]
    have : p.forced.find? (fun g => anc t g.blk b && decide (eff t g = num t b)) = none := by
      rw [List.find?_eq_none]
      intro g hg
      rw [List.any_eq_false] at hno
      have := hno g hg
      simp [this]
    rw [this]
    simp [List.find?, hb, anc_refl wf, eff, hd]
  unfold Spec.importBlock
  simp only [hpar, Bool.not_true, Bool.false_eq_true, if_false]
  unfold Spec.addChange
  simp only [hsig, hf, if_true, hno, Bool.false_eq_true, if_false]
  unfold Spec.enactForced
  simp only [hfind, hdep, Bool.false_eq_true, if_false, Spec.enact]
  exact ⟨trivial, trivial, trivial, trivial, trivial, trivial⟩

/-- the same on the model (the composition `handleBlock` performs: AddBlock, HandleDigests, ApplyForcedChanges):
    block 2 announces a forced change with delay 0 and its own import enacts it; and a block that enacts a forced
    change while announcing a scheduled change loses that announcement with the old set -/
example :
    let t : Tree := { parents := [0, 1], anns := [⟨2, true, 0, 7, 1⟩] }
    (run t St.init [.imp 1, .imp 2]).setId = 1 ∧ lookup (run t St.init [.imp 1, .imp 2]).auths 1 = some 7 ∧
    lookup (run t St.init [.imp 1, .imp 2]).change 1 = some 1 ∧ (run t St.init [.imp 1, .imp 2]).forced = [] := by
  decide

example :
    let t : Tree := { parents := [0, 1, 2], anns := [⟨1, true, 1, 7, 0⟩, ⟨2, false, 1, 8, 0⟩] }
    let s := run t St.init [.imp 1, .imp 2, .imp 3, .fin 3]
    s.setId = 1 ∧ s.roots.length = 0 ∧ Scoped t St.init [.imp 1, .imp 2, .imp 3, .fin 3] := by
  decide

end Gossamer.C23
