import Gossamer.Model.C23
import Gossamer.Lib.C23Spec
namespace Gossamer.C23

theorem C23_startNext_setId (s : St) (tag n : Nat) : (startNext s tag n).setId = s.setId + 1 := rfl

end Gossamer.C23
