import Gossamer.Model.C30
namespace Gossamer.C30
set_option linter.unusedSimpArgs false
variable {n : Nat}

theorem countP_point {α : Type} [DecidableEq α] (l : List α) (hnd : l.Nodup) (f g : α → Bool) (p : α)
    (hp : p ∈ l) (h : ∀ q, q ≠ p → g q = f q) :
    l.countP g + (f p).toNat = l.countP f + (g p).toNat := by
  induction l with
  | nil => cases hp
  | cons a l ih =>
    rw [List.nodup_cons] at hnd
    simp only [List.countP_cons]
    by_cases hap : a = p
    · subst hap
      have e : l.countP g = l.countP f := by
        apply List.countP_congr
        intro q hq
        rw [h q (fun e => hnd.1 (e ▸ hq))]
      rw [e]
      cases f a <;> cases g a <;> simp <;> omega
    · have hp' : p ∈ l := by
        cases hp with
        | head => exact absurd rfl hap
        | tail _ h' => exact h'
      have := ih hnd.2 hp'
      rw [h a hap]
      omega

@[simp] theorem MS.beq_eq (a b : MS) : (a == b) = decide (a = b) := by
  cases a <;> cases b <;> rfl

/-- the peer population fits the uint32 counters -/
def Fits (n : Nat) : Prop := n ≤ 4294967295

/-- nodes and no-slot membership agree away from `p` -/
def SameExcept (s s' : PS n) (p : Fin n) : Prop :=
  ∀ q, q ≠ p → s'.nodes q = s.nodes q ∧ s'.noSlot q = s.noSlot q

theorem cntIn_le (s : PS n) : cntIn s ≤ n := by
  unfold cntIn allPeers
  have := List.countP_le_length (p := isInSlot s) (l := List.finRange n)
  simpa using this

theorem cntOut_le (s : PS n) : cntOut s ≤ n := by
  unfold cntOut allPeers
  have := List.countP_le_length (p := isOutSlot s) (l := List.finRange n)
  simpa using this

theorem cntIn_point (s s' : PS n) (p : Fin n) (h : SameExcept s s' p) :
    cntIn s' + (isInSlot s p).toNat = cntIn s + (isInSlot s' p).toNat := by
  unfold cntIn allPeers
  apply countP_point _ (List.nodup_finRange n) _ _ p (List.mem_finRange p)
  intro q hq
  unfold isInSlot
  rw [(h q hq).1, (h q hq).2]

theorem cntOut_point (s s' : PS n) (p : Fin n) (h : SameExcept s s' p) :
    cntOut s' + (isOutSlot s p).toNat = cntOut s + (isOutSlot s' p).toNat := by
  unfold cntOut allPeers
  apply countP_point _ (List.nodup_finRange n) _ _ p (List.mem_finRange p)
  intro q hq
  unfold isOutSlot
  rw [(h q hq).1, (h q hq).2]

def InRange (r : Int) : Prop := minI32 ≤ r ∧ r ≤ maxI32

/-- the invariant of every reachable state -/
structure Inv (s : PS n) : Prop where
  cin : s.numIn = cntIn s
  cout : s.numOut = cntOut s
  noban : ∀ p nd, s.nodes p = some nd → nd.st.connected = true → bannedThreshold ≤ nd.rep
  range : ∀ p nd, s.nodes p = some nd → InRange nd.rep
  resNoSlot : ∀ p, s.reserved p = true → s.noSlot p = true

/-- the invariant with the ban clause suspended for peer `x` (between a reputation change and the
    disconnect that follows it) -/
structure InvW (s : PS n) (x : Fin n) : Prop where
  cin : s.numIn = cntIn s
  cout : s.numOut = cntOut s
  noban : ∀ p nd, p ≠ x → s.nodes p = some nd → nd.st.connected = true → bannedThreshold ≤ nd.rep
  range : ∀ p nd, s.nodes p = some nd → InRange nd.rep
  resNoSlot : ∀ p, s.reserved p = true → s.noSlot p = true

theorem Inv.toW {s : PS n} (h : Inv s) (x : Fin n) : InvW s x :=
  ⟨h.cin, h.cout, fun p nd _ => h.noban p nd, h.range, h.resNoSlot⟩

/-- how a counter must move when the slot-occupancy of one peer goes from `b` to `b'` -/
def ctrUpd (old : Nat) (b b' : Bool) : Nat :=
  if b = b' then old else if b' then inc32 old else dec32 old

theorem ctr_ok (hn : Fits n) (c c' : Nat) (b b' : Bool) (h : c' + b.toNat = c + b'.toNat)
    (hc' : c' ≤ n) (_hc : c ≤ n) : ctrUpd c b b' = c' := by
  unfold Fits at hn
  unfold ctrUpd inc32 dec32
  cases b <;> cases b' <;> simp at * <;> (try split) <;> omega

theorem InvW.toInv {s : PS n} {x : Fin n} (h : InvW s x)
    (hx : ∀ nd, s.nodes x = some nd → nd.st.connected = true → bannedThreshold ≤ nd.rep) : Inv s := by
  refine ⟨h.cin, h.cout, ?_, h.range, h.resNoSlot⟩
  intro p nd hp hc
  by_cases e : p = x
  · subst e; exact hx nd hp hc
  · exact h.noban p nd e hp hc

/-- a state change confined to one peer preserves the invariant when the counters follow the
    peer's slot occupancy and the peer's new node is admissible -/
theorem invW_point (hn : Fits n) (s s' : PS n) (p : Fin n) (hI : InvW s p)
    (hframe : SameExcept s s' p)
    (hres : ∀ q, s'.reserved q = true → s'.noSlot q = true)
    (hin : s'.numIn = ctrUpd s.numIn (isInSlot s p) (isInSlot s' p))
    (hout : s'.numOut = ctrUpd s.numOut (isOutSlot s p) (isOutSlot s' p))
    (hp : ∀ nd, s'.nodes p = some nd → InRange nd.rep) :
    InvW s' p := by
  constructor
  · rw [hin, hI.cin]
    exact ctr_ok hn _ _ _ _ (cntIn_point s s' p hframe) (cntIn_le _) (cntIn_le _)
  · rw [hout, hI.cout]
    exact ctr_ok hn _ _ _ _ (cntOut_point s s' p hframe) (cntOut_le _) (cntOut_le _)
  · intro q nd e hq hc
    rw [(hframe q e).1] at hq; exact hI.noban q nd e hq hc
  · intro q nd hq
    by_cases e : q = p
    · subst e; exact hp nd hq
    · rw [(hframe q e).1] at hq; exact hI.range q nd hq
  · exact hres

theorem inv_point (hn : Fits n) (s s' : PS n) (p : Fin n) (hI : InvW s p)
    (hframe : SameExcept s s' p)
    (hres : ∀ q, s'.reserved q = true → s'.noSlot q = true)
    (hin : s'.numIn = ctrUpd s.numIn (isInSlot s p) (isInSlot s' p))
    (hout : s'.numOut = ctrUpd s.numOut (isOutSlot s p) (isOutSlot s' p))
    (hp : ∀ nd, s'.nodes p = some nd → InRange nd.rep ∧ (nd.st.connected = true → bannedThreshold ≤ nd.rep)) :
    Inv s' :=
  (invW_point hn s s' p hI hframe hres hin hout (fun nd h => (hp nd h).1)).toInv (fun nd h => (hp nd h).2)

theorem upd_same {α : Type} (f : Fin n → α) (p : Fin n) (v : α) : upd f p v p = v := by simp [upd]
theorem upd_other {α : Type} (f : Fin n → α) (p q : Fin n) (v : α) (h : q ≠ p) : upd f p v q = f q := by
  simp [upd, h]

theorem thr_neg : bannedThreshold ≤ 0 := by decide
theorem thr_val : bannedThreshold = -1760936552 := by decide

theorem addI_range (r v : Int) (h : InRange r) : InRange (addI r v) := by
  unfold InRange addI minI32 maxI32 at *
  split <;> split <;> omega

theorem subI_range (r v : Int) (h : InRange r) : InRange (subI r v) := by
  unfold InRange subI minI32 maxI32 at *
  split <;> split <;> omega

theorem tickI_range (r : Int) (h : InRange r) : InRange (tickI r) := subI_range _ _ h

theorem tickI_thr (r : Int) (h : InRange r) (ht : bannedThreshold ≤ r) : bannedThreshold ≤ tickI r := by
  rw [thr_val] at *
  unfold InRange minI32 maxI32 at h
  unfold tickI subI goDiv50 minI32 maxI32
  simp only []
  split <;> split <;> split <;> (try split) <;> (try split) <;> omega


/-! ### the primitives of peerstate.go preserve the invariant -/

theorem inv_congr (s s' : PS n) (hI : Inv s) (h1 : s'.nodes = s.nodes) (h2 : s'.noSlot = s.noSlot)
    (h3 : s'.numIn = s.numIn) (h4 : s'.numOut = s.numOut)
    (h5 : ∀ q, s'.reserved q = true → s.reserved q = true) : Inv s' := by
  have e1 : cntIn s' = cntIn s := by unfold cntIn isInSlot; rw [h1, h2]
  have e2 : cntOut s' = cntOut s := by unfold cntOut isOutSlot; rw [h1, h2]
  constructor
  · rw [h3, e1]; exact hI.cin
  · rw [h4, e2]; exact hI.cout
  · intro p nd h; rw [h1] at h; exact hI.noban p nd h
  · intro p nd h; rw [h1] at h; exact hI.range p nd h
  · intro p h; rw [h2]; exact hI.resNoSlot p (h5 p h)

theorem sameExcept_setNode (s : PS n) (p : Fin n) (v : Option Node) : SameExcept s (setNode s p v) p := by
  intro q hq
  simp [setNode, upd, hq]

theorem insertPeer_inv (hn : Fits n) (s : PS n) (p : Fin n) (hI : Inv s) : Inv (insertPeer s p) := by
  unfold insertPeer
  split
  · exact hI
  · rename_i hnone
    apply inv_point hn s _ p (hI.toW p) (sameExcept_setNode s p _)
    · exact hI.resNoSlot
    · simp [setNode, isInSlot, hnone, upd, ctrUpd]
    · simp [setNode, isOutSlot, hnone, upd, ctrUpd]
    · intro nd h
      simp [setNode, upd] at h
      subst h
      simp [InRange, minI32, maxI32, MS.connected]

theorem forgetPeer_inv (hn : Fits n) (s : PS n) (p : Fin n) (hI : Inv s) (hc : conn s p = false) :
    Inv (forgetPeer s p).1 := by
  unfold forgetPeer
  split
  · exact hI
  · rename_i nd hnd
    have hst : nd.st.connected = false := by simpa [conn, hnd] using hc
    split
    · apply inv_point hn s _ p (hI.toW p) (sameExcept_setNode s p _)
      · exact hI.resNoSlot
      · cases hs : nd.st <;> simp [hs, MS.connected] at hst <;>
          simp [setNode, isInSlot, hnd, upd, ctrUpd, hs]
      · cases hs : nd.st <;> simp [hs, MS.connected] at hst <;>
          simp [setNode, isOutSlot, hnd, upd, ctrUpd, hs]
      · intro nd' h
        simp [setNode, upd] at h
        subst h
        exact ⟨hI.range p nd hnd, by simp [MS.connected]⟩
    · apply inv_point hn s _ p (hI.toW p) (sameExcept_setNode s p _)
      · exact hI.resNoSlot
      · cases hs : nd.st <;> simp [hs, MS.connected] at hst <;>
          simp [setNode, isInSlot, hnd, upd, ctrUpd, hs]
      · cases hs : nd.st <;> simp [hs, MS.connected] at hst <;>
          simp [setNode, isOutSlot, hnd, upd, ctrUpd, hs]
      · intro nd' h
        simp [setNode, upd] at h

theorem psDisconnect_inv (hn : Fits n) (s : PS n) (p : Fin n) (hI : Inv s) : Inv (psDisconnect s p).1 := by
  unfold psDisconnect
  split
  · exact hI
  · rename_i nd hnd
    have hr := hI.range p nd hnd
    by_cases hns : s.noSlot p = true
    · simp only [hns, if_true]
      apply inv_point hn s _ p (hI.toW p) (sameExcept_setNode s p _)
      · exact hI.resNoSlot
      · simp [setNode, isInSlot, hnd, upd, ctrUpd, hns]
      · simp [setNode, isOutSlot, hnd, upd, ctrUpd, hns]
      · intro nd' h
        simp [setNode, upd] at h
        subst h
        exact ⟨hr, by simp [MS.connected]⟩
    · have hns' : s.noSlot p = false := by simpa using hns
      simp only [hns', Bool.false_eq_true, if_false]
      split
      · rename_i hs
        apply inv_point hn s _ p (hI.toW p)
        · intro q hq; simp [setNode, upd, hq]
        · exact hI.resNoSlot
        · simp [setNode, isInSlot, hnd, upd, ctrUpd, hns', hs]
        · simp [setNode, isOutSlot, hnd, upd, ctrUpd, hns', hs]
        · intro nd' h
          simp [setNode, upd] at h
          subst h
          exact ⟨hr, by simp [MS.connected]⟩
      · rename_i hs
        apply inv_point hn s _ p (hI.toW p)
        · intro q hq; simp [setNode, upd, hq]
        · exact hI.resNoSlot
        · simp [setNode, isInSlot, hnd, upd, ctrUpd, hns', hs]
        · simp [setNode, isOutSlot, hnd, upd, ctrUpd, hns', hs]
        · intro nd' h
          simp [setNode, upd] at h
          subst h
          exact ⟨hr, by simp [MS.connected]⟩
      · exact hI

theorem tryOutgoing_inv (hn : Fits n) (s : PS n) (p : Fin n) (hI : Inv s) (hc : conn s p = false)
    (hrep : bannedThreshold ≤ repOf s p) : Inv (tryOutgoing s p).1 := by
  unfold tryOutgoing
  split
  · exact hI
  · split
    · exact hI
    · rename_i nd hnd
      have hr := hI.range p nd hnd
      have hst : nd.st.connected = false := by simpa [conn, hnd] using hc
      have hrep' : bannedThreshold ≤ nd.rep := by simpa [repOf, hnd] using hrep
      by_cases hns : s.noSlot p = true
      · simp only [hns, if_true]
        apply inv_point hn s _ p (hI.toW p) (sameExcept_setNode s p _)
        · exact hI.resNoSlot
        · simp [setNode, isInSlot, hnd, upd, ctrUpd, hns]
        · simp [setNode, isOutSlot, hnd, upd, ctrUpd, hns]
        · intro nd' h
          simp [setNode, upd] at h
          subst h
          exact ⟨hr, fun _ => hrep'⟩
      · have hns' : s.noSlot p = false := by simpa using hns
        simp only [hns', Bool.false_eq_true, if_false]
        apply inv_point hn s _ p (hI.toW p)
        · intro q hq; simp [setNode, upd, hq]
        · exact hI.resNoSlot
        · cases hs : nd.st <;> simp [hs, MS.connected] at hst <;>
            simp [setNode, isInSlot, hnd, upd, ctrUpd, hns', hs]
        · cases hs : nd.st <;> simp [hs, MS.connected] at hst <;>
            simp [setNode, isOutSlot, hnd, upd, ctrUpd, hns', hs]
        · intro nd' h
          simp [setNode, upd] at h
          subst h
          exact ⟨hr, fun _ => hrep'⟩

theorem tryAcceptIncoming_inv (hn : Fits n) (s : PS n) (p : Fin n) (hI : Inv s) (hc : conn s p = false)
    (hrep : bannedThreshold ≤ repOf s p) : Inv (tryAcceptIncoming s p).1 := by
  unfold tryAcceptIncoming
  split
  · exact hI
  · split
    · exact hI
    · rename_i nd hnd
      have hr := hI.range p nd hnd
      have hst : nd.st.connected = false := by simpa [conn, hnd] using hc
      have hrep' : bannedThreshold ≤ nd.rep := by simpa [repOf, hnd] using hrep
      by_cases hns : s.noSlot p = true
      · simp only [hns, if_true]
        apply inv_point hn s _ p (hI.toW p) (sameExcept_setNode s p _)
        · exact hI.resNoSlot
        · simp [setNode, isInSlot, hnd, upd, ctrUpd, hns]
        · simp [setNode, isOutSlot, hnd, upd, ctrUpd, hns]
        · intro nd' h
          simp [setNode, upd] at h
          subst h
          exact ⟨hr, fun _ => hrep'⟩
      · have hns' : s.noSlot p = false := by simpa using hns
        simp only [hns', Bool.false_eq_true, if_false]
        apply inv_point hn s _ p (hI.toW p)
        · intro q hq; simp [setNode, upd, hq]
        · exact hI.resNoSlot
        · cases hs : nd.st <;> simp [hs, MS.connected] at hst <;>
            simp [setNode, isInSlot, hnd, upd, ctrUpd, hns', hs]
        · cases hs : nd.st <;> simp [hs, MS.connected] at hst <;>
            simp [setNode, isOutSlot, hnd, upd, ctrUpd, hns', hs]
        · intro nd' h
          simp [setNode, upd] at h
          subst h
          exact ⟨hr, fun _ => hrep'⟩

/-- `ps.reservedNode[p] = struct{}{}` followed by `addNoSlotNode` -/
theorem reserve_inv (hn : Fits n) (s : PS n) (p : Fin n) (hI : Inv s) :
    Inv (addNoSlotNode { s with reserved := upd s.reserved p true } p).1 := by
  unfold addNoSlotNode
  simp only []
  split
  · rename_i hns
    apply inv_point hn s _ p (hI.toW p)
    · intro q hq; simp
    · intro q hq
      by_cases e : q = p
      · subst e; exact hns
      · simp [upd, e] at hq; exact hI.resNoSlot q hq
    · simp [isInSlot, ctrUpd]
    · simp [isOutSlot, ctrUpd]
    · intro nd h
      exact ⟨hI.range p nd h, hI.noban p nd h⟩
  · rename_i hns
    have hns' : s.noSlot p = false := by simpa using hns
    have hres : ∀ q, upd s.reserved p true q = true → upd s.noSlot p true q = true := by
      intro q hq
      by_cases e : q = p
      · simp [upd, e]
      · simp [upd, e] at hq ⊢; exact hI.resNoSlot q hq
    split
    · rename_i hnd
      apply inv_point hn s _ p (hI.toW p)
      · intro q hq; simp [upd, hq]
      · exact hres
      · simp [isInSlot, ctrUpd, hnd]
      · simp [isOutSlot, ctrUpd, hnd]
      · intro nd h; simp [hnd] at h
    · rename_i nd hnd
      split
      · rename_i hs
        apply inv_point hn s _ p (hI.toW p)
        · intro q hq; simp [upd, hq]
        · exact hres
        · simp [isInSlot, ctrUpd, hnd, hs, hns', upd]
        · simp [isOutSlot, ctrUpd, hnd, hs, hns', upd]
        · intro nd' h; exact ⟨hI.range p nd' h, hI.noban p nd' h⟩
      · rename_i hs
        apply inv_point hn s _ p (hI.toW p)
        · intro q hq; simp [upd, hq]
        · exact hres
        · simp [isInSlot, ctrUpd, hnd, hs, hns', upd]
        · simp [isOutSlot, ctrUpd, hnd, hs, hns', upd]
        · intro nd' h; exact ⟨hI.range p nd' h, hI.noban p nd' h⟩
      · rename_i hs1 hs2
        apply inv_point hn s _ p (hI.toW p)
        · intro q hq; simp [upd, hq]
        · exact hres
        · cases hs : nd.st <;> simp [hs] at hs1 hs2 <;> simp [isInSlot, ctrUpd, hnd, hs, hns', upd]
        · cases hs : nd.st <;> simp [hs] at hs1 hs2 <;> simp [isOutSlot, ctrUpd, hnd, hs, hns', upd]
        · intro nd' h; exact ⟨hI.range p nd' h, hI.noban p nd' h⟩

/-- `delete(ps.reservedNode, p)` followed by `removeNoSlotNode` -/
theorem unreserve_inv (hn : Fits n) (s : PS n) (p : Fin n) (hI : Inv s) :
    Inv (removeNoSlotNode { s with reserved := upd s.reserved p false } p).1 := by
  unfold removeNoSlotNode
  simp only []
  have hres0 : ∀ q, upd s.reserved p false q = true → s.noSlot q = true := by
    intro q hq
    by_cases e : q = p
    · simp [upd, e] at hq
    · simp [upd, e] at hq; exact hI.resNoSlot q hq
  split
  · apply inv_point hn s _ p (hI.toW p)
    · intro q hq; simp
    · exact hres0
    · simp [isInSlot, ctrUpd]
    · simp [isOutSlot, ctrUpd]
    · intro nd h
      exact ⟨hI.range p nd h, hI.noban p nd h⟩
  · rename_i hns
    have hns' : s.noSlot p = true := by simpa using hns
    have hres : ∀ q, upd s.reserved p false q = true → upd s.noSlot p false q = true := by
      intro q hq
      by_cases e : q = p
      · simp [upd, e] at hq
      · simp [upd, e] at hq ⊢; exact hI.resNoSlot q hq
    split
    · rename_i hnd
      apply inv_point hn s _ p (hI.toW p)
      · intro q hq; simp [upd, hq]
      · exact hres
      · simp [isInSlot, ctrUpd, hnd]
      · simp [isOutSlot, ctrUpd, hnd]
      · intro nd h; simp [hnd] at h
    · rename_i nd hnd
      split
      · rename_i hs
        apply inv_point hn s _ p (hI.toW p)
        · intro q hq; simp [upd, hq]
        · exact hres
        · simp [isInSlot, ctrUpd, hnd, hs, hns', upd]
        · simp [isOutSlot, ctrUpd, hnd, hs, hns', upd]
        · intro nd' h; exact ⟨hI.range p nd' h, hI.noban p nd' h⟩
      · rename_i hs
        apply inv_point hn s _ p (hI.toW p)
        · intro q hq; simp [upd, hq]
        · exact hres
        · simp [isInSlot, ctrUpd, hnd, hs, hns', upd]
        · simp [isOutSlot, ctrUpd, hnd, hs, hns', upd]
        · intro nd' h; exact ⟨hI.range p nd' h, hI.noban p nd' h⟩
      · rename_i hs1 hs2
        apply inv_point hn s _ p (hI.toW p)
        · intro q hq; simp [upd, hq]
        · exact hres
        · cases hs : nd.st <;> simp [hs] at hs1 hs2 <;> simp [isInSlot, ctrUpd, hnd, hs, hns', upd]
        · cases hs : nd.st <;> simp [hs] at hs1 hs2 <;> simp [isOutSlot, ctrUpd, hnd, hs, hns', upd]
        · intro nd' h; exact ⟨hI.range p nd' h, hI.noban p nd' h⟩



theorem status_conn (s : PS n) (p : Fin n) : (status s p = .connected) ↔ conn s p = true := by
  unfold status conn
  cases hnd : s.nodes p with
  | none => simp
  | some nd => cases hs : nd.st <;> simp [hs, MS.connected]

/-- `PeersState.addReputation` keeps everything except, possibly, the ban clause for `p` -/
theorem addReputation_invW (hn : Fits n) (s : PS n) (p : Fin n) (v : Int) (hI : Inv s) :
    InvW (addReputation s p v).1 p := by
  unfold addReputation
  simp only []
  cases hnd : s.nodes p with
  | none =>
    simp only []
    apply invW_point hn s _ p (hI.toW p) (sameExcept_setNode s p _)
    · exact hI.resNoSlot
    · simp [setNode, isInSlot, hnd, upd, ctrUpd]
    · simp [setNode, isOutSlot, hnd, upd, ctrUpd]
    · intro nd' h'
      simp [setNode, upd] at h'
      subst h'
      exact addI_range _ _ (by simp [InRange, minI32, maxI32])
  | some nd =>
    simp only []
    apply invW_point hn s _ p (hI.toW p) (sameExcept_setNode s p _)
    · exact hI.resNoSlot
    · simp [setNode, isInSlot, hnd, upd, ctrUpd]
    · simp [setNode, isOutSlot, hnd, upd, ctrUpd]
    · intro nd' h'
      simp [setNode, upd] at h'
      subst h'
      exact addI_range _ _ (hI.range p nd hnd)

theorem addReputation_conn (s : PS n) (p : Fin n) (v : Int) :
    conn (addReputation s p v).1 p = conn s p := by
  unfold addReputation conn
  cases hnd : s.nodes p <;> simp [setNode, upd, MS.connected]

theorem addReputation_rep (s : PS n) (p : Fin n) (v : Int) :
    ∀ nd, (addReputation s p v).1.nodes p = some nd → nd.rep = (addReputation s p v).2 := by
  intro nd h
  unfold addReputation at *
  simp [setNode, upd] at h
  subst h
  rfl

/-- `n.addReputation(v)` on an existing node, same -/
theorem nodeAddRep_invW (hn : Fits n) (s : PS n) (p : Fin n) (v : Int) (hI : Inv s) :
    InvW (nodeAddRep s p v) p := by
  unfold nodeAddRep
  cases hnd : s.nodes p with
  | none => exact hI.toW p
  | some nd =>
    simp only []
    apply invW_point hn s _ p (hI.toW p) (sameExcept_setNode s p _)
    · exact hI.resNoSlot
    · simp [setNode, isInSlot, hnd, upd, ctrUpd]
    · simp [setNode, isOutSlot, hnd, upd, ctrUpd]
    · intro nd' h'
      simp [setNode, upd] at h'
      subst h'
      exact addI_range _ _ (hI.range p nd hnd)

theorem nodeAddRep_conn (s : PS n) (p : Fin n) (v : Int) : conn (nodeAddRep s p v) p = conn s p := by
  unfold nodeAddRep conn
  cases hnd : s.nodes p <;> simp [setNode, upd, hnd]

/-- `PeersState.disconnect` of a connected peer re-establishes the ban clause for it -/
theorem psDisconnect_invW (hn : Fits n) (s : PS n) (p : Fin n) (hI : InvW s p) (hc : conn s p = true) :
    Inv (psDisconnect s p).1 := by
  unfold psDisconnect
  cases hnd : s.nodes p with
  | none => simp [conn, hnd] at hc
  | some nd =>
    simp only []
    have hr := hI.range p nd hnd
    have hst : nd.st.connected = true := by simpa [conn, hnd] using hc
    by_cases hns : s.noSlot p = true
    · simp only [hns, if_true]
      apply inv_point hn s _ p hI (sameExcept_setNode s p _)
      · exact hI.resNoSlot
      · simp [setNode, isInSlot, hnd, upd, ctrUpd, hns]
      · simp [setNode, isOutSlot, hnd, upd, ctrUpd, hns]
      · intro nd' h
        simp [setNode, upd] at h
        subst h
        exact ⟨hr, by simp [MS.connected]⟩
    · have hns' : s.noSlot p = false := by simpa using hns
      simp only [hns', Bool.false_eq_true, if_false]
      cases hs : nd.st with
      | ingoing =>
        simp only []
        apply inv_point hn s _ p hI
        · intro q hq; simp [setNode, upd, hq]
        · exact hI.resNoSlot
        · simp [setNode, isInSlot, hnd, upd, ctrUpd, hns', hs]
        · simp [setNode, isOutSlot, hnd, upd, ctrUpd, hns', hs]
        · intro nd' h
          simp [setNode, upd] at h
          subst h
          exact ⟨hr, by simp [MS.connected]⟩
      | outgoing =>
        simp only []
        apply inv_point hn s _ p hI
        · intro q hq; simp [setNode, upd, hq]
        · exact hI.resNoSlot
        · simp [setNode, isInSlot, hnd, upd, ctrUpd, hns', hs]
        · simp [setNode, isOutSlot, hnd, upd, ctrUpd, hns', hs]
        · intro nd' h
          simp [setNode, upd] at h
          subst h
          exact ⟨hr, by simp [MS.connected]⟩
      | notMember => simp [hs, MS.connected] at hst
      | notConnected => simp [hs, MS.connected] at hst

/-- a connected peer is always disconnected successfully -/
theorem psDisconnect_ok (s : PS n) (p : Fin n) (hc : conn s p = true) : (psDisconnect s p).2 = false := by
  unfold psDisconnect
  cases hnd : s.nodes p with
  | none => simp [conn, hnd] at hc
  | some nd =>
    have hst : nd.st.connected = true := by simpa [conn, hnd] using hc
    simp only []
    split
    · rfl
    · cases hs : nd.st <;> simp [hs, MS.connected] at hst <;> simp

theorem touch_inv (s : PS n) (p : Fin n) (hI : Inv s) (hn : Fits n) : Inv (touch s p) := by
  unfold touch
  cases hnd : s.nodes p with
  | none => exact hI
  | some nd =>
    simp only []
    apply inv_point hn s _ p (hI.toW p) (sameExcept_setNode s p _)
    · exact hI.resNoSlot
    · simp [setNode, isInSlot, hnd, upd, ctrUpd]
    · simp [setNode, isOutSlot, hnd, upd, ctrUpd]
    · intro nd' h'
      simp [setNode, upd] at h'
      subst h'
      exact ⟨hI.range p nd hnd, hI.noban p nd hnd⟩

theorem tickOpt_some (fm : Bool) (o : Option Node) (nd' : Node) (h : tickOpt fm o = some nd') :
    ∃ nd, o = some nd ∧ nd' = { nd with rep := tickI nd.rep } := by
  unfold tickOpt at h
  cases o with
  | none => simp at h
  | some nd =>
    simp only [] at h
    by_cases hc : tickI nd.rep = 0 ∧ nd.st = MS.notConnected ∧ fm = true ∧ nd.fresh = false
    · rw [if_pos hc] at h; simp at h
    · rw [if_neg hc] at h; simp at h; exact ⟨nd, rfl, h.symm⟩

theorem tickOpt_st (fm : Bool) (o : Option Node) (f : MS → Bool) (hf : f .notConnected = false) :
    (match tickOpt fm o with | some nd => f nd.st | none => false) =
    (match o with | some nd => f nd.st | none => false) := by
  unfold tickOpt
  cases o with
  | none => rfl
  | some nd =>
    simp only []
    by_cases hc : tickI nd.rep = 0 ∧ nd.st = MS.notConnected ∧ fm = true ∧ nd.fresh = false
    · rw [if_pos hc]; simp [hc.2.1, hf]
    · rw [if_neg hc]

theorem tickAll_inv (s : PS n) (hI : Inv s) : Inv (tickAll s) := by
  have e1 : ∀ q, isInSlot (tickAll s) q = isInSlot s q := by
    intro q
    unfold isInSlot tickAll
    simp only []
    exact tickOpt_st (s.fmask q) (s.nodes q) (fun st => st == .ingoing && !s.noSlot q) (by simp)
  have e2 : ∀ q, isOutSlot (tickAll s) q = isOutSlot s q := by
    intro q
    unfold isOutSlot tickAll
    simp only []
    exact tickOpt_st (s.fmask q) (s.nodes q) (fun st => st == .outgoing && !s.noSlot q) (by simp)
  constructor
  · show s.numIn = cntIn (tickAll s)
    unfold cntIn
    rw [List.countP_congr (fun q _ => by rw [e1 q])]
    exact hI.cin
  · show s.numOut = cntOut (tickAll s)
    unfold cntOut
    rw [List.countP_congr (fun q _ => by rw [e2 q])]
    exact hI.cout
  · intro p nd' h hc
    obtain ⟨nd, h1, h2⟩ := tickOpt_some _ _ _ h
    subst h2
    exact tickI_thr _ (hI.range p nd h1) (hI.noban p nd h1 hc)
  · intro p nd' h
    obtain ⟨nd, h1, h2⟩ := tickOpt_some _ _ _ h
    subst h2
    exact tickI_range _ (hI.range p nd h1)
  · exact hI.resNoSlot

theorem tickN_inv (k : Nat) (s : PS n) (hI : Inv s) : Inv (tickN k s) := by
  induction k generalizing s with
  | zero => exact hI
  | succ k ih => exact ih _ (tickAll_inv s hI)

theorem updateTime_inv (s : PS n) (hI : Inv s) : Inv (updateTime s) := by
  unfold updateTime
  exact inv_congr _ _ (tickN_inv _ s hI) rfl rfl rfl rfl (fun _ h => h)

theorem clearFresh_inv (s : PS n) (hI : Inv s) : Inv (clearFresh s) := by
  have e1 : ∀ q, isInSlot (clearFresh s) q = isInSlot s q := by
    intro q; unfold isInSlot clearFresh; cases hq : s.nodes q <;> simp [hq]
  have e2 : ∀ q, isOutSlot (clearFresh s) q = isOutSlot s q := by
    intro q; unfold isOutSlot clearFresh; cases hq : s.nodes q <;> simp [hq]
  constructor
  · show s.numIn = cntIn (clearFresh s)
    unfold cntIn
    rw [List.countP_congr (fun q _ => by rw [e1 q])]
    exact hI.cin
  · show s.numOut = cntOut (clearFresh s)
    unfold cntOut
    rw [List.countP_congr (fun q _ => by rw [e2 q])]
    exact hI.cout
  · intro p nd' h hc
    unfold clearFresh at h
    cases hnd : s.nodes p with
    | none => simp [hnd] at h
    | some nd => simp [hnd] at h; subst h; exact hI.noban p nd hnd hc
  · intro p nd' h
    unfold clearFresh at h
    cases hnd : s.nodes p with
    | none => simp [hnd] at h
    | some nd => simp [hnd] at h; subst h; exact hI.range p nd hnd
  · exact hI.resNoSlot

/-! ### the operations of peerset.go preserve every predicate that the primitives preserve -/

/-- what the operation-level proofs need from a state predicate `P` (and its variant `PW s x` with the
    ban clause suspended for `x`) -/
structure Closed (P : PS n → Prop) (PW : PS n → Fin n → Prop) : Prop where
  cInsert : ∀ s p, P s → P (insertPeer s p)
  cForget : ∀ s p, P s → conn s p = false → P (forgetPeer s p).1
  cDisc : ∀ s p, P s → P (psDisconnect s p).1
  cOut : ∀ s p, P s → conn s p = false → bannedThreshold ≤ repOf s p → P (tryOutgoing s p).1
  cAccept : ∀ s p, P s → conn s p = false → bannedThreshold ≤ repOf s p → P (tryAcceptIncoming s p).1
  cReserve : ∀ s p, P s → P (addNoSlotNode { s with reserved := upd s.reserved p true } p).1
  cAddRepW : ∀ s p v, P s → PW (addReputation s p v).1 p
  cNodeAddRepW : ∀ s p v, P s → PW (nodeAddRep s p v) p
  cOfW : ∀ s x, PW s x →
    (∀ nd, s.nodes x = some nd → nd.st.connected = true → bannedThreshold ≤ nd.rep) → P s
  cDiscW : ∀ s p, PW s p → conn s p = true → P (psDisconnect s p).1
  cTouch : ∀ s p, P s → P (touch s p)
  cUpdateTime : ∀ s, P s → P (updateTime s)
  cClearFresh : ∀ s, P s → P (clearFresh s)
  cAdv : ∀ s k (m : Fin n → Bool), P s → P { s with pending := k, fmask := m }

section chain
variable {P : PS n → Prop} {PW : PS n → Fin n → Prop}


@[simp] theorem emit_s (c : Ctx n) (s : PS n) (m : Msg n) : (emit c s m).s = s := rfl
@[simp] theorem withS_s (c : Ctx n) (s : PS n) : (withS c s).s = s := rfl

theorem pick_mem (l : List (Fin n)) (h : List (Msg n)) (p : Fin n) (hp : pick l h = some p) : p ∈ l := by
  unfold pick at hp
  split at hp
  · split at hp
    · simp at hp; subst hp; assumption
    · exact List.mem_of_mem_head? hp
  · exact List.mem_of_mem_head? hp

theorem insertPeer_conn (s : PS n) (p : Fin n) : conn (insertPeer s p) p = conn s p := by
  unfold insertPeer conn
  cases hnd : s.nodes p <;> simp [setNode, upd, hnd, MS.connected]

theorem insertPeer_repOf (s : PS n) (p : Fin n) : repOf (insertPeer s p) p = repOf s p := by
  unfold insertPeer repOf
  cases hnd : s.nodes p <;> simp [setNode, upd, hnd]

theorem isNotConn_conn (s : PS n) (p : Fin n) (h : isNotConn s p = true) : conn s p = false := by
  unfold isNotConn at h
  unfold conn
  cases hnd : s.nodes p with
  | none => rfl
  | some nd => simp [hnd] at h; simp [h, MS.connected]

theorem whileLoop_closed (hC : Closed P PW) (fuel : Nat) (c : Ctx n) (hI : P c.s) : P (whileLoop fuel c).s := by
  induction fuel generalizing c with
  | zero => exact hI
  | succ fuel ih =>
    unfold whileLoop
    split
    · exact hI
    · split
      · exact hI
      · rename_i p hp
        split
        · exact hI
        · rename_i hrep
          simp only []
          split
          · exact hI
          · apply ih
            simp only [emit_s]
            have hm := pick_mem _ _ _ hp
            have hc : p ∈ cands c.s := (List.mem_filter.mp hm).1
            have hnc : isNotConn c.s p = true := (List.mem_filter.mp hc).2
            exact hC.cOut c.s p hI (isNotConn_conn _ _ hnc) (by omega)

theorem resGood_props (s : PS n) (p : Fin n) (h : p ∈ resGood s) :
    conn s p = false ∧ bannedThreshold ≤ repOf s p := by
  have h1 := List.mem_filter.mp h
  have h2 := List.mem_filter.mp h1.1
  constructor
  · have : status s p ≠ .connected := by
      have := h2.2
      simp at this
      exact this.2
    cases hc : conn s p with
    | false => rfl
    | true => exact absurd ((status_conn s p).mpr hc) this
  · have hb := h1.2
    unfold isBannedNode at hb
    unfold repOf
    cases hnd : s.nodes p with
    | none => exact thr_neg
    | some nd => simp [hnd] at hb; exact hb

theorem reservedLoop_closed (hC : Closed P PW) (fuel : Nat) (c : Ctx n) (hI : P c.s) :
    P (reservedLoop fuel c).1.s := by
  induction fuel generalizing c with
  | zero => exact hI
  | succ fuel ih =>
    unfold reservedLoop
    simp only []
    split
    · exact hI
    · rename_i p hp
      have hgood : p ∈ resGood c.s := by
        split at hp
        · simp at hp; subst hp
          rename_i q hq
          split at hq
          · split at hq
            · simp at hq; subst hq; assumption
            · simp at hq
          · simp at hq
        · split at hp
          · exact List.mem_of_mem_head? hp
          · simp at hp
      have hs1 : P (if status c.s p = .unknown then insertPeer c.s p else c.s) := by
        split
        · exact hC.cInsert _ _ hI
        · exact hI
      have hc1 : conn (if status c.s p = .unknown then insertPeer c.s p else c.s) p = false := by
        split
        · rw [insertPeer_conn]; exact (resGood_props _ _ hgood).1
        · exact (resGood_props _ _ hgood).1
      have hr1 : bannedThreshold ≤ repOf (if status c.s p = .unknown then insertPeer c.s p else c.s) p := by
        split
        · rw [insertPeer_repOf]; exact (resGood_props _ _ hgood).2
        · exact (resGood_props _ _ hgood).2
      generalize (if status c.s p = .unknown then insertPeer c.s p else c.s) = s1 at *
      by_cases he : (tryOutgoing s1 p).2 = true
      · rw [if_pos he]; exact hs1
      · rw [if_neg he]
        apply ih
        simp only [emit_s]
        exact hC.cOut _ p hs1 hc1 hr1

theorem allocSlots_closed (hC : Closed P PW) (c : Ctx n) (hI : P c.s) : P (allocSlots c).1.s := by
  unfold allocSlots
  simp only []
  have h1 : P (reservedLoop (n + 1) (withS c (updateTime c.s))).1.s :=
    reservedLoop_closed hC _ _ (by simp only [withS_s]; exact hC.cUpdateTime _ hI)
  split
  · exact h1
  · split
    · exact h1
    · exact whileLoop_closed hC _ _ h1

theorem addReservedPeers_closed (hC : Closed P PW) (l : List (Fin n)) (c : Ctx n) (hI : P c.s) :
    P (addReservedPeers l c).1.s := by
  induction l generalizing c with
  | nil => exact hI
  | cons p rest ih =>
    unfold addReservedPeers
    split
    · exact hI
    · simp only []
      have h1 := hC.cReserve _ p (hC.cInsert c.s p hI)
      split
      · exact h1
      · have h2 := allocSlots_closed hC (withS c (addNoSlotNode
            { insertPeer c.s p with reserved := upd (insertPeer c.s p).reserved p true } p).1) h1
        split
        · exact h2
        · exact ih _ h2

theorem addPeer_closed (hC : Closed P PW) (l : List (Fin n)) (c : Ctx n) (hI : P c.s) :
    P (addPeer l c).1.s := by
  induction l generalizing c with
  | nil => exact hI
  | cons p rest ih =>
    unfold addPeer
    split
    · exact hI
    · simp only []
      have h2 := allocSlots_closed hC (withS c (insertPeer c.s p)) (hC.cInsert c.s p hI)
      split
      · exact h2
      · exact ih _ h2

theorem psDisconnect_conn (s : PS n) (p : Fin n) : conn (psDisconnect s p).1 p = false ∨ (psDisconnect s p).2 = true := by
  unfold psDisconnect
  cases hnd : s.nodes p with
  | none => right; rfl
  | some nd =>
    simp only []
    split
    · left; simp [conn, setNode, upd, MS.connected]
    · split
      · left; simp [conn, setNode, upd, MS.connected]
      · left; simp [conn, setNode, upd, MS.connected]
      · right; rfl

theorem removePeer_closed (hC : Closed P PW) (l : List (Fin n)) (c : Ctx n) (hI : P c.s) :
    P (removePeer l c).1.s := by
  induction l generalizing c with
  | nil => exact hI
  | cons p rest ih =>
    unfold removePeer
    split
    · exact hI
    · split
      · simp only []
        have h1 := hC.cDisc c.s p hI
        by_cases he : (psDisconnect c.s p).2 = true
        · rw [if_pos he]; exact h1
        · rw [if_neg he]
          have hc : conn (psDisconnect c.s p).1 p = false := by
            cases psDisconnect_conn c.s p with
            | inl h => exact h
            | inr h => exact absurd h he
          have h2 := hC.cForget _ p h1 hc
          split
          · exact h2
          · exact ih _ h2
      · rename_i hst
        have hc : conn c.s p = false := by
          cases hcc : conn c.s p with
          | false => rfl
          | true => rw [(status_conn c.s p).mpr hcc] at hst; cases hst
        have h2 := hC.cForget _ p hI hc
        simp only []
        split
        · exact h2
        · exact ih _ h2
      · exact ih _ hI

theorem reportLoop_closed (hC : Closed P PW) (v : Int) (l : List (Fin n)) (c : Ctx n) (hI : P c.s) :
    P (reportLoop v l c).1.s := by
  induction l generalizing c with
  | nil => exact hI
  | cons p rest ih =>
    unfold reportLoop
    simp only []
    have hW := hC.cAddRepW c.s p v hI
    split
    · rename_i hge
      apply ih
      simp only [withS_s]
      exact hC.cOfW _ _ hW (fun nd h _ => by rw [addReputation_rep c.s p v nd h]; omega)
    · split
      · rename_i hnc
        apply ih
        simp only [withS_s]
        refine hC.cOfW _ _ hW (fun nd h hcn => ?_)
        exfalso
        apply hnc
        rw [status_conn]
        simp [conn, h, hcn]
      · rename_i hcn
        have hcn' : conn (addReputation c.s p v).1 p = true := by
          rw [← status_conn]
          exact Classical.not_not.mp hcn
        have h1 := hC.cDiscW _ p hW hcn'
        split
        · exact h1
        · have h2 := allocSlots_closed hC (emit c (psDisconnect (addReputation c.s p v).1 p).1 (.drop p)) h1
          split
          · exact h2
          · exact ih _ h2

theorem reportPeer_closed (hC : Closed P PW) (v : Int) (l : List (Fin n)) (c : Ctx n) (hI : P c.s) :
    P (reportPeer v l c).1.s :=
  reportLoop_closed hC v l _ (hC.cUpdateTime _ hI)

theorem touch_conn (s : PS n) (p : Fin n) : conn (touch s p) p = conn s p := by
  unfold touch conn
  cases hnd : s.nodes p <;> simp [setNode, upd, hnd]

theorem touch_repOf (s : PS n) (p : Fin n) : repOf (touch s p) p = repOf s p := by
  unfold touch repOf
  cases hnd : s.nodes p <;> simp [setNode, upd, hnd]

theorem incomingLoop_closed (hC : Closed P PW) (l : List (Fin n)) (c : Ctx n) (hI : P c.s) :
    P (incomingLoop l c).s := by
  induction l generalizing c with
  | nil => exact hI
  | cons p rest ih =>
    unfold incomingLoop
    split
    · exact ih _ hI
    · split
      · exact ih _ hI
      · rename_i st hst
        simp only []
        have hc : conn c.s p = false := by
          cases hcc : conn c.s p with
          | false => rfl
          | true => exact absurd ((status_conn c.s p).mpr hcc) (hst ·)
        have hs1 : P (if status c.s p = .notConn then touch c.s p else insertPeer c.s p) := by
          split
          · exact hC.cTouch _ _ hI
          · exact hC.cInsert _ _ hI
        have hc1 : conn (if status c.s p = .notConn then touch c.s p else insertPeer c.s p) p = false := by
          split
          · rw [touch_conn]; exact hc
          · rw [insertPeer_conn]; exact hc
        generalize (if status c.s p = .notConn then touch c.s p else insertPeer c.s p) = s1 at *
        split
        · exact ih _ hs1
        · rename_i hrep
          have h2 := hC.cAccept s1 p hs1 hc1 (by omega)
          split
          · exact ih _ h2
          · exact ih _ h2

theorem disconnectLoop_closed (hC : Closed P PW) (refused : Bool) (l : List (Fin n)) (c : Ctx n)
    (hI : P c.s) : P (disconnectLoop refused l c).1.s := by
  induction l generalizing c with
  | nil => exact allocSlots_closed hC c hI
  | cons p rest ih =>
    unfold disconnectLoop
    split
    · exact hI
    · rename_i hcn
      simp only []
      have hcn' : conn c.s p = true := by
        rw [← status_conn]; exact Classical.not_not.mp hcn
      have hW := hC.cNodeAddRepW c.s p disconnectChange hI
      have h1 := hC.cDiscW _ p hW (by rw [nodeAddRep_conn]; exact hcn')
      split
      · exact h1
      · split
        · have h2 := removePeer_closed hC [p]
            (emit c (psDisconnect (nodeAddRep c.s p disconnectChange) p).1 (.drop p)) h1
          split
          · exact h2
          · exact ih _ h2
        · exact ih _ h1

/-- where `removeReservedPeers` runs inside an operation: the state it starts from and its list -/
def opGuard (G : PS n → List (Fin n) → Prop) : Op n → Ctx n → Prop
  | .removeReserved l, c => G c.s l
  | .setReserved ps ord, c => G (addReservedPeers (toInsert c.s ps) c).1.s (toRemove c.s ps ord)
  | _, _ => True

/-- every operation; `removeReservedPeers` (whose effect on the slot maxima is the known finding) is
    taken care of by `hrr` under the guard `G` -/
theorem applyOp_closed (hC : Closed P PW) (G : PS n → List (Fin n) → Prop)
    (hrr : ∀ l (c' : Ctx n), P c'.s → G c'.s l → P (removeReservedPeers l c').1.s)
    (op : Op n) (c : Ctx n) (hI : P c.s) (hG : opGuard G op c) : P (applyOp op c).1.s := by
  cases op with
  | addReserved ps => exact addReservedPeers_closed hC ps c hI
  | removeReserved ps => exact hrr ps c hI hG
  | addPeer ps => exact addPeer_closed hC ps c hI
  | removePeer ps => exact removePeer_closed hC ps c hI
  | report v ps => exact reportPeer_closed hC v ps c hI
  | incoming ps => exact incomingLoop_closed hC ps _ (hC.cUpdateTime _ hI)
  | disconnect ps => exact disconnectLoop_closed hC false ps _ (hC.cUpdateTime _ hI)
  | disconnectRefused ps => exact disconnectLoop_closed hC true ps _ (hC.cUpdateTime _ hI)
  | setReserved ps ord =>
    unfold applyOp setReservedPeer
    simp only []
    have ha := addReservedPeers_closed hC (toInsert c.s ps) c hI
    split
    · exact ha
    · exact hrr _ _ ha hG
  | sortedPeers => exact hI
  | setReservedOnly => exact hI
  | tick => exact allocSlots_closed hC c hI
  | adv k mask => exact hC.cAdv _ _ _ hI

end chain

/-! ### slot maxima -/

/-- the part of the property that the code does not keep unconditionally -/
def SlotsOk (s : PS n) : Prop := s.numIn ≤ s.maxIn ∧ s.numOut ≤ s.maxOut

/-- a step that touches nodes / no-slot membership of `p` only and keeps the maxima -/
structure Pt (s s' : PS n) (p : Fin n) : Prop where
  frame : SameExcept s s' p
  maxIn : s'.maxIn = s.maxIn
  maxOut : s'.maxOut = s.maxOut

theorem Pt.refl (s : PS n) (p : Fin n) : Pt s s p := ⟨fun _ _ => ⟨rfl, rfl⟩, rfl, rfl⟩

theorem Pt.trans {s s' s'' : PS n} {p : Fin n} (h1 : Pt s s' p) (h2 : Pt s' s'' p) : Pt s s'' p :=
  ⟨fun q hq => ⟨((h2.frame q hq).1).trans (h1.frame q hq).1, ((h2.frame q hq).2).trans (h1.frame q hq).2⟩,
   h2.maxIn.trans h1.maxIn, h2.maxOut.trans h1.maxOut⟩

/-- slot maxima across a one-peer step: the peer may newly occupy a slot only if one was free -/
theorem slots_point (s s' : PS n) (p : Fin n) (hI : InvW s p) (hin' : s'.numIn = cntIn s')
    (hout' : s'.numOut = cntOut s') (hpt : Pt s s' p) (hS : SlotsOk s)
    (hin : isInSlot s' p = true → isInSlot s p = true ∨ s.numIn < s.maxIn)
    (hout : isOutSlot s' p = true → isOutSlot s p = true ∨ s.numOut < s.maxOut) : SlotsOk s' := by
  have e1 := cntIn_point s s' p hpt.frame
  have e2 := cntOut_point s s' p hpt.frame
  have c1 := hI.cin
  have c2 := hI.cout
  unfold SlotsOk at *
  rw [hpt.maxIn, hpt.maxOut, hin', hout']
  constructor
  · cases hb' : isInSlot s' p with
    | false => rw [hb'] at e1; simp at e1; omega
    | true =>
      rw [hb'] at e1
      cases hin hb' with
      | inl h => rw [h] at e1; simp at e1; omega
      | inr h => cases hb : isInSlot s p <;> rw [hb] at e1 <;> simp at e1 <;> omega
  · cases hb' : isOutSlot s' p with
    | false => rw [hb'] at e2; simp at e2; omega
    | true =>
      rw [hb'] at e2
      cases hout hb' with
      | inl h => rw [h] at e2; simp at e2; omega
      | inr h => cases hb : isOutSlot s p <;> rw [hb] at e2 <;> simp at e2 <;> omega

theorem insertPeer_pt (s : PS n) (p : Fin n) : Pt s (insertPeer s p) p := by
  unfold insertPeer
  split
  · exact Pt.refl s p
  · exact ⟨sameExcept_setNode s p _, rfl, rfl⟩

theorem forgetPeer_pt (s : PS n) (p : Fin n) : Pt s (forgetPeer s p).1 p := by
  unfold forgetPeer
  split
  · exact Pt.refl s p
  · split
    · exact ⟨sameExcept_setNode s p _, rfl, rfl⟩
    · exact ⟨sameExcept_setNode s p _, rfl, rfl⟩

theorem addReputation_pt (s : PS n) (p : Fin n) (v : Int) : Pt s (addReputation s p v).1 p :=
  ⟨sameExcept_setNode s p _, rfl, rfl⟩

theorem nodeAddRep_pt (s : PS n) (p : Fin n) (v : Int) : Pt s (nodeAddRep s p v) p := by
  unfold nodeAddRep
  split
  · exact ⟨sameExcept_setNode s p _, rfl, rfl⟩
  · exact Pt.refl s p

theorem touch_pt (s : PS n) (p : Fin n) : Pt s (touch s p) p := by
  unfold touch
  split
  · exact ⟨sameExcept_setNode s p _, rfl, rfl⟩
  · exact Pt.refl s p

theorem psDisconnect_pt (s : PS n) (p : Fin n) : Pt s (psDisconnect s p).1 p := by
  unfold psDisconnect
  split
  · exact Pt.refl s p
  · simp only []
    split
    · exact ⟨sameExcept_setNode s p _, rfl, rfl⟩
    · split
      · exact ⟨fun q hq => by simp [setNode, upd, hq], rfl, rfl⟩
      · exact ⟨fun q hq => by simp [setNode, upd, hq], rfl, rfl⟩
      · exact Pt.refl s p

theorem tryOutgoing_pt (s : PS n) (p : Fin n) : Pt s (tryOutgoing s p).1 p := by
  unfold tryOutgoing
  split
  · exact Pt.refl s p
  · split
    · exact Pt.refl s p
    · simp only []
      split
      · exact ⟨sameExcept_setNode s p _, rfl, rfl⟩
      · exact ⟨fun q hq => by simp [setNode, upd, hq], rfl, rfl⟩

theorem tryAcceptIncoming_pt (s : PS n) (p : Fin n) : Pt s (tryAcceptIncoming s p).1 p := by
  unfold tryAcceptIncoming
  split
  · exact Pt.refl s p
  · split
    · exact Pt.refl s p
    · simp only []
      split
      · exact ⟨sameExcept_setNode s p _, rfl, rfl⟩
      · exact ⟨fun q hq => by simp [setNode, upd, hq], rfl, rfl⟩

theorem reserve_pt (s : PS n) (p : Fin n) :
    Pt s (addNoSlotNode { s with reserved := upd s.reserved p true } p).1 p := by
  unfold addNoSlotNode
  simp only []
  split
  · exact ⟨fun q hq => ⟨rfl, rfl⟩, rfl, rfl⟩
  · split
    · exact ⟨fun q hq => by simp [upd, hq], rfl, rfl⟩
    · split <;> exact ⟨fun q hq => by simp [upd, hq], rfl, rfl⟩

theorem unreserve_pt (s : PS n) (p : Fin n) :
    Pt s (removeNoSlotNode { s with reserved := upd s.reserved p false } p).1 p := by
  unfold removeNoSlotNode
  simp only []
  split
  · exact ⟨fun q hq => ⟨rfl, rfl⟩, rfl, rfl⟩
  · split
    · exact ⟨fun q hq => by simp [upd, hq], rfl, rfl⟩
    · split <;> exact ⟨fun q hq => by simp [upd, hq], rfl, rfl⟩

/-- the one-peer step does not put `p` into a slot unless one was free -/
def Occ (s s' : PS n) (p : Fin n) : Prop :=
  (isInSlot s' p = true → isInSlot s p = true ∨ s.numIn < s.maxIn) ∧
  (isOutSlot s' p = true → isOutSlot s p = true ∨ s.numOut < s.maxOut)

theorem insertPeer_occ (s : PS n) (p : Fin n) : Occ s (insertPeer s p) p := by
  unfold insertPeer Occ isInSlot isOutSlot
  cases hnd : s.nodes p <;> simp [setNode, upd, hnd] <;> (intros; simp_all)

theorem forgetPeer_occ (s : PS n) (p : Fin n) : Occ s (forgetPeer s p).1 p := by
  unfold forgetPeer Occ isInSlot isOutSlot
  cases hnd : s.nodes p with
  | none => simp [hnd]
  | some nd => by_cases h : nd.rep = 0 <;> simp [setNode, upd, hnd, h]

theorem addReputation_occ (s : PS n) (p : Fin n) (v : Int) : Occ s (addReputation s p v).1 p := by
  unfold addReputation Occ isInSlot isOutSlot
  cases hnd : s.nodes p <;> simp [setNode, upd, hnd] <;> (intros; simp_all)

theorem nodeAddRep_occ (s : PS n) (p : Fin n) (v : Int) : Occ s (nodeAddRep s p v) p := by
  unfold nodeAddRep Occ isInSlot isOutSlot
  cases hnd : s.nodes p <;> simp [setNode, upd, hnd] <;> (intros; simp_all)

theorem touch_occ (s : PS n) (p : Fin n) : Occ s (touch s p) p := by
  unfold touch Occ isInSlot isOutSlot
  cases hnd : s.nodes p <;> simp [setNode, upd, hnd] <;> (intros; simp_all)

theorem psDisconnect_occ (s : PS n) (p : Fin n) : Occ s (psDisconnect s p).1 p := by
  unfold psDisconnect Occ isInSlot isOutSlot
  cases hnd : s.nodes p with
  | none => simp [hnd]
  | some nd =>
    cases hns : s.noSlot p <;> cases hs : nd.st <;> simp [setNode, upd, hnd, hns, hs]

theorem reserve_occ (s : PS n) (p : Fin n) :
    Occ s (addNoSlotNode { s with reserved := upd s.reserved p true } p).1 p := by
  unfold addNoSlotNode Occ isInSlot isOutSlot
  cases hnd : s.nodes p with
  | none => cases hns : s.noSlot p <;> simp [upd, hnd, hns]
  | some nd =>
    cases hns : s.noSlot p <;> cases hs : nd.st <;> simp [upd, hnd, hns, hs]

theorem tryOutgoing_occ (s : PS n) (p : Fin n) (hc : conn s p = false) : Occ s (tryOutgoing s p).1 p := by
  unfold tryOutgoing Occ isInSlot isOutSlot
  cases hnd : s.nodes p with
  | none => cases hns : s.noSlot p <;> by_cases hlt : s.numOut < s.maxOut <;> simp [hnd, hns, hlt]
  | some nd =>
    have hst : nd.st.connected = false := by simpa [conn, hnd] using hc
    cases hns : s.noSlot p <;> by_cases hlt : s.numOut < s.maxOut <;>
      cases hs : nd.st <;> simp [hs, MS.connected] at hst <;> simp [setNode, upd, hnd, hns, hlt, hs]

theorem tryAcceptIncoming_occ (s : PS n) (p : Fin n) (hc : conn s p = false) :
    Occ s (tryAcceptIncoming s p).1 p := by
  unfold tryAcceptIncoming Occ isInSlot isOutSlot
  cases hnd : s.nodes p with
  | none => cases hns : s.noSlot p <;> by_cases hlt : s.numIn < s.maxIn <;> simp [hnd, hns, hlt]
  | some nd =>
    have hst : nd.st.connected = false := by simpa [conn, hnd] using hc
    cases hns : s.noSlot p <;> by_cases hlt : s.numIn < s.maxIn <;>
      cases hs : nd.st <;> simp [hs, MS.connected] at hst <;> simp [setNode, upd, hnd, hns, hlt, hs]

/-- invariant together with the slot maxima -/
def Inv2 (s : PS n) : Prop := Inv s ∧ SlotsOk s
def Inv2W (s : PS n) (p : Fin n) : Prop := InvW s p ∧ SlotsOk s

theorem slots_step (s s' : PS n) (p : Fin n) (hI : InvW s p) (hS : SlotsOk s) (hI' : Inv s')
    (hpt : Pt s s' p) (hocc : Occ s s' p) : SlotsOk s' :=
  slots_point s s' p hI hI'.cin hI'.cout hpt hS hocc.1 hocc.2

theorem slots_stepW (s s' : PS n) (p : Fin n) (hI : InvW s p) (hS : SlotsOk s) (hI' : InvW s' p)
    (hpt : Pt s s' p) (hocc : Occ s s' p) : SlotsOk s' :=
  slots_point s s' p hI hI'.cin hI'.cout hpt hS hocc.1 hocc.2


/-! ### instances: the invariant, and the invariant with the slot maxima -/

theorem closed_inv (hn : Fits n) : Closed (Inv (n := n)) InvW where
  cInsert := fun s p h => insertPeer_inv hn s p h
  cForget := fun s p h hc => forgetPeer_inv hn s p h hc
  cDisc := fun s p h => psDisconnect_inv hn s p h
  cOut := fun s p h hc hr => tryOutgoing_inv hn s p h hc hr
  cAccept := fun s p h hc hr => tryAcceptIncoming_inv hn s p h hc hr
  cReserve := fun s p h => reserve_inv hn s p h
  cAddRepW := fun s p v h => addReputation_invW hn s p v h
  cNodeAddRepW := fun s p v h => nodeAddRep_invW hn s p v h
  cOfW := fun _ _ h hx => h.toInv hx
  cDiscW := fun s p h hc => psDisconnect_invW hn s p h hc
  cTouch := fun s p h => touch_inv s p h hn
  cUpdateTime := fun s h => updateTime_inv s h
  cClearFresh := fun s h => clearFresh_inv s h
  cAdv := fun s _ _ h => inv_congr s _ h rfl rfl rfl rfl (fun _ h => h)

theorem removeReservedPeers_inv (hn : Fits n) (l : List (Fin n)) (c : Ctx n) (hI : Inv c.s) :
    Inv (removeReservedPeers l c).1.s := by
  induction l generalizing c with
  | nil => exact hI
  | cons p rest ih =>
    unfold removeReservedPeers
    split
    · exact hI
    · simp only []
      have h1 := unreserve_inv hn c.s p hI
      split
      · exact h1
      · split
        · exact h1
        · split
          · have h2 := psDisconnect_inv hn _ p h1
            split
            · exact h2
            · exact ih _ h2
          · exact ih _ h1

theorem step_inv (hn : Fits n) (s : PS n) (op : Op n) (h : List (Msg n)) (hI : Inv s) :
    Inv (step s op h).1 :=
  applyOp_closed (closed_inv hn) (fun _ _ => True) (fun l c' h _ => removeReservedPeers_inv hn l c' h)
    op _ (clearFresh_inv s hI) (by cases op <;> trivial)

theorem run_inv (hn : Fits n) (s : PS n) (ops : List (Op n × List (Msg n))) (hI : Inv s) :
    Inv (run s ops) := by
  induction ops generalizing s with
  | nil => exact hI
  | cons o rest ih =>
    obtain ⟨op, h⟩ := o
    exact ih _ (step_inv hn s op h hI)

theorem allocSlots_inv' (hn : Fits n) (c : Ctx n) (hI : Inv c.s) : Inv (allocSlots c).1.s :=
  allocSlots_closed (closed_inv hn) c hI

theorem newPS_inv (maxIn maxOut : Nat) (ro : Bool) : Inv (newPS maxIn maxOut ro : PS n) := by
  constructor
  · show 0 = cntIn _
    unfold cntIn isInSlot newPS
    simp
  · show 0 = cntOut _
    unfold cntOut isOutSlot newPS
    simp
  · intro p nd h; simp [newPS] at h
  · intro p nd h; simp [newPS] at h
  · intro p h; simp [newPS] at h

theorem tickN_ctrs (k : Nat) (s : PS n) :
    (tickN k s).numIn = s.numIn ∧ (tickN k s).numOut = s.numOut ∧
    (tickN k s).maxIn = s.maxIn ∧ (tickN k s).maxOut = s.maxOut := by
  induction k generalizing s with
  | zero => exact ⟨rfl, rfl, rfl, rfl⟩
  | succ k ih => exact ih (tickAll s)

theorem updateTime_slots (s : PS n) (h : SlotsOk s) : SlotsOk (updateTime s) := by
  have := tickN_ctrs s.pending s
  unfold SlotsOk updateTime at *
  simp only []
  omega

theorem closed_inv2 (hn : Fits n) : Closed (Inv2 (n := n)) Inv2W where
  cInsert := fun s p h => ⟨insertPeer_inv hn s p h.1,
    slots_step s _ p (h.1.toW p) h.2 (insertPeer_inv hn s p h.1) (insertPeer_pt s p) (insertPeer_occ s p)⟩
  cForget := fun s p h hc => ⟨forgetPeer_inv hn s p h.1 hc,
    slots_step s _ p (h.1.toW p) h.2 (forgetPeer_inv hn s p h.1 hc) (forgetPeer_pt s p) (forgetPeer_occ s p)⟩
  cDisc := fun s p h => ⟨psDisconnect_inv hn s p h.1,
    slots_step s _ p (h.1.toW p) h.2 (psDisconnect_inv hn s p h.1) (psDisconnect_pt s p) (psDisconnect_occ s p)⟩
  cOut := fun s p h hc hr => ⟨tryOutgoing_inv hn s p h.1 hc hr,
    slots_step s _ p (h.1.toW p) h.2 (tryOutgoing_inv hn s p h.1 hc hr) (tryOutgoing_pt s p) (tryOutgoing_occ s p hc)⟩
  cAccept := fun s p h hc hr => ⟨tryAcceptIncoming_inv hn s p h.1 hc hr,
    slots_step s _ p (h.1.toW p) h.2 (tryAcceptIncoming_inv hn s p h.1 hc hr) (tryAcceptIncoming_pt s p)
      (tryAcceptIncoming_occ s p hc)⟩
  cReserve := fun s p h => ⟨reserve_inv hn s p h.1,
    slots_step s _ p (h.1.toW p) h.2 (reserve_inv hn s p h.1) (reserve_pt s p) (reserve_occ s p)⟩
  cAddRepW := fun s p v h => ⟨addReputation_invW hn s p v h.1,
    slots_stepW s _ p (h.1.toW p) h.2 (addReputation_invW hn s p v h.1) (addReputation_pt s p v)
      (addReputation_occ s p v)⟩
  cNodeAddRepW := fun s p v h => ⟨nodeAddRep_invW hn s p v h.1,
    slots_stepW s _ p (h.1.toW p) h.2 (nodeAddRep_invW hn s p v h.1) (nodeAddRep_pt s p v)
      (nodeAddRep_occ s p v)⟩
  cOfW := fun _ _ h hx => ⟨h.1.toInv hx, h.2⟩
  cDiscW := fun s p h hc => ⟨psDisconnect_invW hn s p h.1 hc,
    slots_step s _ p h.1 h.2 (psDisconnect_invW hn s p h.1 hc) (psDisconnect_pt s p) (psDisconnect_occ s p)⟩
  cTouch := fun s p h => ⟨touch_inv s p h.1 hn,
    slots_step s _ p (h.1.toW p) h.2 (touch_inv s p h.1 hn) (touch_pt s p) (touch_occ s p)⟩
  cUpdateTime := fun s h => ⟨updateTime_inv s h.1, updateTime_slots s h.2⟩
  cClearFresh := fun s h => ⟨clearFresh_inv s h.1, h.2⟩
  cAdv := fun s _ _ h => ⟨inv_congr s _ h.1 rfl rfl rfl rfl (fun _ h => h), h.2⟩

/-- a property of the node of a peer, `True` when the peer is unknown -/
def nodeProp (o : Option Node) (P : Node → Prop) : Prop :=
  match o with
  | some nd => P nd
  | none => True

instance (o : Option Node) (P : Node → Prop) [∀ nd, Decidable (P nd)] : Decidable (nodeProp o P) :=
  match o with
  | some nd => inferInstanceAs (Decidable (P nd))
  | none => isTrue trivial

theorem nodeProp_iff (o : Option Node) (P : Node → Prop) : nodeProp o P ↔ ∀ nd, o = some nd → P nd := by
  cases o with
  | none => simp [nodeProp]
  | some nd => simp [nodeProp]

/-- `removeReservedPeers` started in state `s` with list `l` is harmless for the slot maxima: in
    reserved-only mode; or when its first peer is not reserved or, if connected, finds a free slot of its
    direction.  (Outside reserved-only mode `removeReservedPeers` returns after its first peer.) -/
def slotGuard (s : PS n) (l : List (Fin n)) : Prop :=
  s.ro = true ∨
  match l with
  | [] => True
  | p :: _ =>
    s.reserved p = false ∨
    nodeProp (s.nodes p) (fun nd =>
      (nd.st = .ingoing → s.numIn < s.maxIn) ∧ (nd.st = .outgoing → s.numOut < s.maxOut))

instance (s : PS n) : (l : List (Fin n)) → Decidable (slotGuard s l)
  | [] => isTrue (Or.inr trivial)
  | _ :: _ => inferInstanceAs (Decidable (_ ∨ (_ ∨ _)))

/-- the operation `op` (with hint `h`) applied in state `s` runs `removeReservedPeers`, if at all
    (`removeReserved`, and `setReserved` after its additions), under `slotGuard` -/
def rrSafe (s : PS n) (op : Op n) (h : List (Msg n)) : Prop :=
  opGuard slotGuard op { s := clearFresh s, out := [], hint := h }

instance (s : PS n) (h : List (Msg n)) : (op : Op n) → Decidable (rrSafe s op h)
  | .removeReserved l => inferInstanceAs (Decidable (slotGuard _ l))
  | .setReserved _ _ => inferInstanceAs (Decidable (slotGuard _ _))
  | .addReserved _ => isTrue trivial
  | .addPeer _ => isTrue trivial
  | .removePeer _ => isTrue trivial
  | .report _ _ => isTrue trivial
  | .incoming _ => isTrue trivial
  | .disconnect _ => isTrue trivial
  | .disconnectRefused _ => isTrue trivial
  | .sortedPeers => isTrue trivial
  | .setReservedOnly => isTrue trivial
  | .tick => isTrue trivial
  | .adv _ _ => isTrue trivial

def safeRun : PS n → List (Op n × List (Msg n)) → Prop
  | _, [] => True
  | s, (op, h) :: rest => rrSafe s op h ∧ safeRun (step s op h).1 rest

instance : (s : PS n) → (ops : List (Op n × List (Msg n))) → Decidable (safeRun s ops)
  | _, [] => isTrue trivial
  | s, (op, h) :: rest =>
    have : Decidable (safeRun (step s op h).1 rest) := instDecidableSafeRun (step s op h).1 rest
    inferInstanceAs (Decidable (_ ∧ _))

theorem unreserve_occ_safe (s : PS n) (p : Fin n)
    (h : ∀ nd, s.nodes p = some nd →
      (nd.st = .ingoing → s.numIn < s.maxIn) ∧ (nd.st = .outgoing → s.numOut < s.maxOut)) :
    Occ s (removeNoSlotNode { s with reserved := upd s.reserved p false } p).1 p := by
  unfold removeNoSlotNode Occ isInSlot isOutSlot
  cases hnd : s.nodes p with
  | none => cases hns : s.noSlot p <;> simp [upd, hnd, hns]
  | some nd =>
    have := h nd hnd
    cases hns : s.noSlot p <;> cases hs : nd.st <;> simp [upd, hnd, hns, hs] <;> simp [hs] at this <;> omega

/-- unreserving a peer that is not connected never puts it into a slot -/
theorem unreserve_occ_notconn (s : PS n) (p : Fin n) (hc : conn s p = false) :
    Occ s (removeNoSlotNode { s with reserved := upd s.reserved p false } p).1 p := by
  apply unreserve_occ_safe
  intro nd hnd
  have hst : nd.st.connected = false := by simpa [conn, hnd] using hc
  constructor <;> intro h <;> simp [h, MS.connected] at hst

theorem unreserve_conn (s : PS n) (p : Fin n) :
    conn (removeNoSlotNode { s with reserved := upd s.reserved p false } p).1 p = conn s p := by
  unfold removeNoSlotNode conn
  cases hnd : s.nodes p with
  | none => cases hns : s.noSlot p <;> simp [hnd, hns]
  | some nd => cases hns : s.noSlot p <;> cases hs : nd.st <;> simp [hnd, hns, hs]

theorem unreserve_ro (s : PS n) (p : Fin n) :
    (removeNoSlotNode { s with reserved := upd s.reserved p false } p).1.ro = s.ro := by
  unfold removeNoSlotNode
  cases hnd : s.nodes p with
  | none => cases hns : s.noSlot p <;> simp [hnd, hns]
  | some nd => cases hns : s.noSlot p <;> cases hs : nd.st <;> simp [hnd, hns, hs]

theorem psDisconnect_ro (s : PS n) (p : Fin n) : (psDisconnect s p).1.ro = s.ro := by
  unfold psDisconnect
  cases hnd : s.nodes p with
  | none => rfl
  | some nd => cases hns : s.noSlot p <;> cases hs : nd.st <;> simp [hns, hs, setNode]

/-- after `removeNoSlotNode` + `PeersState.disconnect` the peer occupies no slot -/
theorem unreserve_disconnect_occ (s : PS n) (p : Fin n) (hc : conn s p = true) :
    Occ s (psDisconnect (removeNoSlotNode { s with reserved := upd s.reserved p false } p).1 p).1 p := by
  unfold removeNoSlotNode psDisconnect Occ isInSlot isOutSlot
  cases hnd : s.nodes p with
  | none => simp [conn, hnd] at hc
  | some nd =>
    have hst : nd.st.connected = true := by simpa [conn, hnd] using hc
    cases hns : s.noSlot p <;> cases hs : nd.st <;> simp [hs, MS.connected] at hst <;>
      simp [upd, hnd, hns, hs, setNode]

/-- reserved-only mode: `removeReservedPeers` keeps the slot maxima for every list of peers -/
theorem removeReservedPeers_inv2_ro (hn : Fits n) (l : List (Fin n)) (c : Ctx n) (h : Inv2 c.s)
    (hro : c.s.ro = true) : Inv2 (removeReservedPeers l c).1.s := by
  induction l generalizing c with
  | nil => exact h
  | cons p rest ih =>
    unfold removeReservedPeers
    split
    · exact h
    · simp only []
      have i1 := unreserve_inv hn c.s p h.1
      have ro1 := unreserve_ro c.s p
      generalize hs1 : (removeNoSlotNode { c.s with reserved := upd c.s.reserved p false } p) = r1 at *
      by_cases hcn : conn c.s p = true
      · -- connected: counters are restored by the disconnect
        have hcn1 : conn r1.1 p = true := by rw [← hs1, unreserve_conn]; exact hcn
        have i2 := psDisconnect_inv hn r1.1 p i1
        have pt : Pt c.s (psDisconnect r1.1 p).1 p := by
          rw [← hs1]; exact (unreserve_pt c.s p).trans (psDisconnect_pt _ p)
        have oc : Occ c.s (psDisconnect r1.1 p).1 p := by
          rw [← hs1]; exact unreserve_disconnect_occ c.s p hcn
        have s2 : SlotsOk (psDisconnect r1.1 p).1 := slots_step c.s _ p (h.1.toW p) h.2 i2 pt oc
        split
        · -- removeNoSlotNode error: the node is missing, impossible for a connected peer; still fine
          rename_i he
          refine ⟨i1, ?_⟩
          exact slots_step c.s _ p (h.1.toW p) h.2 i1 (by rw [← hs1]; exact unreserve_pt c.s p)
            (by
              rw [← hs1]
              exfalso
              revert he
              rw [← hs1]
              unfold removeNoSlotNode
              cases hnd : c.s.nodes p with
              | none => simp [conn, hnd] at hcn
              | some nd => cases hns : c.s.noSlot p <;> cases hs : nd.st <;> simp [hnd, hns, hs])
        · split
          · rename_i hnro
            rw [ro1, hro] at hnro
            simp at hnro
          · split
            · split
              · exact ⟨i2, s2⟩
              · apply ih _ ⟨i2, s2⟩
                simp only [emit_s]
                rw [psDisconnect_ro, ro1, hro]
            · rename_i hst
              exact absurd ((status_conn _ p).mpr hcn1) hst
      · have hcn' : conn c.s p = false := by simpa using hcn
        have hcn1 : conn r1.1 p = false := by rw [← hs1, unreserve_conn]; exact hcn'
        have s1 : SlotsOk r1.1 := slots_step c.s _ p (h.1.toW p) h.2 i1
          (by rw [← hs1]; exact unreserve_pt c.s p) (by rw [← hs1]; exact unreserve_occ_notconn c.s p hcn')
        split
        · exact ⟨i1, s1⟩
        · split
          · exact ⟨i1, s1⟩
          · split
            · rename_i hst
              rw [status_conn, hcn1] at hst
              cases hst
            · apply ih _ ⟨i1, s1⟩
              simp only [withS_s]
              rw [ro1, hro]

/-- outside reserved-only mode only the first peer is processed -/
theorem removeReservedPeers_inv2_safe (hn : Fits n) (p : Fin n) (rest : List (Fin n)) (c : Ctx n)
    (h : Inv2 c.s) (hro : c.s.ro = false)
    (hsafe : c.s.reserved p = false ∨ nodeProp (c.s.nodes p) (fun nd =>
        (nd.st = .ingoing → c.s.numIn < c.s.maxIn) ∧ (nd.st = .outgoing → c.s.numOut < c.s.maxOut))) :
    Inv2 (removeReservedPeers (p :: rest) c).1.s := by
  unfold removeReservedPeers
  split
  · exact h
  · rename_i hres
    simp only []
    have i1 := unreserve_inv hn c.s p h.1
    have ro1 := unreserve_ro c.s p
    have hs : ∀ nd, c.s.nodes p = some nd →
        (nd.st = .ingoing → c.s.numIn < c.s.maxIn) ∧ (nd.st = .outgoing → c.s.numOut < c.s.maxOut) := by
      cases hsafe with
      | inl h' => simp [h'] at hres
      | inr h' => exact (nodeProp_iff _ _).mp h'
    have s1 := slots_step c.s _ p (h.1.toW p) h.2 i1 (unreserve_pt c.s p) (unreserve_occ_safe c.s p hs)
    split
    · exact ⟨i1, s1⟩
    · split
      · exact ⟨i1, s1⟩
      · rename_i hnro
        rw [ro1, hro] at hnro
        simp at hnro

theorem removeReservedPeers_inv2 (hn : Fits n) (l : List (Fin n)) (c : Ctx n) (hI : Inv2 c.s)
    (hG : slotGuard c.s l) : Inv2 (removeReservedPeers l c).1.s := by
  cases l with
  | nil => exact hI
  | cons p rest =>
    by_cases hro : c.s.ro = true
    · exact removeReservedPeers_inv2_ro hn _ _ hI hro
    · have hro' : c.s.ro = false := by simpa using hro
      cases hG with
      | inl h' => exact absurd h' hro
      | inr h' => exact removeReservedPeers_inv2_safe hn p rest _ hI hro' h'

theorem step_inv2 (hn : Fits n) (s : PS n) (op : Op n) (h : List (Msg n)) (hI : Inv2 s)
    (hsafe : rrSafe s op h) : Inv2 (step s op h).1 :=
  applyOp_closed (closed_inv2 hn) slotGuard (fun l c' hI' hG => removeReservedPeers_inv2 hn l c' hI' hG)
    op _ ((closed_inv2 hn).cClearFresh s hI) hsafe

theorem run_inv2 (hn : Fits n) (s : PS n) (ops : List (Op n × List (Msg n))) (hI : Inv2 s)
    (hsafe : safeRun s ops) : Inv2 (run s ops) := by
  induction ops generalizing s with
  | nil => exact hI
  | cons o rest ih =>
    obtain ⟨op, h⟩ := o
    exact ih _ (step_inv2 hn s op h hI hsafe.1) hsafe.2

/-- the configured maxima never change -/
def MaxIs (mi mo : Nat) (s : PS n) : Prop := s.maxIn = mi ∧ s.maxOut = mo

theorem Pt.maxIs {s s' : PS n} {p : Fin n} {mi mo : Nat} (h : Pt s s' p) (hm : MaxIs mi mo s) : MaxIs mi mo s' :=
  ⟨h.maxIn.trans hm.1, h.maxOut.trans hm.2⟩

theorem closed_max (mi mo : Nat) : Closed (MaxIs (n := n) mi mo) (fun s _ => MaxIs mi mo s) where
  cInsert := fun s p h => (insertPeer_pt s p).maxIs h
  cForget := fun s p h _ => (forgetPeer_pt s p).maxIs h
  cDisc := fun s p h => (psDisconnect_pt s p).maxIs h
  cOut := fun s p h _ _ => (tryOutgoing_pt s p).maxIs h
  cAccept := fun s p h _ _ => (tryAcceptIncoming_pt s p).maxIs h
  cReserve := fun s p h => (reserve_pt s p).maxIs h
  cAddRepW := fun s p v h => (addReputation_pt s p v).maxIs h
  cNodeAddRepW := fun s p v h => (nodeAddRep_pt s p v).maxIs h
  cOfW := fun _ _ h _ => h
  cDiscW := fun s p h _ => (psDisconnect_pt s p).maxIs h
  cTouch := fun s p h => (touch_pt s p).maxIs h
  cUpdateTime := fun s h => by
    have := tickN_ctrs s.pending s
    unfold MaxIs updateTime at *
    simp only []
    omega
  cClearFresh := fun _ h => h
  cAdv := fun _ _ _ h => h

theorem removeReservedPeers_max (mi mo : Nat) (l : List (Fin n)) (c : Ctx n) (h : MaxIs mi mo c.s) :
    MaxIs mi mo (removeReservedPeers l c).1.s := by
  induction l generalizing c with
  | nil => exact h
  | cons p rest ih =>
    unfold removeReservedPeers
    split
    · exact h
    · simp only []
      have h1 := (unreserve_pt c.s p).maxIs h
      split
      · exact h1
      · split
        · exact h1
        · split
          · have h2 := (psDisconnect_pt _ p).maxIs h1
            split
            · exact h2
            · exact ih _ h2
          · exact ih _ h1

theorem run_max (mi mo : Nat) (s : PS n) (ops : List (Op n × List (Msg n))) (h : MaxIs mi mo s) :
    MaxIs mi mo (run s ops) := by
  induction ops generalizing s with
  | nil => exact h
  | cons o rest ih =>
    obtain ⟨op, hh⟩ := o
    apply ih
    exact applyOp_closed (closed_max mi mo) (fun _ _ => True)
      (fun l c' h' _ => removeReservedPeers_max mi mo l c' h') op _
      (show MaxIs mi mo (clearFresh s) from h) (by cases op <;> trivial)

/-! ## The property theorems -/

/-- **C30, counters.**  After every history (any operations, any resolution of map order, any clock
    oracle) `numIn` / `numOut` equal the number of connected non-no-slot peers of that direction. -/
theorem C30_counters (hn : Fits n) (maxIn maxOut : Nat) (ro : Bool) (ops : List (Op n × List (Msg n))) :
    (run (newPS maxIn maxOut ro) ops).numIn = cntIn (run (newPS maxIn maxOut ro : PS n) ops) ∧
    (run (newPS maxIn maxOut ro) ops).numOut = cntOut (run (newPS maxIn maxOut ro : PS n) ops) :=
  let h := run_inv hn _ ops (newPS_inv maxIn maxOut ro)
  ⟨h.cin, h.cout⟩

/-- **C30, banned peers.**  After every history no connected peer (reserved or not) has a reputation
    below `BannedThresholdValue`. -/
theorem C30_no_banned (hn : Fits n) (maxIn maxOut : Nat) (ro : Bool) (ops : List (Op n × List (Msg n)))
    (p : Fin n) (nd : Node) (h : (run (newPS maxIn maxOut ro : PS n) ops).nodes p = some nd)
    (hc : nd.st = .ingoing ∨ nd.st = .outgoing) : bannedThreshold ≤ nd.rep := by
  apply (run_inv hn _ ops (newPS_inv maxIn maxOut ro)).noban p nd h
  cases hc with
  | inl h => simp [h, MS.connected]
  | inr h => simp [h, MS.connected]

/-- reputations stay in the int32 range, so the wrap-free arithmetic `addI`/`subI`/`tickI` of the
    state machine coincides with the 32-bit code (`C30_saturating_*`) -/
theorem C30_rep_range (hn : Fits n) (maxIn maxOut : Nat) (ro : Bool) (ops : List (Op n × List (Msg n)))
    (p : Fin n) (nd : Node) (h : (run (newPS maxIn maxOut ro : PS n) ops).nodes p = some nd) :
    minI32 ≤ nd.rep ∧ nd.rep ≤ maxI32 :=
  (run_inv hn _ ops (newPS_inv maxIn maxOut ro)).range p nd h

/- Full statement (false for the code as it is):
     ∀ ops, numIn ≤ maxIn ∧ numOut ≤ maxOut after `run (newPS maxIn maxOut ro) ops`.
   `removeReservedPeers` outside reserved-only mode turns a connected no-slot peer into a
   slot-occupying one without looking at the maximum.  Proved for every history whose
   `removeReserved` operations satisfy `rrSafe`; `C30_slots_counterexample` is the excluded region. -/
theorem C30_slots_partial (hn : Fits n) (maxIn maxOut : Nat) (ro : Bool)
    (ops : List (Op n × List (Msg n))) (hsafe : safeRun (newPS maxIn maxOut ro : PS n) ops) :
    (run (newPS maxIn maxOut ro : PS n) ops).numIn ≤ maxIn ∧
    (run (newPS maxIn maxOut ro : PS n) ops).numOut ≤ maxOut := by
  have h := (run_inv2 hn _ ops ⟨newPS_inv maxIn maxOut ro, by simp [SlotsOk, newPS]⟩ hsafe).2
  have hm := run_max maxIn maxOut (newPS maxIn maxOut ro : PS n) ops ⟨rfl, rfl⟩
  unfold SlotsOk at h
  rw [hm.1, hm.2] at h
  exact h

/-- the excluded region is real: reserve a peer (it is connected outside the slots), then unreserve it
    with `maxOut = 0`: `numOut = 1 > maxOut`.  (`1 0 0|ar 0 >C0;rr 0 >` in the correspondence run.) -/
theorem C30_slots_counterexample :
    ¬ ((run (newPS 1 0 false : PS 1)
          [(.addReserved [0], [.connect 0]), (.removeReserved [0], [])]).numOut ≤ 0) := by
  decide

/-- `C30_slots_partial` is not vacuous: a history with reservations, an unreservation that finds a free
    slot, incoming and outgoing connections is `safeRun` -/
example : safeRun (newPS 1 2 false : PS 3)
    [(.addReserved [0], [.connect 0]), (.addPeer [1], [.connect 1]), (.removeReserved [0], []),
     (.incoming [2], [.accept 2]), (.disconnect [0], [.drop 0, .connect 0])] := by
  decide

/-! ### a report reaches every listed peer -/

/-- reputations (0 for an unknown peer) and the pending time are the same -/
def SameRep (s s' : PS n) : Prop := (∀ p, repOf s' p = repOf s p) ∧ s'.pending = s.pending

theorem SameRep.refl (s : PS n) : SameRep s s := ⟨fun _ => rfl, rfl⟩
theorem SameRep.trans {s s' s'' : PS n} (h1 : SameRep s s') (h2 : SameRep s' s'') : SameRep s s'' :=
  ⟨fun p => (h2.1 p).trans (h1.1 p), h2.2.trans h1.2⟩

theorem sameRep_of (s s' : PS n) (p : Fin n) (hpt : Pt s s' p) (hp : repOf s' p = repOf s p)
    (hpend : s'.pending = s.pending) : SameRep s s' := by
  refine ⟨fun q => ?_, hpend⟩
  by_cases e : q = p
  · subst e; exact hp
  · unfold repOf; rw [(hpt.frame q e).1]

theorem insertPeer_same (s : PS n) (p : Fin n) : SameRep s (insertPeer s p) := by
  apply sameRep_of s _ p (insertPeer_pt s p) (insertPeer_repOf s p)
  unfold insertPeer; split <;> rfl

theorem tryOutgoing_same (s : PS n) (p : Fin n) : SameRep s (tryOutgoing s p).1 := by
  apply sameRep_of s _ p (tryOutgoing_pt s p)
  · unfold tryOutgoing
    cases hnd : s.nodes p with
    | none => cases hns : s.noSlot p <;> by_cases hlt : s.numOut < s.maxOut <;> simp [hns, hlt]
    | some nd =>
      cases hns : s.noSlot p <;> by_cases hlt : s.numOut < s.maxOut <;>
        simp [hns, hlt, repOf, setNode, upd, hnd]
  · unfold tryOutgoing
    cases hnd : s.nodes p with
    | none => cases hns : s.noSlot p <;> by_cases hlt : s.numOut < s.maxOut <;> simp [hns, hlt]
    | some nd =>
      cases hns : s.noSlot p <;> by_cases hlt : s.numOut < s.maxOut <;> simp [hns, hlt, setNode]

theorem psDisconnect_same (s : PS n) (p : Fin n) : SameRep s (psDisconnect s p).1 := by
  apply sameRep_of s _ p (psDisconnect_pt s p)
  · unfold psDisconnect
    cases hnd : s.nodes p with
    | none => rfl
    | some nd => cases hns : s.noSlot p <;> cases hs : nd.st <;> simp [repOf, setNode, upd, hnd, hns, hs]
  · unfold psDisconnect
    cases hnd : s.nodes p with
    | none => rfl
    | some nd => cases hns : s.noSlot p <;> cases hs : nd.st <;> simp [setNode, hns, hs]

theorem updateTime_same (s : PS n) (h : s.pending = 0) : SameRep s (updateTime s) := by
  unfold updateTime
  rw [h]
  exact ⟨fun _ => rfl, h.symm⟩

theorem whileLoop_same (fuel : Nat) (c : Ctx n) : SameRep c.s (whileLoop fuel c).s := by
  induction fuel generalizing c with
  | zero => exact SameRep.refl _
  | succ fuel ih =>
    unfold whileLoop
    split
    · exact SameRep.refl _
    · split
      · exact SameRep.refl _
      · rename_i p hp
        split
        · exact SameRep.refl _
        · simp only []
          split
          · exact SameRep.refl _
          · exact (tryOutgoing_same c.s p).trans (ih _)

theorem reservedLoop_same (fuel : Nat) (c : Ctx n) : SameRep c.s (reservedLoop fuel c).1.s := by
  induction fuel generalizing c with
  | zero => exact SameRep.refl _
  | succ fuel ih =>
    unfold reservedLoop
    simp only []
    split
    · exact SameRep.refl _
    · rename_i p hp
      have h1 : SameRep c.s (if status c.s p = .unknown then insertPeer c.s p else c.s) := by
        split
        · exact insertPeer_same _ _
        · exact SameRep.refl _
      generalize (if status c.s p = .unknown then insertPeer c.s p else c.s) = s1 at *
      by_cases he : (tryOutgoing s1 p).2 = true
      · rw [if_pos he]; exact h1
      · rw [if_neg he]
        exact (h1.trans (tryOutgoing_same s1 p)).trans (ih _)

/-- connecting a reserved peer cannot fail: it is a no-slot node and it exists -/
theorem reservedLoop_ok (hn : Fits n) (fuel : Nat) (c : Ctx n) (hI : Inv c.s) : (reservedLoop fuel c).2 = false := by
  induction fuel generalizing c with
  | zero => rfl
  | succ fuel ih =>
    unfold reservedLoop
    simp only []
    split
    · rfl
    · rename_i p hp
      have hgood : p ∈ resGood c.s := by
        split at hp
        · simp at hp; subst hp
          rename_i q hq
          split at hq
          · split at hq
            · simp at hq; subst hq; assumption
            · simp at hq
          · simp at hq
        · split at hp
          · exact List.mem_of_mem_head? hp
          · simp at hp
      have hres : c.s.reserved p = true := by
        have h2 := List.mem_filter.mp (List.mem_filter.mp hgood).1
        have := h2.2
        simp at this
        exact this.1
      have hns : c.s.noSlot p = true := hI.resNoSlot p hres
      have hs1 : Inv (if status c.s p = .unknown then insertPeer c.s p else c.s) := by
        split
        · exact insertPeer_inv hn _ _ hI
        · exact hI
      have hc1 : conn (if status c.s p = .unknown then insertPeer c.s p else c.s) p = false := by
        split
        · rw [insertPeer_conn]; exact (resGood_props _ _ hgood).1
        · exact (resGood_props _ _ hgood).1
      have hr1 : bannedThreshold ≤ repOf (if status c.s p = .unknown then insertPeer c.s p else c.s) p := by
        split
        · rw [insertPeer_repOf]; exact (resGood_props _ _ hgood).2
        · exact (resGood_props _ _ hgood).2
      have hex : ∃ nd, (if status c.s p = .unknown then insertPeer c.s p else c.s).nodes p = some nd := by
        split
        · unfold insertPeer
          cases hnd : c.s.nodes p with
          | none => exact ⟨⟨.notConnected, 0, true⟩, by simp [setNode, upd]⟩
          | some nd => exact ⟨nd, hnd⟩
        · rename_i hst
          unfold status at hst
          cases hnd : c.s.nodes p with
          | none => simp [hnd] at hst
          | some nd => exact ⟨nd, rfl⟩
      have hns1 : (if status c.s p = .unknown then insertPeer c.s p else c.s).noSlot p = true := by
        split
        · unfold insertPeer; split <;> exact hns
        · exact hns
      generalize (if status c.s p = .unknown then insertPeer c.s p else c.s) = s1 at *
      have hok : (tryOutgoing s1 p).2 = false := by
        obtain ⟨nd, hnd⟩ := hex
        unfold tryOutgoing
        simp [hns1, hnd]
      rw [hok]
      simp only [Bool.false_eq_true, if_false]
      apply ih
      simp only [emit_s]
      exact tryOutgoing_inv hn _ p hs1 hc1 hr1

theorem allocSlots_ok (hn : Fits n) (c : Ctx n) (hI : Inv c.s) : (allocSlots c).2 = false := by
  unfold allocSlots
  simp only []
  have h1 := reservedLoop_ok hn (n + 1) (withS c (updateTime c.s)) (updateTime_inv _ hI)
  rw [h1]
  simp only [Bool.false_eq_true, if_false]
  split <;> rfl

theorem allocSlots_same (c : Ctx n) (h : c.s.pending = 0) : SameRep c.s (allocSlots c).1.s := by
  unfold allocSlots
  simp only []
  have h0 : SameRep c.s (withS c (updateTime c.s)).s := updateTime_same c.s h
  have h1 := h0.trans (reservedLoop_same (n + 1) (withS c (updateTime c.s)))
  split
  · exact h1
  · split
    · exact h1
    · exact h1.trans (whileLoop_same _ _)

/-- `k` applications of `Reputation.add v` -/
def addN (v : Int) : Nat → Int → Int
  | 0, r => r
  | k + 1, r => addN v k (addI r v)

theorem addReputation_repOf (s : PS n) (p q : Fin n) (v : Int) :
    repOf (addReputation s p v).1 q = if q = p then addI (repOf s p) v else repOf s q := by
  unfold addReputation repOf
  by_cases e : q = p
  · subst e; cases hnd : s.nodes q <;> simp [setNode, upd, hnd]
  · simp [setNode, upd, e]

theorem reportLoop_spec (hn : Fits n) (v : Int) (l : List (Fin n)) (c : Ctx n) (hI : Inv c.s)
    (hp : c.s.pending = 0) :
    (reportLoop v l c).2 = false ∧ ∀ q, repOf (reportLoop v l c).1.s q = addN v (l.count q) (repOf c.s q) := by
  induction l generalizing c with
  | nil => exact ⟨rfl, fun _ => rfl⟩
  | cons p rest ih =>
    have hW := addReputation_invW hn c.s p v hI
    have hpa : (addReputation c.s p v).1.pending = 0 := hp
    -- the value every continuation has to reach
    have key : ∀ (c' : Ctx n), Inv c'.s → c'.s.pending = 0 →
        (∀ q, repOf c'.s q = repOf (addReputation c.s p v).1 q) →
        (reportLoop v rest c').2 = false ∧
        ∀ q, repOf (reportLoop v rest c').1.s q = addN v ((p :: rest).count q) (repOf c.s q) := by
      intro c' hI' hp' hrep
      have := ih c' hI' hp'
      refine ⟨this.1, fun q => ?_⟩
      rw [this.2 q, hrep q, addReputation_repOf, List.count_cons]
      by_cases e : q = p
      · subst e; simp [addN]
      · have : (p == q) = false := by simp; exact fun h => e h.symm
        simp [e, this]
    unfold reportLoop
    simp only []
    split
    · rename_i hge
      exact key _ (hW.toInv (fun nd h _ => by rw [addReputation_rep c.s p v nd h]; omega)) hpa (fun _ => rfl)
    · split
      · rename_i hnc
        refine key _ (hW.toInv (fun nd h hcn => ?_)) hpa (fun _ => rfl)
        exfalso
        apply hnc
        rw [status_conn]
        simp [conn, h, hcn]
      · rename_i hcn
        have hcn' : conn (addReputation c.s p v).1 p = true := by
          rw [← status_conn]
          exact Classical.not_not.mp hcn
        have h1 := psDisconnect_invW hn _ p hW hcn'
        have hok := psDisconnect_ok _ p hcn'
        have hd := psDisconnect_same (addReputation c.s p v).1 p
        rw [hok]
        simp only [Bool.false_eq_true, if_false]
        have ha_ok := allocSlots_ok hn (emit c (psDisconnect (addReputation c.s p v).1 p).1 (.drop p)) h1
        have ha_same := allocSlots_same (emit c (psDisconnect (addReputation c.s p v).1 p).1 (.drop p))
          (by simp only [emit_s]; rw [hd.2]; exact hpa)
        have ha_inv := allocSlots_inv' hn (emit c (psDisconnect (addReputation c.s p v).1 p).1 (.drop p)) h1
        rw [ha_ok]
        simp only [Bool.false_eq_true, if_false]
        refine key _ ha_inv ?_ ?_
        · rw [ha_same.2]; simp only [emit_s]; rw [hd.2]; exact hpa
        · intro q; rw [ha_same.1 q]; simp only [emit_s]; exact hd.1 q

/-- **C30, reports.**  From any state satisfying the invariant, `reportPeer(v, ps...)` returns no
    error and every peer ends with the reputation it had after the time update, changed by `v` once
    per occurrence in `ps` (saturating); peers not listed keep theirs.  (An unknown peer counts as 0.) -/
theorem C30_report_all (hn : Fits n) (s : PS n) (hI : Inv s) (v : Int) (ps : List (Fin n))
    (hint : List (Msg n)) :
    (step s (.report v ps) hint).2.2 = false ∧
    ∀ q, repOf (step s (.report v ps) hint).1 q
          = addN v (ps.count q) (repOf (updateTime (clearFresh s)) q) := by
  have h := reportLoop_spec hn v ps
    (withS { s := clearFresh s, out := [], hint := hint } (updateTime (clearFresh s)))
    (updateTime_inv _ (clearFresh_inv s hI)) rfl
  exact h

/-- the same for every reachable state -/
theorem C30_report_all_reachable (hn : Fits n) (maxIn maxOut : Nat) (ro : Bool)
    (ops : List (Op n × List (Msg n))) (v : Int) (ps : List (Fin n)) (hint : List (Msg n)) (q : Fin n) :
    repOf (step (run (newPS maxIn maxOut ro : PS n) ops) (.report v ps) hint).1 q
      = addN v (ps.count q) (repOf (updateTime (clearFresh (run (newPS maxIn maxOut ro : PS n) ops))) q) :=
  (C30_report_all hn _ (run_inv hn _ ops (newPS_inv maxIn maxOut ro)) v ps hint).2 q

/-- a two-peer report really moves both (the defect repaired by the `fix:` commit) -/
example : (fun s : PS 3 => (repOf s 0, repOf s 1, repOf s 2))
    (step (newPS 2 2 false : PS 3) (.report (-10) [0, 1, 1]) []).1 = (-10, -20, 0) := by decide

/-! ### saturating arithmetic -/

def clamp (x : Int) : Int := if x > maxI32 then maxI32 else if x < minI32 then minI32 else x

theorem addI_clamp (r v : Int) (hr : InRange r) (hv : InRange v) : addI r v = clamp (r + v) := by
  unfold InRange addI clamp minI32 maxI32 at *
  split <;> split <;> split <;> omega

theorem subI_clamp (r v : Int) (hr : InRange r) (hv : InRange v) : subI r v = clamp (r - v) := by
  unfold InRange subI clamp minI32 maxI32 at *
  split <;> split <;> split <;> omega

theorem bmod_small (x : Int) (h1 : -2147483648 ≤ x) (h2 : x < 2147483648) : x.bmod (2 ^ 32) = x := by
  rw [Int.bmod_def]; omega

theorem toInt_max : Int32.maxValue.toInt = 2147483647 := by decide
theorem toInt_min : Int32.minValue.toInt = -2147483648 := by decide

/-- the 32-bit `Reputation.add` (wrapping machine arithmetic, as in Go) equals the integer version -/
theorem add32_eq (a b : Int32) : (add32 a b).toInt = addI a.toInt b.toInt := by
  have ha1 := Int32.le_toInt a
  have ha2 := Int32.toInt_lt a
  have hb1 := Int32.le_toInt b
  have hb2 := Int32.toInt_lt b
  unfold add32 addI maxI32 minI32
  simp only [Int32.lt_iff_toInt_lt, gt_iff_lt, Int32.toInt_sub, toInt_max, toInt_min, Int32.toInt_zero]
  by_cases hb : 0 < b.toInt
  · simp only [hb, if_true]
    rw [bmod_small _ (by omega) (by omega)]
    split
    · exact toInt_max
    · rw [Int32.toInt_add, bmod_small _ (by omega) (by omega)]
  · simp only [hb, if_false]
    rw [bmod_small _ (by omega) (by omega)]
    split
    · exact toInt_min
    · rw [Int32.toInt_add, bmod_small _ (by omega) (by omega)]

theorem sub32_eq (a b : Int32) : (sub32 a b).toInt = subI a.toInt b.toInt := by
  have ha1 := Int32.le_toInt a
  have ha2 := Int32.toInt_lt a
  have hb1 := Int32.le_toInt b
  have hb2 := Int32.toInt_lt b
  unfold sub32 subI maxI32 minI32
  simp only [Int32.lt_iff_toInt_lt, gt_iff_lt, Int32.toInt_add, toInt_max, toInt_min, Int32.toInt_zero]
  by_cases hb : b.toInt < 0
  · simp only [hb, if_true]
    rw [bmod_small _ (by omega) (by omega)]
    split
    · exact toInt_max
    · rw [Int32.toInt_sub, bmod_small _ (by omega) (by omega)]
  · simp only [hb, if_false]
    rw [bmod_small _ (by omega) (by omega)]
    split
    · exact toInt_min
    · rw [Int32.toInt_sub, bmod_small _ (by omega) (by omega)]

theorem int32_inRange (a : Int32) : InRange a.toInt := by
  have ha1 := Int32.le_toInt a
  have ha2 := Int32.toInt_lt a
  unfold InRange minI32 maxI32
  omega

/-- **C30, saturation.**  `Reputation.add` on int32 is addition clamped to [MinInt32, MaxInt32] -/
theorem C30_saturating_add (a b : Int32) : (add32 a b).toInt = clamp (a.toInt + b.toInt) := by
  rw [add32_eq, addI_clamp _ _ (int32_inRange a) (int32_inRange b)]

/-- `Reputation.sub` on int32 is subtraction clamped to [MinInt32, MaxInt32] -/
theorem C30_saturating_sub (a b : Int32) : (sub32 a b).toInt = clamp (a.toInt - b.toInt) := by
  rw [sub32_eq, subI_clamp _ _ (int32_inRange a) (int32_inRange b)]

theorem goDiv50_tdiv (x : Int) : Int.tdiv x 50 = goDiv50 x := by
  unfold goDiv50
  split
  · rw [Int.tdiv_eq_ediv_of_nonneg (by omega)]
  · have : x = -(-x) := by omega
    rw [this, Int.neg_tdiv, Int.tdiv_eq_ediv_of_nonneg (by omega)]; simp

/-- `reputationTick` on int32 equals the integer version used by the state machine -/
theorem C30_tick32_eq (a : Int32) : (tick32 a).toInt = tickI a.toInt := by
  have ha1 := Int32.le_toInt a
  have ha2 := Int32.toInt_lt a
  unfold tick32 tickI
  simp only []
  have hd : (a / 50).toInt = goDiv50 a.toInt := by
    rw [Int32.toInt_div, ← goDiv50_tdiv]
    have : (50 : Int32).toInt = 50 := by decide
    rw [this]
    apply bmod_small
    · rw [goDiv50_tdiv]; unfold goDiv50; split <;> omega
    · rw [goDiv50_tdiv]; unfold goDiv50; split <;> omega
  rw [sub32_eq]
  congr 1
  have h0 : (a / 50 = 0) ↔ (goDiv50 a.toInt = 0) := by
    rw [← hd, ← Int32.toInt_inj]; simp
  simp only [h0, Int32.lt_iff_toInt_lt, Int32.toInt_zero, gt_iff_lt]
  split
  · decide
  · split
    · decide
    · exact hd

/-- a tick moves a reputation toward zero and never across it or below the ban threshold -/
theorem C30_tick_toward_zero (r : Int) (h : InRange r) :
    (0 ≤ r → 0 ≤ tickI r ∧ tickI r ≤ r) ∧ (r ≤ 0 → r ≤ tickI r ∧ tickI r ≤ 0) := by
  unfold InRange minI32 maxI32 at h
  unfold tickI subI goDiv50 minI32 maxI32
  simp only []
  constructor <;> intro h0 <;> split <;> split <;> split <;> (try split) <;> (try split) <;> omega

/-! ### incoming connections of banned peers -/

/-- **C30, banned peers are not accepted.**  `incoming` answers `Reject` for a peer (not already
    connected) whose reputation after the time update is below the threshold, and leaves it not
    connected; this holds in every mode and whether or not the peer is reserved. -/
theorem C30_incoming_banned_rejected (s : PS n) (p : Fin n) (hint : List (Msg n))
    (hc : conn (updateTime (clearFresh s)) p = false)
    (hb : repOf (updateTime (clearFresh s)) p < bannedThreshold) :
    (step s (.incoming [p]) hint).2.1 = [.reject p] ∧ conn (step s (.incoming [p]) hint).1 p = false := by
  unfold step applyOp incoming incomingLoop incomingLoop
  simp only [withS_s]
  generalize updateTime (clearFresh s) = s1 at *
  have hne : repOf s1 p ≠ 0 := by
    have := thr_neg; omega
  have hnode : ∃ nd, s1.nodes p = some nd := by
    unfold repOf at hne
    cases hnd : s1.nodes p with
    | none => simp [hnd] at hne
    | some nd => exact ⟨nd, rfl⟩
  obtain ⟨nd, hnd⟩ := hnode
  have hst : nd.st.connected = false := by simpa [conn, hnd] using hc
  have hrep : nd.rep < bannedThreshold := by simpa [repOf, hnd] using hb
  by_cases hro : (s1.ro && !s1.reserved p) = true
  · simp [hro, emit, withS, hc]
  · simp only [hro]
    cases hs : nd.st with
    | ingoing => simp [hs, MS.connected] at hst
    | outgoing => simp [hs, MS.connected] at hst
    | notConnected =>
      simp [status, hnd, hs, touch, repOf, setNode, upd, hrep, emit, withS, conn, MS.connected]
    | notMember =>
      simp [status, hnd, hs, insertPeer, repOf, hrep, emit, withS, conn, MS.connected]

/-- the hypotheses of `C30_incoming_banned_rejected` are satisfiable: a peer reported down to MinInt32 -/
example :
    let s : PS 2 := run (newPS 1 1 false) [(.report minI32 [0], [])]
    conn (updateTime (clearFresh s)) 0 = false ∧ repOf (updateTime (clearFresh s)) 0 < bannedThreshold := by
  decide

/-! ### sortedPeers -/

theorem insertDesc_perm (s : PS n) (p : Fin n) (l : List (Fin n)) : (insertDesc s p l).Perm (p :: l) := by
  induction l with
  | nil => exact List.Perm.refl _
  | cons q l ih =>
    unfold insertDesc
    split
    · exact List.Perm.refl _
    · exact (List.Perm.cons q ih).trans (List.Perm.swap p q l)

theorem insertDesc_sorted (s : PS n) (p : Fin n) (l : List (Fin n))
    (h : l.Pairwise (fun a b => repOf s a ≥ repOf s b)) :
    (insertDesc s p l).Pairwise (fun a b => repOf s a ≥ repOf s b) := by
  induction l with
  | nil => simp [insertDesc]
  | cons q l ih =>
    unfold insertDesc
    rw [List.pairwise_cons] at h
    split
    · rename_i hge
      rw [List.pairwise_cons]
      refine ⟨?_, List.pairwise_cons.mpr h⟩
      intro a ha
      cases ha with
      | head => exact hge
      | tail _ ha => have := h.1 a ha; omega
    · rename_i hlt
      rw [List.pairwise_cons]
      refine ⟨?_, ih h.2⟩
      intro a ha
      have hm := (insertDesc_perm s p l).mem_iff.mp ha
      cases hm with
      | head => omega
      | tail _ hm => exact h.1 a hm

theorem sortedPeers_perm (s : PS n) : (sortedPeers s).Perm ((allPeers n).filter (conn s)) := by
  unfold sortedPeers
  induction (allPeers n).filter (conn s) with
  | nil => exact List.Perm.refl _
  | cons p l ih => exact (insertDesc_perm s p _).trans (List.Perm.cons p ih)

/-- **`sortedPeers`** returns exactly the connected peers, each once, by non-increasing reputation -/
theorem C30_sortedPeers (s : PS n) :
    (∀ p, p ∈ sortedPeers s ↔ conn s p = true) ∧ (sortedPeers s).Nodup ∧
    (sortedPeers s).Pairwise (fun a b => repOf s a ≥ repOf s b) := by
  refine ⟨?_, ?_, ?_⟩
  · intro p
    rw [(sortedPeers_perm s).mem_iff, List.mem_filter]
    simp [allPeers, List.mem_finRange]
  · rw [(sortedPeers_perm s).nodup_iff]
    exact (List.nodup_finRange n).filter _
  · unfold sortedPeers
    induction (allPeers n).filter (conn s) with
    | nil => simp
    | cons p l ih => exact insertDesc_sorted s p _ ih

/-- in a reachable state nobody `sortedPeers` returns is banned -/
theorem C30_sortedPeers_not_banned (hn : Fits n) (maxIn maxOut : Nat) (ro : Bool)
    (ops : List (Op n × List (Msg n))) (p : Fin n)
    (h : p ∈ sortedPeers (run (newPS maxIn maxOut ro : PS n) ops)) :
    bannedThreshold ≤ repOf (run (newPS maxIn maxOut ro : PS n) ops) p := by
  have hc := ((C30_sortedPeers _).1 p).mp h
  have hI := run_inv hn _ ops (newPS_inv (n := n) maxIn maxOut ro)
  unfold conn at hc
  unfold repOf
  cases hnd : (run (newPS maxIn maxOut ro : PS n) ops).nodes p with
  | none => simp [hnd] at hc
  | some nd => simp [hnd] at hc; exact hI.noban p nd hnd hc

/-! ### the actor of handler.go -/

/-- the operations the actor has applied so far -/
def logOps (h : HS n) : List (Op n × List (Msg n)) := h.log.map (fun e => (e.op, e.hint))

theorem run_append (s : PS n) (a b : List (Op n × List (Msg n))) : run s (a ++ b) = run (run s a) b := by
  induction a generalizing s with
  | nil => rfl
  | cons o a ih => obtain ⟨op, h⟩ := o; exact ih _

/-- what a handler state must satisfy relative to the state `s0` it started from (empty queue, empty
    log) and the API calls `calls` made so far -/
structure ActorOk (s0 : PS n) (calls : List (Action n)) (h : HS n) : Prop where
  /-- the peer set is the synchronous semantics of the logged operations, in order -/
  sem : h.ps = run s0 (logOps h)
  /-- FIFO: served actions followed by the queue are the calls, in call order -/
  fifo : h.log.filterMap (·.act) ++ h.queue = calls
  /-- every log entry is an action's operation (for some map order) or a ticker `allocSlots` -/
  ops : ∀ e ∈ h.log, (∃ a ord, e.act = some a ∧ e.op = a.toOp ord) ∨ (e.act = none ∧ e.op = .tick)

theorem hstep_ok (s0 : PS n) (calls : List (Action n)) (h : HS n) (ev : Ev n) (hk : ActorOk s0 calls h) :
    ActorOk s0 (calls ++ callsOf [ev]) (hstep h ev) := by
  cases ev with
  | call a =>
    refine ⟨hk.sem, ?_, hk.ops⟩
    show h.log.filterMap (·.act) ++ (h.queue ++ [a]) = calls ++ [a]
    rw [← List.append_assoc, hk.fifo]
  | serve hint ord =>
    simp only [callsOf, List.append_nil]
    unfold hstep
    cases hq : h.queue with
    | nil => simp only []; exact hk
    | cons a q =>
      simp only []
      refine ⟨?_, ?_, ?_⟩
      · show (step h.ps (a.toOp ord) hint).1 = run s0 ((h.log ++ [(⟨some a, a.toOp ord, hint⟩ : LogEntry n)]).map (fun e => (e.op, e.hint)))
        rw [List.map_append, run_append, ← logOps, ← hk.sem]
        rfl
      · show (h.log ++ [(⟨some a, a.toOp ord, hint⟩ : LogEntry n)]).filterMap (·.act) ++ q = calls
        rw [List.filterMap_append, ← hk.fifo, hq]
        simp
      · intro e he
        rcases List.mem_append.mp he with he | he
        · exact hk.ops e he
        · simp at he; subst he; exact Or.inl ⟨a, ord, rfl, rfl⟩
  | fire hint =>
    simp only [callsOf, List.append_nil]
    refine ⟨?_, ?_, ?_⟩
    · show (step h.ps .tick hint).1 = run s0 ((h.log ++ [(⟨none, .tick, hint⟩ : LogEntry n)]).map (fun e => (e.op, e.hint)))
      rw [List.map_append, run_append, ← logOps, ← hk.sem]
      rfl
    · show (h.log ++ [(⟨none, .tick, hint⟩ : LogEntry n)]).filterMap (·.act) ++ h.queue = calls
      rw [List.filterMap_append, ← hk.fifo]
      simp
    · intro e he
      rcases List.mem_append.mp he with he | he
      · exact hk.ops e he
      · simp at he; subst he; exact Or.inr ⟨rfl, rfl⟩

theorem callsOf_append (a b : List (Ev n)) : callsOf (a ++ b) = callsOf a ++ callsOf b := by
  induction a with
  | nil => rfl
  | cons e a ih => cases e <;> simp [callsOf, ih]

theorem hrun_ok (s0 : PS n) (calls : List (Action n)) (h : HS n) (evs : List (Ev n))
    (hk : ActorOk s0 calls h) : ActorOk s0 (calls ++ callsOf evs) (hrun h evs) := by
  induction evs generalizing h calls with
  | nil => simpa [hrun, callsOf] using hk
  | cons ev evs ih =>
    have := ih (calls ++ callsOf [ev]) (hstep h ev) (hstep_ok s0 calls h ev hk)
    rw [List.append_assoc, ← callsOf_append] at this
    exact this

/-- **The actor is a FIFO executor of the synchronous methods.**  For every interleaving of API calls,
    actor receptions and ticker firings (and every map order / hint): the peer set equals the
    synchronous semantics `run` of the logged operations; the served actions followed by the actions
    still queued are exactly the API calls in call order; every logged operation is the operation of
    the served action, or a ticker `allocSlots`. -/
theorem C30_actor_fifo (maxIn maxOut : Nat) (ro : Bool) (evs : List (Ev n)) :
    let h := hrun (newHS maxIn maxOut ro : HS n) evs
    h.ps = run (newPS maxIn maxOut ro) (logOps h) ∧
    h.log.filterMap (·.act) ++ h.queue = callsOf evs ∧
    (∀ e ∈ h.log, (∃ a ord, e.act = some a ∧ e.op = a.toOp ord) ∨ (e.act = none ∧ e.op = .tick)) := by
  have hk := hrun_ok (newPS maxIn maxOut ro : PS n) [] (newHS maxIn maxOut ro) evs
    ⟨rfl, rfl, fun e he => by simp [newHS] at he⟩
  simp only [List.nil_append] at hk
  exact ⟨hk.sem, hk.fifo, hk.ops⟩

theorem log_as_calls (log : List (LogEntry n))
    (hops : ∀ e ∈ log, (∃ a ord, e.act = some a ∧ e.op = a.toOp ord) ∨ (e.act = none ∧ e.op = .tick))
    (hnofire : ∀ e ∈ log, e.act ≠ none) :
    ∃ ords hints, ords.length = (log.filterMap (·.act)).length ∧
      hints.length = (log.filterMap (·.act)).length ∧
      log.map (fun e => (e.op, e.hint)) =
        (((log.filterMap (·.act)).zip ords).zip hints).map (fun x => (x.1.1.toOp x.1.2, x.2)) := by
  induction log with
  | nil => exact ⟨[], [], rfl, rfl, rfl⟩
  | cons e log ih =>
    obtain ⟨ords, hints, h1, h2, h3⟩ := ih (fun e' he' => hops e' (List.mem_cons_of_mem _ he'))
      (fun e' he' => hnofire e' (List.mem_cons_of_mem _ he'))
    rcases hops e (List.mem_cons_self ..) with ⟨a, ord, ha, hop⟩ | ⟨hn', _⟩
    · refine ⟨ord :: ords, e.hint :: hints, ?_, ?_, ?_⟩
      · simp [List.filterMap_cons, ha, h1]
      · simp [List.filterMap_cons, ha, h2]
      · simp [List.filterMap_cons, ha, hop, h3]
    · exact absurd hn' (hnofire e (List.mem_cons_self ..))

/-- once the queue is drained and the ticker has not fired, the handler is in the state the
    synchronous methods produce for the API calls in call order -/
theorem C30_actor_drained (maxIn maxOut : Nat) (ro : Bool) (evs : List (Ev n))
    (hq : (hrun (newHS maxIn maxOut ro : HS n) evs).queue = [])
    (hnofire : ∀ e ∈ (hrun (newHS maxIn maxOut ro : HS n) evs).log, e.act ≠ none) :
    ∃ ords hints, ords.length = (callsOf evs).length ∧ hints.length = (callsOf evs).length ∧
      (hrun (newHS maxIn maxOut ro : HS n) evs).ps =
        run (newPS maxIn maxOut ro)
          ((((callsOf evs).zip ords).zip hints).map (fun x => (x.1.1.toOp x.1.2, x.2))) := by
  have h3 := C30_actor_fifo (n := n) maxIn maxOut ro evs
  simp only [] at h3
  obtain ⟨hsem, hfifo, hops⟩ := h3
  rw [hq, List.append_nil] at hfifo
  obtain ⟨ords, hints, h1, h2, h3⟩ := log_as_calls _ hops hnofire
  rw [hfifo] at h1 h2 h3
  refine ⟨ords, hints, h1, h2, ?_⟩
  rw [hsem]
  unfold logOps
  rw [h3]

/-- the invariants hold for the public `Handler` API under every schedule -/
theorem C30_handler_inv (hn : Fits n) (maxIn maxOut : Nat) (ro : Bool) (evs : List (Ev n)) :
    let s := (hrun (newHS maxIn maxOut ro : HS n) evs).ps
    s.numIn = cntIn s ∧ s.numOut = cntOut s ∧
    (∀ p nd, s.nodes p = some nd → nd.st.connected = true → bannedThreshold ≤ nd.rep) ∧
    (∀ p nd, s.nodes p = some nd → InRange nd.rep) := by
  have h3 := C30_actor_fifo (n := n) maxIn maxOut ro evs
  simp only [] at h3 ⊢
  rw [h3.1]
  have hI := run_inv hn _ (logOps (hrun (newHS maxIn maxOut ro : HS n) evs)) (newPS_inv (n := n) maxIn maxOut ro)
  exact ⟨hI.cin, hI.cout, hI.noban, hI.range⟩

/-- the slot maxima for the public API: whenever the operations the actor has applied are `safeRun` -/
theorem C30_handler_slots_partial (hn : Fits n) (maxIn maxOut : Nat) (ro : Bool) (evs : List (Ev n))
    (hsafe : safeRun (newPS maxIn maxOut ro : PS n) (logOps (hrun (newHS maxIn maxOut ro : HS n) evs))) :
    (hrun (newHS maxIn maxOut ro : HS n) evs).ps.numIn ≤ maxIn ∧
    (hrun (newHS maxIn maxOut ro : HS n) evs).ps.numOut ≤ maxOut := by
  have h3 := C30_actor_fifo (n := n) maxIn maxOut ro evs
  simp only [] at h3
  rw [h3.1]
  exact C30_slots_partial hn maxIn maxOut ro _ hsafe

/-- `setReservedPeer` outside reserved-only mode unreserves at most one peer, whichever the map order
    puts first: two reserved peers, `SetReservedPeer()` with the empty list, one stays reserved -/
example : (fun s : PS 2 => (s.reserved 0, s.reserved 1))
    (run (newPS 1 1 false : PS 2) [(.addReserved [0, 1], [.connect 0, .connect 1]), (.setReserved [] [1], [])])
    = (true, false) := by decide

end Gossamer.C30
