/-
C06 — the database-backed trie engine (`pkg/trie/triedb`) agrees with the spec.

Model: `Gossamer/Model/C06.lean` (`insertAt`/`insertInspector`, `removeAt`/`removeInspector`/`fix`,
`NewValue`, `commit`/`commitChild`, `lookup`/`TrieLookup`, deathRow) over an association-list
database.  Spec: the ordered map `specAll [] ops` of the history and its Merkle root `specRoot`
(C01: hash of the encoding of the canonical trie `build`).

FULL STATEMENT (comment; proved below for histories that stay inside one session, the rest is
covered by the correspondence run):
  for every history `ops` of put / del / get / commit / reopen on a fresh `TrieDB` over an empty
  database, no op fails, `Hash()` at the end is `specRoot ver H (specAll [] ops)`, and a fresh
  `NewTrieDB(root, db)` returns `OMap.get k (specAll [] ops)` for every key `k`.
* `C06_root_eq_spec_partial`   the root clause for every history without an intermediate
                               commit / reopen (extra hypothesis = exactly that)
* `C06_reopen_partial`         the reopen clause for the same histories (H collision-free, decoder
                               right on the nodes of the committed trie); `C06_reopen_collision`
                               states the collision clause explicitly
* `C06_threshold`              `NewValue` hashes a value iff V1 and longer than 32 bytes
-/
import Gossamer.Lib.TrieDBReopen
set_option linter.unusedSectionVars false
set_option linter.unusedSimpArgs false
namespace Gossamer.C06
open Gossamer Gossamer.Trie

/-- a trie that represents `es` has the spec root of `es` (C01) -/
theorem root_of_rep (ver : Ver) (H : Bytes → Bytes) {t : Trie} {es : Entries} (h : Rep t es) :
    hashTrie ver H t = specRoot ver H es := by
  rw [specRoot, ← h.eq_build]

/-- a session relates the in-memory tree to the canonical trie of the map, op by op -/
theorem sess_exec (c : Cfg) (hdec0 : c.dec [0] = some .empty) (ops : List Op) :
    (∀ op ∈ ops, op.inSession = true) → ∀ (s : St) (t : Trie) (es : Entries), Sess c s t → Rep t es →
      ∃ s' t', execAll c s ops = .ok s' ∧ Sess c s' t' ∧ Rep t' (specAll es ops) := by
  induction ops with
  | nil => intro _ s t es hs hr; exact ⟨s, t, rfl, hs, hr⟩
  | cons op r ih =>
    intro hin s t es hs hr
    have hin' : ∀ op ∈ r, op.inSession = true := fun o ho => hin o (List.mem_cons_of_mem _ ho)
    have hop := hin op (List.mem_cons_self ..)
    cases op with
    | put k v =>
      obtain ⟨s1, h1, hs1⟩ := sess_put c hdec0 hs k v
      obtain ⟨s', t', h2, hs2, hr2⟩ := ih hin' s1 _ _ hs1 (rep_tInsert hr k v)
      exact ⟨s', t', by simp only [execAll, execOp, h1, h2], hs2, hr2⟩
    | del k =>
      obtain ⟨s1, h1, hs1⟩ := sess_del c hdec0 hs hr.canon k
      obtain ⟨s', t', h2, hs2, hr2⟩ := ih hin' s1 _ _ hs1 (rep_tRemove hr k)
      exact ⟨s', t', by simp only [execAll, execOp, h1, h2], hs2, hr2⟩
    | get k =>
      obtain ⟨s', t', h2, hs2, hr2⟩ := ih hin' s t es hs hr
      exact ⟨s', t', by simp only [execAll, execOp, h2], hs2, hr2⟩
    | commit => simp [Op.inSession] at hop
    | reopen => simp [Op.inSession] at hop
    | bad =>
      obtain ⟨s', t', h2, hs2, hr2⟩ := ih hin' s t es hs hr
      exact ⟨s', t', by simp only [execAll, execOp, h2], hs2, hr2⟩

/-- **Root.**  For every history of puts, deletes (of any key, stored or not) and reads on a fresh
    `TrieDB` over an empty database, in either version: no op fails, `commit` succeeds, and the root
    hash it computes is the spec root of the resulting map.  `H` is any hash function; `dec` any
    decoder that decodes the empty node `[0]`. -/
theorem C06_root_eq_spec_partial (c : Cfg) (hdec0 : c.dec [0] = some .empty) (ops : List Op)
    (hs : ∀ op ∈ ops, op.inSession = true) :
    ∃ s s', execAll c (St.init c.H) ops = .ok s ∧ commit c.H s = .ok s' ∧
      s'.rootHash = specRoot c.ver c.H (specAll [] ops) := by
  obtain ⟨s, t, h1, hs1, hr1⟩ := sess_exec c hdec0 ops hs _ nil [] (sess_init c) Rep.empty
  obtain ⟨s', h2, h3⟩ := sess_commit c hs1
  exact ⟨s, s', h1, h2, by rw [h3, root_of_rep c.ver c.H hr1]⟩

/-- the root does not depend on the history, only on the resulting map -/
theorem C06_history_independent (c : Cfg) (hdec0 : c.dec [0] = some .empty) (ops1 ops2 : List Op)
    (h1 : ∀ op ∈ ops1, op.inSession = true) (h2 : ∀ op ∈ ops2, op.inSession = true)
    (hm : specAll [] ops1 = specAll [] ops2) :
    ∃ s1 s1' s2 s2', execAll c (St.init c.H) ops1 = .ok s1 ∧ commit c.H s1 = .ok s1' ∧
      execAll c (St.init c.H) ops2 = .ok s2 ∧ commit c.H s2 = .ok s2' ∧
      s1'.rootHash = s2'.rootHash := by
  obtain ⟨s1, s1', a1, b1, c1⟩ := C06_root_eq_spec_partial c hdec0 ops1 h1
  obtain ⟨s2, s2', a2, b2, c2⟩ := C06_root_eq_spec_partial c hdec0 ops2 h2
  exact ⟨s1, s1', s2, s2', a1, b1, a2, b2, by rw [c1, c2, hm]⟩

/-- what the theorems need of the decoder `dec` (`codec.Decode`, C07): it inverts the node encoding
    on the nodes of the committed trie (`viewOf`: values inline or by hash, children inlined when
    shorter than 32 bytes, else by hash) and decodes the empty node -/
def DecodesTrie (c : Cfg) (t : Trie) : Prop :=
  c.dec [0] = some .empty ∧
  ∀ n, NodeOf n t → c.dec (encodeNode c.ver c.H n) = some (viewOf c.ver c.H n)

/-- **Reopen.**  After any history of puts, deletes and reads on a fresh `TrieDB` over an empty
    database and a `commit`, a fresh `NewTrieDB(root, db)` returns for EVERY key `k` (stored or not)
    exactly `get k` of the resulting map: the stored value for stored keys, `nil` for all others.
    Hypotheses: `H` has 32-byte digests and no collisions (see `C06_reopen_collision` for the
    explicit collision clause), and the decoder inverts the encoding on the nodes of the committed
    trie (`build` of the map: the trie of the spec). -/
theorem C06_reopen_partial (c : Cfg) (ops : List Op) (hs : ∀ op ∈ ops, op.inSession = true)
    (hlen : ∀ x, (c.H x).length = 32) (hinj : ∀ a b, c.H a = c.H b → a = b)
    (hdec : DecodesTrie c (build (specAll [] ops))) :
    ∃ s s', execAll c (St.init c.H) ops = .ok s ∧ commit c.H s = .ok s' ∧
      s'.rootHash = specRoot c.ver c.H (specAll [] ops) ∧
      ∀ k, doGet c (reopenAt s') k = OMap.get k (specAll [] ops) := by
  obtain ⟨s, t, h1, hs1, hr1⟩ := sess_exec c hdec.1 ops hs _ nil [] (sess_init c) Rep.empty
  have ht : t = build (specAll [] ops) := hr1.eq_build
  obtain ⟨s', h2, h3, h4⟩ := sess_reopen_get c hdec.1 hlen hinj hs1 (by rw [ht]; exact hdec.2)
  refine ⟨s, s', h1, h2, by rw [h3, root_of_rep c.ver c.H hr1], fun k => ?_⟩
  rw [h4 k, hr1.lookup_eq]

/-- the same with the collision clause explicit: either `H` has a collision, or the fresh instance
    agrees with the map on every key -/
theorem C06_reopen_collision (c : Cfg) (ops : List Op) (hs : ∀ op ∈ ops, op.inSession = true)
    (hlen : ∀ x, (c.H x).length = 32) (hdec : DecodesTrie c (build (specAll [] ops))) :
    (∃ a b, a ≠ b ∧ c.H a = c.H b) ∨
    ∃ s s', execAll c (St.init c.H) ops = .ok s ∧ commit c.H s = .ok s' ∧
      ∀ k, doGet c (reopenAt s') k = OMap.get k (specAll [] ops) := by
  by_cases hcol : ∃ a b, a ≠ b ∧ c.H a = c.H b
  · exact Or.inl hcol
  · right
    have hinj : ∀ a b, c.H a = c.H b → a = b := by
      intro a b hab
      by_cases hne : a = b
      · exact hne
      · exact absurd ⟨a, b, hne, hab⟩ hcol
    obtain ⟨s, s', h1, h2, _, h4⟩ := C06_reopen_partial c ops hs hlen hinj hdec
    exact ⟨s, s', h1, h2, h4⟩

/-- `NewValue` stores a value by hash exactly in version 1 and when it is longer than 32 bytes
    (the threshold of the spec encoding, `mustBeHashed`) -/
theorem C06_threshold (ver : Ver) (v : Bytes) :
    ((∃ d, newValue ver v = .fresh d) ↔ (ver = Ver.v1 ∧ 32 < v.length)) ∧
    ((∃ d, newValue ver v = .fresh d) ↔ mustBeHashed ver v = true) := by
  constructor
  · cases ver
    · simp [newValue, exceedsInline]
    · by_cases h : 32 < v.length <;> simp [newValue, exceedsInline, v1MaxInline, h]
  · cases ver
    · simp [newValue, exceedsInline, mustBeHashed]
    · by_cases h : 32 < v.length <;> simp [newValue, exceedsInline, v1MaxInline, mustBeHashed, h]

/-- non-vacuity: a history with keys that are prefixes of one another, values of 31, 32 and 33
    bytes, an overwrite and deletes of a stored and of an absent key is a session history -/
example : ∀ op ∈ [Op.put [] (List.replicate 31 1), .put [0x10] (List.replicate 32 2),
    .put [0x10, 0x01] (List.replicate 33 3), .put [0x10] [7], .del [0x10, 0x01], .del [0x55],
    .get [0x10]], op.inSession = true := by decide

/-! ### non-vacuity of `DecodesTrie` -/

def toyH : Bytes → Bytes := fun b => List.replicate 31 0 ++ [UInt8.ofNat b.length]
def toyC : Cfg := { H := toyH, dec := decodeNode, ver := Ver.v1 }

def l1 : Trie := leaf [] [1]
def l2 : Trie := leaf [2, 3] (List.replicate 40 7)
def exCs : Nib → Trie := fun i => if i = 0 then l1 else if i = 1 then l2 else nil
def exT : Trie := branch [1] (some [9]) exCs

theorem exT_dec : decodeNode (encodeNode Ver.v1 toyH exT) = some (viewOf Ver.v1 toyH exT) := by
  have h : decodeNode (encodeNode Ver.v1 toyH exT) =
      some (.branch [1] (some (.inl [9]))
        (kidsFn [(0, .inl [64, 4, 1]), (1, .hashed (List.replicate 31 0 ++ [34]))])) := by rfl
  rw [h]
  have hk : kidsFn [(0, EKid.inl [64, 4, 1]), (1, EKid.hashed (List.replicate 31 0 ++ [34]))] =
      fun i => viewKid Ver.v1 toyH (exCs i) := by
    funext i
    revert i
    decide
  rw [hk]
  rfl

/-- non-vacuity of the decoder hypothesis: the decoder of the model (`decodeNode`, the one the
    driver runs) satisfies `DecodesTrie` on a trie with an inline value, an inlined child, a hashed
    child and a hashed (40-byte, V1) value -/
example : DecodesTrie toyC exT := by
  refine ⟨rfl, ?_⟩
  intro n hn
  simp only [exT, NodeOf] at hn
  rcases hn with rfl | ⟨i, hi⟩
  · exact exT_dec
  · by_cases h0 : i = 0
    · subst h0
      have : exCs 0 = l1 := rfl
      rw [this] at hi
      simp only [l1, NodeOf] at hi
      subst hi
      rfl
    · by_cases h1 : i = 1
      · subst h1
        have : exCs 1 = l2 := rfl
        rw [this] at hi
        simp only [l2, NodeOf] at hi
        subst hi
        rfl
      · have : exCs i = nil := by simp [exCs, h0, h1]
        rw [this] at hi
        exact absurd hi (by simp [NodeOf])

end Gossamer.C06
