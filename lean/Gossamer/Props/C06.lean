/-
C06 — the database-backed trie engine agrees with the spec (work in progress: threshold first).
-/
import Gossamer.Model.C06
namespace Gossamer.C06
open Gossamer

/-- `NewValue` stores a value by hash exactly in version 1 and when it is longer than 32 bytes -/
theorem C06_threshold (ver : Ver) (v : Bytes) :
    (∃ d, newValue ver v = .fresh d) ↔ (ver = Ver.v1 ∧ 32 < v.length) := by
  cases ver
  · simp [newValue, exceedsInline]
  · by_cases h : 32 < v.length <;> simp [newValue, exceedsInline, v1MaxInline, h]

end Gossamer.C06
