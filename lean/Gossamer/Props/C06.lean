/-
C06 — the database-backed trie engine (`pkg/trie/triedb`) agrees with the spec.

Model: `Gossamer/Model/C06.lean` (`insertAt`/`insertInspector`, `removeAt`/`removeInspector`/`fix`,
`NewValue`, `commit`/`commitChild`, `lookup`/`TrieLookup`, deathRow) over an association-list
database.  Spec: the ordered map `specAll [] ops` of the history and its Merkle root `specRoot`
(C01: hash of the encoding of the canonical trie `build`).

* `C06_root_eq_spec`  THE FULL STATEMENT: for every history `ops` of put / del / get / commit / reopen
                      on a fresh `TrieDB` over an empty database (V0 and V1) no op fails, `Hash()`
                      at the end is `specRoot ver H (specAll [] ops)`, and a fresh
                      `NewTrieDB(root, db)` returns `OMap.get k (specAll [] ops)` for every key `k`.
                      Hypotheses: `HashOK` on the finite set `HashedIn` of strings hashed along the
                      history (32-byte digests, no collision, no cycle of hash references) and the
                      decoder hypothesis `DecodesHist` (`codec.Decode` inverts the node encoding:
                      C07).  `C06_reopen` is its second clause; `C06_get`: `Get` on the live
                      instance after any history returns `OMap.get k` as well.
* `C06_root_eq_spec_partial`, `C06_reopen_partial`, `C06_reopen_collision`, `C06_history_independent`
                      the one-session special case (no commit / reopen inside the history) under
                      weaker hypotheses: the root clause needs nothing about the hash; the reopen
                      clause needs collision-freeness on `HashedIn` only, stated as an explicit
                      collision clause in `C06_reopen_collision`.
* `C06_threshold`     `NewValue` hashes a value iff V1 and longer than 32 bytes.
* `C06_nibbles_<op>_refines` (`Lib/C06NibblesLemmas.lean`): the byte-level model of
                      `pkg/trie/triedb/nibbles` + `combineKey` (`Lib/C06Nibbles.lean`: packed data and
                      nibble offset, as in the Go code) refines the plain nibble lists the trie model
                      works on: `Len`, `At`, `Mid`, `Advance`, `NodeKey`, `Left`/`JoinedBytes` (= the
                      `prefixBytes` of the model's database keys), `CommonPrefix` (both code paths),
                      `StartsWith`, `Equal`, `Right` (= `packNibs` of the spec encoding), `ShiftKey`,
                      `NodeKeyRange`, `combineKey`, and `NibbleSlice.Push` / `Prefix` / `DropLasts` /
                      `AppendPartial` / `AppendOptionalSliceAndNibble`; `C06_nibbles_prefix_injective`:
                      the key prefix determines the path up to the zero padding of an odd path.
Proof: the in-memory handle tree always stands for THE canonical trie of the current map
(`tInsert` = the in-memory trie's `insert`, `tRemove`, C01's `Canon`/`canon_unique`/`Rep`), relative
to the trie `T0` committed last (`abs`, `Ok`); `commit` produces the spec encoding (`encNew_ok`);
rows scheduled for deletion belong to positions of `T0` that the new tree does not refer to, and
distinct positions have distinct rows (`rows_inj`), so the database holds the new trie afterwards.
-/
import Gossamer.Lib.TrieDBReopen
import Gossamer.Lib.TrieDBMulti
import Gossamer.Lib.C06NibblesLemmas
set_option linter.unusedSectionVars false
set_option linter.unusedSimpArgs false
namespace Gossamer.C06
open Gossamer Gossamer.Trie

/-- a trie that represents `es` has the spec root of `es` (C01) -/
theorem root_of_rep (ver : Ver) (H : Bytes → Bytes) {t : Trie} {es : Entries} (h : Rep t es) :
    hashTrie ver H t = specRoot ver H es := by
  rw [specRoot, ← h.eq_build]

/-- a session relates the in-memory tree to the canonical trie of the map, op by op -/
theorem sess_exec (c : Cfg) (hdec0 : c.dec [0] = some .empty) (ops : List Op) :
    (∀ op ∈ ops, op.inSession = true) → ∀ (s : St) (t : Trie) (es : Entries), Sess c s t → Rep t es →
      ∃ s' t', execAll c s ops = .ok s' ∧ Sess c s' t' ∧ Rep t' (specAll es ops) := by
  induction ops with
  | nil => intro _ s t es hs hr; exact ⟨s, t, rfl, hs, hr⟩
  | cons op r ih =>
    intro hin s t es hs hr
    have hin' : ∀ op ∈ r, op.inSession = true := fun o ho => hin o (List.mem_cons_of_mem _ ho)
    have hop := hin op (List.mem_cons_self ..)
    cases op with
    | put k v =>
      obtain ⟨s1, h1, hs1⟩ := sess_put c hdec0 hs k v
      obtain ⟨s', t', h2, hs2, hr2⟩ := ih hin' s1 _ _ hs1 (rep_tInsert hr k v)
      exact ⟨s', t', by simp only [execAll, execOp, h1, h2], hs2, hr2⟩
    | del k =>
      obtain ⟨s1, h1, hs1⟩ := sess_del c hdec0 hs hr.canon k
      obtain ⟨s', t', h2, hs2, hr2⟩ := ih hin' s1 _ _ hs1 (rep_tRemove hr k)
      exact ⟨s', t', by simp only [execAll, execOp, h1, h2], hs2, hr2⟩
    | get k =>
      obtain ⟨s', t', h2, hs2, hr2⟩ := ih hin' s t es hs hr
      exact ⟨s', t', by simp only [execAll, execOp, h2], hs2, hr2⟩
    | commit => simp [Op.inSession] at hop
    | reopen => simp [Op.inSession] at hop
    | bad =>
      obtain ⟨s', t', h2, hs2, hr2⟩ := ih hin' s t es hs hr
      exact ⟨s', t', by simp only [execAll, execOp, h2], hs2, hr2⟩

/-- **Root.**  For every history of puts, deletes (of any key, stored or not) and reads on a fresh
    `TrieDB` over an empty database, in either version: no op fails, `commit` succeeds, and the root
    hash it computes is the spec root of the resulting map.  `H` is any hash function; `dec` any
    decoder that decodes the empty node `[0]`. -/
theorem C06_root_eq_spec_partial (c : Cfg) (hdec0 : c.dec [0] = some .empty) (ops : List Op)
    (hs : ∀ op ∈ ops, op.inSession = true) :
    ∃ s s', execAll c (St.init c.H) ops = .ok s ∧ commit c.H s = .ok s' ∧
      s'.rootHash = specRoot c.ver c.H (specAll [] ops) := by
  obtain ⟨s, t, h1, hs1, hr1⟩ := sess_exec c hdec0 ops hs _ nil [] (sess_init c) Rep.empty
  obtain ⟨s', h2, h3⟩ := sess_commit c hs1
  exact ⟨s, s', h1, h2, by rw [h3, root_of_rep c.ver c.H hr1]⟩

/-- the root does not depend on the history, only on the resulting map -/
theorem C06_history_independent (c : Cfg) (hdec0 : c.dec [0] = some .empty) (ops1 ops2 : List Op)
    (h1 : ∀ op ∈ ops1, op.inSession = true) (h2 : ∀ op ∈ ops2, op.inSession = true)
    (hm : specAll [] ops1 = specAll [] ops2) :
    ∃ s1 s1' s2 s2', execAll c (St.init c.H) ops1 = .ok s1 ∧ commit c.H s1 = .ok s1' ∧
      execAll c (St.init c.H) ops2 = .ok s2 ∧ commit c.H s2 = .ok s2' ∧
      s1'.rootHash = s2'.rootHash := by
  obtain ⟨s1, s1', a1, b1, c1⟩ := C06_root_eq_spec_partial c hdec0 ops1 h1
  obtain ⟨s2, s2', a2, b2, c2⟩ := C06_root_eq_spec_partial c hdec0 ops2 h2
  exact ⟨s1, s1', s2, s2', a1, b1, a2, b2, by rw [c1, c2, hm]⟩

/-- what the theorems need of the decoder `dec` (`codec.Decode`, C07): it inverts the node encoding
    on the nodes of the committed trie (`viewOf`: values inline or by hash, children inlined when
    shorter than 32 bytes, else by hash) and decodes the empty node -/
def DecodesTrie (c : Cfg) (t : Trie) : Prop :=
  c.dec [0] = some .empty ∧
  ∀ n, NodeOf n t → c.dec (encodeNode c.ver c.H n) = some (viewOf c.ver c.H n)

/-- the strings that get hashed along a history that starts from the map `es`: the empty node `[0]`,
    and the encoding of every node and every stored-by-hash value of every trie the history can
    commit (`build` of the map after each prefix of the history).  A finite set. -/
def HashedIn (c : Cfg) (es : Entries) (ops : List Op) (x : Bytes) : Prop :=
  x = [0] ∨ ∃ j,
    (∃ n, NodeOf n (build (specAll es (ops.take j))) ∧ x = encodeNode c.ver c.H n) ∨
    (∃ k, lookup (build (specAll es (ops.take j))) k = some x ∧ mustBeHashed c.ver x = true)

theorem covers_hashedIn (c : Cfg) (es : Entries) (ops : List Op) (j : Nat) :
    Covers c.ver c.H (HashedIn c es ops) (build (specAll es (ops.take j))) :=
  ⟨fun n hn => Or.inr ⟨j, Or.inl ⟨n, hn, rfl⟩⟩, fun k v hk hm => Or.inr ⟨j, Or.inr ⟨k, hk, hm⟩⟩⟩

/-- **Reopen (one session).**  After any history of puts, deletes and reads on a fresh `TrieDB` over
    an empty database and a `commit`, a fresh `NewTrieDB(root, db)` returns for EVERY key `k` (stored
    or not) exactly `get k` of the resulting map: the stored value for stored keys, `nil` for all
    others.  Hypotheses: 32-byte digests; `H` has no collision among the (finitely many) strings
    hashed along the history (`HashedIn`; see `C06_reopen_collision` for the explicit collision
    clause); the decoder inverts the encoding on the nodes of the committed trie. -/
theorem C06_reopen_partial (c : Cfg) (ops : List Op) (hs : ∀ op ∈ ops, op.inSession = true)
    (hlen : ∀ x, (c.H x).length = 32) (hinj : InjOn c.H (HashedIn c [] ops))
    (hdec : DecodesTrie c (build (specAll [] ops))) :
    ∃ s s', execAll c (St.init c.H) ops = .ok s ∧ commit c.H s = .ok s' ∧
      s'.rootHash = specRoot c.ver c.H (specAll [] ops) ∧
      ∀ k, doGet c (reopenAt s') k = OMap.get k (specAll [] ops) := by
  obtain ⟨s, t, h1, hs1, hr1⟩ := sess_exec c hdec.1 ops hs _ nil [] (sess_init c) Rep.empty
  have ht : t = build (specAll [] ops) := hr1.eq_build
  have hcov : Covers c.ver c.H (HashedIn c [] ops) t := by
    have := covers_hashedIn c [] ops ops.length
    rw [List.take_length] at this
    rw [ht]; exact this
  obtain ⟨s', h2, h3, h4⟩ := sess_reopen_get c hdec.1 hlen hinj (Or.inl rfl) hs1 hcov
    (by rw [ht]; exact hdec.2)
  refine ⟨s, s', h1, h2, by rw [h3, root_of_rep c.ver c.H hr1], fun k => ?_⟩
  rw [h4 k, hr1.lookup_eq]

/-- the same with the collision clause explicit: either two different strings hashed along the
    history collide, or the fresh instance agrees with the map on every key -/
theorem C06_reopen_collision (c : Cfg) (ops : List Op) (hs : ∀ op ∈ ops, op.inSession = true)
    (hlen : ∀ x, (c.H x).length = 32) (hdec : DecodesTrie c (build (specAll [] ops))) :
    (∃ a b, HashedIn c [] ops a ∧ HashedIn c [] ops b ∧ a ≠ b ∧ c.H a = c.H b) ∨
    ∃ s s', execAll c (St.init c.H) ops = .ok s ∧ commit c.H s = .ok s' ∧
      ∀ k, doGet c (reopenAt s') k = OMap.get k (specAll [] ops) := by
  by_cases hcol : ∃ a b, HashedIn c [] ops a ∧ HashedIn c [] ops b ∧ a ≠ b ∧ c.H a = c.H b
  · exact Or.inl hcol
  · right
    have hinj : InjOn c.H (HashedIn c [] ops) := by
      intro a b ha hb hab
      by_cases hne : a = b
      · exact hne
      · exact absurd ⟨a, b, ha, hb, hne, hab⟩ hcol
    obtain ⟨s, s', h1, h2, _, h4⟩ := C06_reopen_partial c ops hs hlen hinj hdec
    exact ⟨s, s', h1, h2, h4⟩

/-! ### histories with intermediate commits and fresh instances -/

/-- the decoder along a history: it decodes the empty node and inverts the node encoding on the
    nodes of every trie that the history can commit (`build` of the map after every prefix) -/
def DecodesHist (c : Cfg) (es : Entries) (ops : List Op) : Prop :=
  c.dec [0] = some .empty ∧
  ∀ j n, NodeOf n (build (specAll es (ops.take j))) →
    c.dec (encodeNode c.ver c.H n) = some (viewOf c.ver c.H n)

theorem decodesHist_tail {c : Cfg} {es : Entries} {op : Op} {r : List Op}
    (h : DecodesHist c es (op :: r)) : DecodesHist c (specStep es op) r := by
  refine ⟨h.1, fun j n hn => ?_⟩
  have := h.2 (j + 1) n
  simp only [List.take_succ_cons, specAll, List.foldl_cons] at this
  exact this hn

/-- `Dom` contains everything hashed along the history -/
def CoversHist (c : Cfg) (Dom : Bytes → Prop) (es : Entries) (ops : List Op) : Prop :=
  ∀ j, Covers c.ver c.H Dom (build (specAll es (ops.take j)))

theorem coversHist_tail {c : Cfg} {Dom : Bytes → Prop} {es : Entries} {op : Op} {r : List Op}
    (h : CoversHist c Dom es (op :: r)) : CoversHist c Dom (specStep es op) r := by
  intro j
  have := h (j + 1)
  simp only [List.take_succ_cons, specAll, List.foldl_cons] at this
  exact this

theorem sessG_init (c : Cfg) (Dom : Bytes → Prop) (hlen : ∀ x, (c.H x).length = 32)
    (hdec0 : c.dec [0] = some .empty) : SessG c Dom (St.init c.H) nil nil :=
  ⟨⟨fun h => absurd rfl h, trivial, fun n hn => hn.elim, hdec0, hlen⟩,
    ⟨fun n hn => hn.elim, fun k v h => by simp at h⟩, fun k v h => by simp at h,
    Or.inl ⟨rfl, rfl, rfl, deadOk_nil _ _ _ _⟩⟩

/-- the invariant holds along every history -/
theorem exec_inv (c : Cfg) {Dom : Bytes → Prop} (hH : HashOK c.H Dom) (ops : List Op) :
    ∀ (s : St) (T0 t : Trie) (es : Entries), SessG c Dom s T0 t → Rep t es → DecodesHist c es ops →
      CoversHist c Dom es ops →
      ∃ s' T0' t', execAll c s ops = .ok s' ∧ SessG c Dom s' T0' t' ∧ Rep t' (specAll es ops) := by
  induction ops with
  | nil => intro s T0 t es hs hr _ _; exact ⟨s, T0, t, rfl, hs, hr⟩
  | cons op r ih =>
    intro s T0 t es hs hr hd hcv
    have hd' := decodesHist_tail hd
    have hcv' := coversHist_tail hcv
    have hcovt : Covers c.ver c.H Dom t := by
      have := hcv 0
      simp only [List.take_zero, specAll, List.foldl_nil] at this
      rw [hr.eq_build]; exact this
    have hdec : ∀ n, NodeOf n t → c.dec (encodeNode c.ver c.H n) = some (viewOf c.ver c.H n) := by
      intro n hn
      have := hd.2 0 n
      simp only [List.take_zero, specAll, List.foldl_nil] at this
      rw [hr.eq_build] at hn
      exact this hn
    cases op with
    | put k v =>
      obtain ⟨s1, h1, hs1⟩ := sessG_put c hs k v
      obtain ⟨s', T0', t', h2, hs2, hr2⟩ := ih s1 T0 _ _ hs1 (rep_tInsert hr k v) hd' hcv'
      exact ⟨s', T0', t', by simp only [execAll, execOp, h1, h2], hs2, hr2⟩
    | del k =>
      obtain ⟨s1, h1, hs1⟩ := sessG_del c hs hr.canon k
      obtain ⟨s', T0', t', h2, hs2, hr2⟩ := ih s1 T0 _ _ hs1 (rep_tRemove hr k) hd' hcv'
      exact ⟨s', T0', t', by simp only [execAll, execOp, h1, h2], hs2, hr2⟩
    | get k =>
      obtain ⟨s', T0', t', h2, hs2, hr2⟩ := ih s T0 t es hs hr hd' hcv'
      exact ⟨s', T0', t', by simp only [execAll, execOp, h2], hs2, hr2⟩
    | commit =>
      obtain ⟨s1, T1, h1, hs1, _, _⟩ := sessG_commit c hH hs hr hcovt hdec
      obtain ⟨s', T0', t', h2, hs2, hr2⟩ := ih s1 T1 t es hs1 hr hd' hcv'
      exact ⟨s', T0', t', by simp only [execAll, execOp, h1, h2], hs2, hr2⟩
    | reopen =>
      obtain ⟨s1, T1, h1, hs1, hroot, hT⟩ := sessG_commit c hH hs hr hcovt hdec
      obtain ⟨s', T0', t', h2, hs2, hr2⟩ := ih (reopenAt s1) T1 t es (sessG_reopen c hs1 hroot hT) hr hd' hcv'
      exact ⟨s', T0', t', by simp only [execAll, execOp, h1, Res.map, h2], hs2, hr2⟩
    | bad =>
      obtain ⟨s', T0', t', h2, hs2, hr2⟩ := ih s T0 t es hs hr hd' hcv'
      exact ⟨s', T0', t', by simp only [execAll, execOp, h2], hs2, hr2⟩

/-- **Root and reopen, every history.**  For EVERY history of puts, deletes, reads, intermediate
    commits (`Hash()`) and fresh instances (`NewTrieDB(root, db)`) on a `TrieDB` that starts over an
    empty database, in either version: no op fails, the final commit succeeds, its root hash is the
    spec root of the resulting map, and a fresh instance opened at that root returns `get k` of the
    map for every key `k` — the stored value for stored keys, `nil` for all others.
    Hypotheses: `HashOK` on the finitely many strings hashed along the history (`HashedIn`: 32-byte
    digests, no collision among them, no cycle of hash references among them) and the decoder
    hypothesis `DecodesHist` (C07). -/
theorem C06_root_eq_spec (c : Cfg) (ops : List Op) (hH : HashOK c.H (HashedIn c [] ops))
    (hdec : DecodesHist c [] ops) :
    ∃ s s', execAll c (St.init c.H) ops = .ok s ∧ commit c.H s = .ok s' ∧
      s'.rootHash = specRoot c.ver c.H (specAll [] ops) ∧
      ∀ k, doGet c (reopenAt s') k = OMap.get k (specAll [] ops) := by
  obtain ⟨s, T0, t, h1, hs, hr⟩ := exec_inv c hH ops _ nil nil []
    (sessG_init c _ hH.len hdec.1) Rep.empty hdec (covers_hashedIn c [] ops)
  have hdect : ∀ n, NodeOf n t → c.dec (encodeNode c.ver c.H n) = some (viewOf c.ver c.H n) := by
    intro n hn
    have := hdec.2 ops.length n
    simp only [List.take_length] at this
    rw [hr.eq_build] at hn
    exact this hn
  have hcovt : Covers c.ver c.H (HashedIn c [] ops) t := by
    have := covers_hashedIn c [] ops ops.length
    rw [List.take_length] at this
    rw [hr.eq_build]; exact this
  obtain ⟨s', T1, h2, hs', hroot, hT⟩ := sessG_commit c hH hs hr hcovt hdect
  refine ⟨s, s', h1, h2, by rw [hroot, root_of_rep c.ver c.H hr], fun k => ?_⟩
  rw [sessG_fresh_get c hs' hroot hT k, hr.lookup_eq]

/-- **Get on the live instance.**  After every history (commits and fresh instances included, without
    a final commit) `Get` on the instance itself — the walk over in-memory nodes continued by
    `TrieLookup` over the database — returns `get k` of the map for every key. -/
theorem C06_get (c : Cfg) (ops : List Op) (hH : HashOK c.H (HashedIn c [] ops))
    (hdec : DecodesHist c [] ops) :
    ∃ s, execAll c (St.init c.H) ops = .ok s ∧
      ∀ k, doGet c s k = OMap.get k (specAll [] ops) := by
  obtain ⟨s, T0, t, h1, hs, hr⟩ := exec_inv c hH ops _ nil nil []
    (sessG_init c _ hH.len hdec.1) Rep.empty hdec (covers_hashedIn c [] ops)
  exact ⟨s, h1, fun k => by rw [sessG_get c hs k, hr.lookup_eq]⟩

/-- the reopen clause on its own -/
theorem C06_reopen (c : Cfg) (ops : List Op) (hH : HashOK c.H (HashedIn c [] ops))
    (hdec : DecodesHist c [] ops) :
    ∃ s s', execAll c (St.init c.H) ops = .ok s ∧ commit c.H s = .ok s' ∧
      ∀ k, doGet c (reopenAt s') k = OMap.get k (specAll [] ops) := by
  obtain ⟨s, s', h1, h2, _, h4⟩ := C06_root_eq_spec c ops hH hdec
  exact ⟨s, s', h1, h2, h4⟩

/-- `NewValue` stores a value by hash exactly in version 1 and when it is longer than 32 bytes
    (the threshold of the spec encoding, `mustBeHashed`) -/
theorem C06_threshold (ver : Ver) (v : Bytes) :
    ((∃ d, newValue ver v = .fresh d) ↔ (ver = Ver.v1 ∧ 32 < v.length)) ∧
    ((∃ d, newValue ver v = .fresh d) ↔ mustBeHashed ver v = true) := by
  constructor
  · cases ver
    · simp [newValue, exceedsInline]
    · by_cases h : 32 < v.length <;> simp [newValue, exceedsInline, v1MaxInline, h]
  · cases ver
    · simp [newValue, exceedsInline, mustBeHashed]
    · by_cases h : 32 < v.length <;> simp [newValue, exceedsInline, v1MaxInline, mustBeHashed, h]

/-- non-vacuity: a history with keys that are prefixes of one another, values of 31, 32 and 33
    bytes, an overwrite and deletes of a stored and of an absent key is a session history -/
example : ∀ op ∈ [Op.put [] (List.replicate 31 1), .put [0x10] (List.replicate 32 2),
    .put [0x10, 0x01] (List.replicate 33 3), .put [0x10] [7], .del [0x10, 0x01], .del [0x55],
    .get [0x10]], op.inSession = true := by decide

/-! ### non-vacuity of `DecodesTrie` -/

def toyH : Bytes → Bytes := fun b => List.replicate 31 0 ++ [UInt8.ofNat b.length]
def toyC : Cfg := { H := toyH, dec := decodeNode, ver := Ver.v1 }

def l1 : Trie := leaf [] [1]
def l2 : Trie := leaf [2, 3] (List.replicate 40 7)
def exCs : Nib → Trie := fun i => if i = 0 then l1 else if i = 1 then l2 else nil
def exT : Trie := branch [1] (some [9]) exCs

theorem exT_dec : decodeNode (encodeNode Ver.v1 toyH exT) = some (viewOf Ver.v1 toyH exT) := by
  have h : decodeNode (encodeNode Ver.v1 toyH exT) =
      some (.branch [1] (some (.inl [9]))
        (kidsFn [(0, .inl [64, 4, 1]), (1, .hashed (List.replicate 31 0 ++ [34]))])) := by rfl
  rw [h]
  have hk : kidsFn [(0, EKid.inl [64, 4, 1]), (1, EKid.hashed (List.replicate 31 0 ++ [34]))] =
      fun i => viewKid Ver.v1 toyH (exCs i) := by
    funext i
    revert i
    decide
  rw [hk]
  rfl

/-- non-vacuity of the decoder hypothesis: the decoder of the model (`decodeNode`, the one the
    driver runs) satisfies `DecodesTrie` on a trie with an inline value, an inlined child, a hashed
    child and a hashed (40-byte, V1) value -/
example : DecodesTrie toyC exT := by
  refine ⟨rfl, ?_⟩
  intro n hn
  simp only [exT, NodeOf] at hn
  rcases hn with rfl | ⟨i, hi⟩
  · exact exT_dec
  · by_cases h0 : i = 0
    · subst h0
      have : exCs 0 = l1 := rfl
      rw [this] at hi
      simp only [l1, NodeOf] at hi
      subst hi
      rfl
    · by_cases h1 : i = 1
      · subst h1
        have : exCs 1 = l2 := rfl
        rw [this] at hi
        simp only [l2, NodeOf] at hi
        subst hi
        rfl
      · have : exCs i = nil := by simp [exCs, h0, h1]
        rw [this] at hi
        exact absurd hi (by simp [NodeOf])

/-! ### non-vacuity of `HashOK` and `DecodesHist` -/

def v40 : Bytes := List.replicate 40 7
def exOps : List Op := [.put [0x12] v40, .commit, .put [0x12] v40, .reopen, .del [0x34], .get [0x12]]
def exLeaf : Trie := leaf [1, 2] v40
def exEnc : Bytes := encodeNode Ver.v1 toyH exLeaf

theorem exSpec : ∀ j, build (specAll [] (exOps.take j)) = nil ∨ build (specAll [] (exOps.take j)) = exLeaf := by
  intro j
  match j with
  | 0 => left; rfl
  | 1 => right; rfl
  | 2 => right; rfl
  | 3 => right; rfl
  | 4 => right; rfl
  | 5 => right; rfl
  | n + 6 =>
    right
    have : exOps.take (n + 6) = exOps := List.take_of_length_le (by simp [exOps])
    rw [this]; rfl

theorem exHashed (x : Bytes) (h : HashedIn toyC [] exOps x) : x = [0] ∨ x = exEnc ∨ x = v40 := by
  rcases h with h | ⟨j, ⟨n, hn, hx⟩ | ⟨k, hk, _⟩⟩
  · exact Or.inl h
  · rcases exSpec j with e | e
    · rw [e] at hn; exact hn.elim
    · rw [e] at hn
      simp only [exLeaf, NodeOf] at hn
      subst hn
      exact Or.inr (Or.inl hx)
  · rcases exSpec j with e | e
    · rw [e] at hk; simp at hk
    · rw [e] at hk
      simp only [exLeaf, lookup_leaf] at hk
      split at hk
      · cases hk; exact Or.inr (Or.inr rfl)
      · cases hk

theorem exHashOK : HashOK toyC.H (HashedIn toyC [] exOps) := by
  refine ⟨fun x => by simp [toyC, toyH], ?_, ⟨fun x => if x.length = 34 then 1 else 0, ?_⟩, Or.inl rfl⟩
  · intro a b ha hb hab
    rcases exHashed a ha with rfl | rfl | rfl <;> rcases exHashed b hb with rfl | rfl | rfl <;>
      first | rfl | (exfalso; revert hab; decide)
  · intro x y hx hy hinf
    rcases exHashed x hx with rfl | rfl | rfl <;> rcases exHashed y hy with rfl | rfl | rfl <;>
      first | (exfalso; revert hinf; decide) | decide

theorem exDecodes : DecodesHist toyC [] exOps := by
  refine ⟨rfl, fun j n hn => ?_⟩
  rcases exSpec j with e | e
  · rw [e] at hn; exact hn.elim
  · rw [e] at hn
    simp only [exLeaf, NodeOf] at hn
    subst hn
    rfl

/-- non-vacuity of the hypotheses of the full theorem: for a history with an intermediate commit, a
    re-put of an equal (hashed, 40-byte) value, a fresh instance and a delete of an absent key, the
    toy hash (digest = length) is `HashOK` on the strings hashed along the history and the decoder
    of the model satisfies `DecodesHist`; so the theorem applies -/
example : ∃ s s', execAll toyC (St.init toyC.H) exOps = .ok s ∧ commit toyC.H s = .ok s' ∧
    s'.rootHash = specRoot toyC.ver toyC.H (specAll [] exOps) ∧
    ∀ k, doGet toyC (reopenAt s') k = OMap.get k (specAll [] exOps) :=
  C06_root_eq_spec toyC exOps exHashOK exDecodes

end Gossamer.C06
