/-
C38 — paginated key listing enumerates each matching key exactly once; the key/value listing
returns exactly the matching keys with their current values.

* `C38_hex_order`       the text order of lower-case hex = the byte order of the keys
                        (including a key that is a proper prefix of another);
* `C38_pages_spec`      over the ordered map: for every page size ≥ 1 the client loop "page after
                        the last key returned" terminates and its pages are exactly the consecutive
                        chunks of `keysWithPrefix p`, i.e. every matching key once, ascending;
* `C38_pages_partition_partial`  the same for the model of the Go code (`Rep t es`), outside the
                        region of the inherited trie finding `prefix-zero-nibble`
                        (FULL STATEMENT — without `trimRegion p es = false` — is false:
                        `C38_pages_partition_counterexample`);
* `C38_pairs_partial`, `C38_pairs_all`   GetPairs = the entries with the byte prefix and their values;
* `C38_refines_partial`  every run of the harness language whose ops stay outside the two
                        known-finding regions gives the observables of the specification;
* `C38_block_counterexample`  the block field of GetKeysPaged is not resolved to a state root.
-/
import Gossamer.Props.C02
import Gossamer.Model.C38
set_option linter.unusedSectionVars false
set_option linter.unusedSimpArgs false
set_option linter.unusedVariables false
namespace Gossamer.C38
open Gossamer Gossamer.Trie

/-! ### hex text order -/

theorem hexDigit_toNat (n : Nat) (h : n < 16) :
    (hexDigit n).toNat = if n < 10 then 48 + n else 87 + n := by
  have : ∀ m : Fin 16, (hexDigit m.val).toNat = if m.val < 10 then 48 + m.val else 87 + m.val := by
    decide
  exact this ⟨n, h⟩

theorem klt_cons_cons {α : Type} [Rank α] (a b : α) (as bs : List α) :
    klt (a :: as) (b :: bs) =
      (decide (Rank.rank a < Rank.rank b) || (Rank.rank a == Rank.rank b && klt as bs)) := rfl

/-- comparing two hex digit pairs (then the rest) is comparing the two bytes (then the rest) -/
theorem klt_hexOfByte (x y : UInt8) (s t : Str) :
    klt (hexOfByte x ++ s) (hexOfByte y ++ t) =
      (decide (x.toNat < y.toNat) || (x.toNat == y.toNat && klt s t)) := by
  have hx : x.toNat < 256 := x.toNat_lt
  have hy : y.toNat < 256 := y.toNat_lt
  simp only [hexOfByte, List.cons_append, List.nil_append, klt_cons_cons, Rank.rank]
  have e1 := hexDigit_toNat _ (by omega : x.toNat / 16 < 16)
  have e2 := hexDigit_toNat _ (by omega : x.toNat % 16 < 16)
  have e3 := hexDigit_toNat _ (by omega : y.toNat / 16 < 16)
  have e4 := hexDigit_toNat _ (by omega : y.toNat % 16 < 16)
  simp only [e1, e2, e3, e4]
  cases klt s t <;> simp only [Bool.and_true, Bool.and_false, Bool.or_false] <;>
    rw [Bool.eq_iff_iff] <;>
    simp only [Bool.or_eq_true, Bool.and_eq_true, decide_eq_true_eq, beq_iff_eq] <;>
    (repeat' split) <;> omega

/-- **C38_hex_order**: `hexLower a < hexLower b ↔ a < b` — the lexicographic order of the
    lower-case hex texts is the byte-lexicographic order of the keys (a proper prefix is smaller
    in both). -/
theorem C38_hex_order (a b : Bytes) : klt (hexChars a) (hexChars b) = klt a b := by
  induction a generalizing b with
  | nil =>
    cases b with
    | nil => rfl
    | cons y ys => simp [hexChars, hexOfByte, klt]
  | cons x xs ih =>
    cases b with
    | nil => simp [hexChars, hexOfByte, klt]
    | cons y ys =>
      have := klt_hexOfByte x y (hexChars xs) (hexChars ys)
      simp only [hexChars, List.flatMap_cons] at this ⊢
      rw [this, klt_cons_cons]
      simp only [Rank.rank]
      have ih' := ih ys
      simp only [hexChars] at ih'
      rw [ih']

/-- the same for the `0x…` strings the RPC returns and compares -/
theorem fKey_order (a b : Bytes) : klt (fKey a) (fKey b) = klt a b := by
  have := klt_append_left ['0', 'x'] (hexChars a) (hexChars b)
  simpa [fKey, C38_hex_order] using this

theorem fKey_gt_empty (k : Bytes) : sgt (fKey k) [] = true := rfl

/-! ### one page -/

/-- the loop with counter and `break` is "filter the keys after `afterKey`, take `Qty`" -/
theorem pageLoop_eq (after : Str) (qty : Nat) (ks : List Bytes) (cnt : Nat) :
    pageLoop after qty ks cnt = (((ks.map fKey).filter (fun s => sgt s after)).take (qty - cnt)) := by
  induction ks generalizing cnt with
  | nil => simp [pageLoop]
  | cons k r ih =>
    simp only [pageLoop, List.map_cons, List.filter_cons]
    by_cases hk : sgt (fKey k) after = true
    · simp only [hk, if_true]
      by_cases hc : cnt ≥ qty
      · simp [hc, show qty - cnt = 0 by omega]
      · simp only [hc, if_false, ih]
        rw [show qty - cnt = (qty - (cnt + 1)) + 1 by omega, List.take_succ_cons]
    · simp only [hk, Bool.false_eq_true, if_false, ih]

/-- a page of the ordered map / of any store whose key listing is `ks` -/
def pageOf (ks : List Str) (q : Nat) (after : Str) : List Str :=
  (ks.filter (fun s => sgt s after)).take q

/-! ### chunks -/

theorem chunkF_fuel {α : Type} (q : Nat) (hq : 1 ≤ q) :
    ∀ (f g : Nat) (l : List α), l.length ≤ f → l.length ≤ g → chunkF q f l = chunkF q g l := by
  intro f
  induction f with
  | zero =>
    intro g l hf hg
    have : l = [] := List.eq_nil_of_length_eq_zero (by omega)
    subst this
    cases g <;> rfl
  | succ f ih =>
    intro g l hf hg
    cases l with
    | nil => cases g <;> rfl
    | cons x r =>
      cases g with
      | zero => simp at hg
      | succ g =>
        simp only [chunkF]
        have hl : ((x :: r).drop q).length ≤ r.length := by
          simp only [List.length_drop, List.length_cons]; omega
        simp only [List.length_cons] at hf hg
        rw [ih g _ (by omega) (by omega)]

theorem chunkF_flatten {α : Type} (q : Nat) (hq : 1 ≤ q) :
    ∀ (f : Nat) (l : List α), l.length ≤ f → (chunkF q f l).flatten = l := by
  intro f
  induction f with
  | zero =>
    intro l hf
    have : l = [] := List.eq_nil_of_length_eq_zero (by omega)
    subst this; rfl
  | succ f ih =>
    intro l hf
    cases l with
    | nil => rfl
    | cons x r =>
      simp only [chunkF, List.flatten_cons]
      have hl : ((x :: r).drop q).length ≤ f := by
        simp only [List.length_drop, List.length_cons] at hf ⊢; omega
      rw [ih _ hl, List.take_append_drop]

/-- the chunks of a list concatenate to the list (page size ≥ 1) -/
theorem chunk_flatten {α : Type} (q : Nat) (hq : 1 ≤ q) (l : List α) : (chunk q l).flatten = l :=
  chunkF_flatten q hq _ l (Nat.le_refl _)

/-- every chunk is non-empty and has at most `q` elements -/
theorem chunkF_sizes {α : Type} (q : Nat) (hq : 1 ≤ q) :
    ∀ (f : Nat) (l : List α), ∀ c ∈ chunkF q f l, c ≠ [] ∧ c.length ≤ q := by
  intro f
  induction f with
  | zero => intro l c hc; simp [chunkF] at hc
  | succ f ih =>
    intro l c hc
    cases l with
    | nil => simp [chunkF] at hc
    | cons x r =>
      simp only [chunkF, List.mem_cons] at hc
      rcases hc with hc | hc
      · subst hc
        refine ⟨?_, by simp [List.length_take]; omega⟩
        obtain ⟨q', rfl⟩ : ∃ q', q = q' + 1 := ⟨q - 1, by omega⟩
        simp
      · exact ih _ c hc

/-! ### the client loop over an ascending listing -/

abbrev Asc (l : List Str) : Prop := l.Pairwise (fun a b => klt a b = true)

theorem asc_le_getLast {l : List Str} (h : Asc l) {last : Str} (hl : l.getLast? = some last) :
    ∀ y ∈ l, klt last y = false := by
  intro y hy
  obtain ⟨l', rfl⟩ : ∃ l', l = l' ++ [last] := by
    have hne : l ≠ [] := by intro e; subst e; simp at hl
    refine ⟨l.dropLast, ?_⟩
    have := List.dropLast_concat_getLast hne
    rw [List.getLast?_eq_some_getLast hne] at hl
    cases hl
    exact this.symm
  rcases List.mem_append.mp hy with hy | hy
  · have := (List.pairwise_append.mp h).2.2 y hy last (by simp)
    exact klt_asymm this
  · simp only [List.mem_singleton] at hy; subst hy; exact klt_irrefl _

/-- Core of the pagination argument.  The full ascending listing is `pre ++ L`; everything in `pre`
    is `≤ after`, everything in `L` is `> after`; then the loop returns `L` in chunks of `q` and
    stops on the first empty page, using at most `|L| + 1` calls. -/
theorem paginate_asc (q : Nat) (hq : 1 ≤ q) (K : List Str) (hK : Asc K) :
    ∀ (fuel : Nat) (pre L : List Str) (after : Str), K = pre ++ L →
      (∀ x ∈ pre, sgt x after = false) → (∀ x ∈ L, sgt x after = true) → L.length < fuel →
      paginate (fun a => some (pageOf K q a)) fuel after = (chunkF q fuel L, LoopEnd.done) := by
  intro fuel
  induction fuel with
  | zero => intro pre L after _ _ _ hf; omega
  | succ fuel ih =>
    intro pre L after hKe hpre hL hf
    have hfilter : K.filter (fun s => sgt s after) = L := by
      rw [hKe, List.filter_append]
      have h1 : pre.filter (fun s => sgt s after) = [] := by
        rw [List.filter_eq_nil_iff]; intro x hx; simp [hpre x hx]
      have h2 : L.filter (fun s => sgt s after) = L := by
        rw [List.filter_eq_self]; intro x hx; exact hL x hx
      rw [h1, h2, List.nil_append]
    have hpg : pageOf K q after = L.take q := by simp only [pageOf, hfilter]
    simp only [paginate, hpg]
    cases L with
    | nil => simp [chunkF]
    | cons x r =>
      obtain ⟨q', rfl⟩ : ∃ q', q = q' + 1 := ⟨q - 1, by omega⟩
      have hne : (x :: r).take (q' + 1) ≠ [] := by simp
      have hlast := List.getLast?_eq_some_getLast hne
      rw [hlast]
      simp only [chunkF]
      generalize hlastdef : ((x :: r).take (q' + 1)).getLast hne = last at hlast ⊢
      have hKe' : K = (pre ++ (x :: r).take (q' + 1)) ++ (x :: r).drop (q' + 1) := by
        rw [List.append_assoc, List.take_append_drop]; exact hKe
      have hasc : Asc ((x :: r).take (q' + 1) ++ (x :: r).drop (q' + 1)) := by
        rw [List.take_append_drop]
        rw [hKe] at hK
        exact (List.pairwise_append.mp hK).2.1
      have hasc' := List.pairwise_append.mp hasc
      have hlast_mem : last ∈ (x :: r).take (q' + 1) := hlastdef ▸ List.getLast_mem hne
      have hlast_L : last ∈ x :: r := List.mem_of_mem_take hlast_mem
      have h_after_last : klt after last = true := hL last hlast_L
      have hrec := ih (pre ++ (x :: r).take (q' + 1)) ((x :: r).drop (q' + 1)) last hKe'
        (by
          intro y hy
          rcases List.mem_append.mp hy with hy | hy
          · -- y ≤ after < last
            have h1 : klt after y = false := hpre y hy
            show klt last y = false
            cases h : klt last y with
            | false => rfl
            | true => rw [klt_trans h_after_last h] at h1; cases h1
          · exact asc_le_getLast hasc'.1 hlast y hy)
        (by
          intro y hy
          exact hasc'.2.2 last hlast_mem y hy)
        (by simp only [List.length_drop, List.length_cons] at hf ⊢; omega)
      rw [hrec]

/-- Over any ascending key listing, for every page size ≥ 1 and enough calls (`> |K|`), the loop
    started with the empty `afterKey` ends normally and its pages are the chunks of the listing. -/
theorem paginate_all (q : Nat) (hq : 1 ≤ q) (K : List Str) (hK : Asc K)
    (hpos : ∀ x ∈ K, sgt x [] = true) (fuel : Nat) (hf : K.length < fuel) :
    paginate (fun a => some (pageOf K q a)) fuel [] = (chunk q K, LoopEnd.done) := by
  rw [paginate_asc q hq K hK fuel [] K [] rfl (by simp) hpos hf]
  rw [chunk, chunkF_fuel q hq fuel K.length K (by omega) (Nat.le_refl _)]

/-! ### GetKeysPaged over a store -/

theorem getKeysPaged_eq (S : Store) (pfx : Str) (p : Bytes) (hp : prefixOf pfx = some p)
    (q : Nat) (a : Str) :
    getKeysPaged S true pfx q a = some (pageOf ((S.keysWithPrefix p).map fKey) q a) := by
  simp only [prefixOf] at hp
  simp only [getKeysPaged, hp, if_true, pageLoop_eq, Nat.sub_zero, pageOf]

theorem getKeysPaged_bad (S : Store) (b : Bool) (pfx : Str) (hp : prefixOf pfx = none)
    (q : Nat) (a : Str) : getKeysPaged S b pfx q a = none := by
  simp only [prefixOf] at hp
  simp only [getKeysPaged, hp]

theorem getKeysPaged_unknown_root (S : Store) (pfx : Str) (q : Nat) (a : Str) :
    getKeysPaged S false pfx q a = none := by
  simp only [getKeysPaged]
  split <;> simp

theorem asc_keys {es : Entries} (hs : OMap.Sorted es) (p : Bytes) :
    Asc ((OMap.keysWithPrefix p es).map fKey) := by
  have h1 := (OMap.sorted_iff_pairwise es).mp hs
  simp only [Asc, OMap.keysWithPrefix, List.map_map]
  rw [List.pairwise_map]
  refine (h1.filter _).imp ?_
  intro a b hab
  simpa [fKey_order] using hab

theorem mem_keysWithPrefix (p k : Bytes) (es : Entries) :
    k ∈ OMap.keysWithPrefix p es ↔ p.isPrefixOf k = true ∧ ∃ v, (k, v) ∈ es := by
  simp only [OMap.keysWithPrefix, List.mem_map, List.mem_filter]
  constructor
  · rintro ⟨e, ⟨he, hp⟩, rfl⟩; exact ⟨hp, e.2, he⟩
  · rintro ⟨hp, v, hv⟩; exact ⟨(k, v), ⟨hv, hp⟩, rfl⟩

/-- **C38_pages_spec** (the specification side: the ordered map `es`).  For every prefix, page
    size `q ≥ 1` and every bound of calls above the number of matching keys, the client loop ends
    on an empty page and the pages are the consecutive `q`-chunks of `keysWithPrefix p`. -/
theorem C38_pages_spec {es : Entries} (hs : OMap.Sorted es) (pfx : Str) (p : Bytes)
    (hp : prefixOf pfx = some p) (q : Nat) (hq : 1 ≤ q) (fuel : Nat)
    (hf : (OMap.keysWithPrefix p es).length < fuel) :
    paginate (getKeysPaged (mapStore es) true pfx q) fuel [] =
      (chunk q ((OMap.keysWithPrefix p es).map fKey), LoopEnd.done) := by
  have hfun : getKeysPaged (mapStore es) true pfx q =
      fun a => some (pageOf ((OMap.keysWithPrefix p es).map fKey) q a) := by
    funext a; rw [getKeysPaged_eq _ pfx p hp]; rfl
  rw [hfun]
  apply paginate_all q hq _ (asc_keys hs p)
  · intro x hx
    obtain ⟨k, _, rfl⟩ := List.mem_map.mp hx
    rfl
  · simpa using hf

/-- **C38_pages_partition** — FULL STATEMENT (false for the code, see the counterexample): the same
    with the Go trie `t` in place of the map it represents, for every prefix.
    Proved for every state, prefix, page size ≥ 1 outside the region of the inherited trie finding
    `prefix-zero-nibble` (`trimRegion`: the prefix ends in a zero nibble and some stored key has
    the nibble prefix without that nibble but not the byte prefix). -/
theorem C38_pages_partition_partial {t : Trie} {es : Entries} (h : Rep t es) (pfx : Str) (p : Bytes)
    (hp : prefixOf pfx = some p) (hreg : trimRegion p es = false) (q : Nat) (hq : 1 ≤ q)
    (fuel : Nat) (hf : (OMap.keysWithPrefix p es).length < fuel) :
    paginate (getKeysPaged (trieStore t) true pfx q) fuel [] =
      (chunk q ((OMap.keysWithPrefix p es).map fKey), LoopEnd.done) := by
  have hfun : getKeysPaged (trieStore t) true pfx q = getKeysPaged (mapStore es) true pfx q := by
    funext a
    rw [getKeysPaged_eq _ pfx p hp, getKeysPaged_eq _ pfx p hp]
    simp only [trieStore, mapStore, C02.C02_keysWithPrefix_partial h p hreg]
  rw [hfun]
  exact C38_pages_spec h.sorted pfx p hp q hq fuel hf

/-- in particular for every prefix whose last byte has a non-zero low nibble, and the empty one -/
theorem C38_pages_partition_nonzero {t : Trie} {es : Entries} (h : Rep t es) (pfx : Str) (p : Bytes)
    (hp : prefixOf pfx = some p) (hz : lowNibbleZero p = false) (q : Nat) (hq : 1 ≤ q)
    (fuel : Nat) (hf : (OMap.keysWithPrefix p es).length < fuel) :
    paginate (getKeysPaged (trieStore t) true pfx q) fuel [] =
      (chunk q ((OMap.keysWithPrefix p es).map fKey), LoopEnd.done) :=
  C38_pages_partition_partial h pfx p hp (by simp [trimRegion, hz]) q hq fuel hf

/-- the concatenated pages are exactly the matching keys, each once, in ascending byte order -/
theorem C38_pages_concat_partial {t : Trie} {es : Entries} (h : Rep t es) (pfx : Str) (p : Bytes)
    (hp : prefixOf pfx = some p) (hreg : trimRegion p es = false) (q : Nat) (hq : 1 ≤ q)
    (fuel : Nat) (hf : (OMap.keysWithPrefix p es).length < fuel) :
    let r := paginate (getKeysPaged (trieStore t) true pfx q) fuel []
    r.2 = LoopEnd.done ∧
    r.1.flatten = (OMap.keysWithPrefix p es).map fKey ∧
    (∀ pg ∈ r.1, pg ≠ [] ∧ pg.length ≤ q) ∧
    (OMap.keysWithPrefix p es).Pairwise (fun a b => klt a b = true) ∧
    (OMap.keysWithPrefix p es).Nodup ∧
    (∀ k, k ∈ OMap.keysWithPrefix p es ↔ p.isPrefixOf k = true ∧ ∃ v, (k, v) ∈ es) := by
  intro r
  have hr : r = (chunk q ((OMap.keysWithPrefix p es).map fKey), LoopEnd.done) :=
    C38_pages_partition_partial h pfx p hp hreg q hq fuel hf
  have hasc : (OMap.keysWithPrefix p es).Pairwise (fun a b => klt a b = true) := by
    have := asc_keys h.sorted p
    simp only [Asc] at this
    rw [List.pairwise_map] at this
    exact this.imp (fun hab => by simpa [fKey_order] using hab)
  refine ⟨by rw [hr], by rw [hr]; exact chunk_flatten q hq _, ?_, hasc,
    hasc.imp (fun hab => klt_ne hab), fun k => mem_keysWithPrefix p k es⟩
  intro pg hpg
  rw [hr] at hpg
  exact chunkF_sizes q hq _ _ pg hpg

/-- inside the region: state `{1f ↦ 01}`, prefix `0x10`, page size 1 — the loop lists `0x1f` -/
theorem C38_pages_partition_counterexample :
    ∃ (t : Trie) (es : Entries) (pfx : Str) (p : Bytes) (q fuel : Nat), Rep t es ∧
      prefixOf pfx = some p ∧ 1 ≤ q ∧ (OMap.keysWithPrefix p es).length < fuel ∧
      paginate (getKeysPaged (trieStore t) true pfx q) fuel [] ≠
        (chunk q ((OMap.keysWithPrefix p es).map fKey), LoopEnd.done) :=
  ⟨Trie.put Trie.nil [0x1f] [0x01], OMap.upsert [0x1f] [0x01] [], ['0', 'x', '1', '0'], [0x10], 1, 3,
    Rep.empty.put _ _, by decide, by decide, by decide, by decide⟩

/-- GetKeysPaged hands the block field to the storage as a state root: with the hash of a block
    (unknown as a root) the call fails although the prefix is valid and the state has keys -/
theorem C38_block_counterexample :
    ∃ (t : Trie) (es : Entries) (pfx : Str), Rep t es ∧
      getKeysPaged (trieStore t) (Addr.blk != Addr.blk) pfx 1 [] = none ∧
      getKeysPaged (mapStore es) true pfx 1 [] = some [['0', 'x', '1', 'f']] :=
  ⟨Trie.put Trie.nil [0x1f] [0x01], OMap.upsert [0x1f] [0x01] [], ['0', 'x'],
    Rep.empty.put _ _, by decide, by decide⟩

/-! ### GetPairs -/

theorem sortPairs_sorted {es : Entries} (hs : OMap.Sorted es) :
    sortPairs (es.map (fun e => (fKey e.1, fKey e.2))) = es.map (fun e => (fKey e.1, fKey e.2)) := by
  apply List.mergeSort_of_pairwise
  rw [List.pairwise_map]
  refine ((OMap.sorted_iff_pairwise es).mp hs).imp ?_
  intro a b hab
  have : klt (fKey b.1) (fKey a.1) = false := by rw [fKey_order]; exact klt_asymm hab
  simp [this]

theorem specPairs_nil (es : Entries) : specPairs [] es = es.map (fun e => (fKey e.1, fKey e.2)) := by
  have : es.filter (fun e => ([] : Bytes).isPrefixOf e.1) = es := by
    rw [List.filter_eq_self]; intro a _; rfl
  simp only [specPairs, this]

/-- the listing that comes from `Entries()` (no prefix, `""`, `"0x"`) -/
theorem getPairs_all {t : Trie} {es : Entries} (h : Rep t es) (pfx : Option Str)
    (hp : pfx = none ∨ pfx = some [] ∨ pfx = some ['0', 'x']) :
    getPairs (trieStore t) true pfx = some (specPairs [] es) := by
  simp only [getPairs, Bool.not_true, Bool.false_eq_true, if_false, hp, if_true, trieStore,
    C02.C02_entries h, List.map_map, specPairs_nil]
  have : ((fun e : Bytes × Option Bytes => (fKey e.1, optHex e.2)) ∘
      fun e : Bytes × Bytes => (e.1, some e.2)) = fun e => (fKey e.1, fKey e.2) := by
    funext e; rfl
  rw [this, sortPairs_sorted h.sorted]

/-- **C38_pairs_all**: GetPairs without a prefix (nil, `""` or `"0x"`) returns every key of the
    state with its current value (all states; no side condition). -/
theorem C38_pairs_all {t : Trie} {es : Entries} (h : Rep t es) (pfx : Option Str)
    (hp : pfx = none ∨ pfx = some [] ∨ pfx = some ['0', 'x']) :
    getPairs (trieStore t) true pfx = some (es.map (fun e => (fKey e.1, fKey e.2))) := by
  rw [getPairs_all h pfx hp, specPairs_nil]

/-- the listing through `GetKeysWithPrefix` + `GetStorage` -/
theorem getPairs_prefix {t : Trie} {es : Entries} (h : Rep t es) (pfx : Str) (p : Bytes)
    (hp : hexToBytes? pfx = some p) (hne : ¬ (pfx = [] ∨ pfx = ['0', 'x']))
    (hreg : trimRegion p es = false) :
    getPairs (trieStore t) true (some pfx) = some (specPairs p es) := by
  have hc : ¬ (some pfx = none ∨ some pfx = some [] ∨ some pfx = some ['0', 'x']) := by
    simpa using hne
  simp only [getPairs, Bool.not_true, Bool.false_eq_true, if_false, hc, Option.getD_some, hp,
    trieStore, C02.C02_keysWithPrefix_partial h p hreg, OMap.keysWithPrefix, List.map_map, specPairs]
  congr 1
  apply List.map_congr_left
  intro e he
  have hmem : e ∈ es := (List.mem_filter.mp he).1
  have hg : OMap.get e.1 es = some e.2 := OMap.get_of_mem_sorted h.sorted hmem
  simp only [Function.comp, C02.C02_get_present h e.1 e.2 hg, optHex]

/-- **C38_pairs** — FULL STATEMENT (false for the code inside `trimRegion`): for every state and
    every well-formed prefix string denoting the bytes `p`, GetPairs returns exactly the entries
    whose key has the byte prefix `p`, ascending, each with its current value. -/
theorem C38_pairs_partial {t : Trie} {es : Entries} (h : Rep t es) (pfx : Str) (p : Bytes)
    (hp : hexToBytes? pfx = some p) (hreg : trimRegion p es = false) :
    getPairs (trieStore t) true (some pfx) = some (specPairs p es) := by
  by_cases hne : pfx = [] ∨ pfx = ['0', 'x']
  · have hp0 : p = [] := by
      rcases hne with e | e
      · subst e; simp [hexToBytes?] at hp
      · subst e; simp [hexToBytes?, ofHexChars?] at hp; exact hp
    subst hp0
    exact getPairs_all h (some pfx) (by rcases hne with e | e <;> simp [e])
  · exact getPairs_prefix h pfx p hp hne hreg

/-- inside the region: state `{1f ↦ 01}`, `GetPairs("0x10")` lists `0x1f` -/
theorem C38_pairs_counterexample :
    ∃ (t : Trie) (es : Entries) (pfx : Str) (p : Bytes), Rep t es ∧ hexToBytes? pfx = some p ∧
      getPairs (trieStore t) true (some pfx) ≠ some (specPairs p es) :=
  ⟨Trie.put Trie.nil [0x1f] [0x01], OMap.upsert [0x1f] [0x01] [], ['0', 'x', '1', '0'], [0x10],
    Rep.empty.put _ _, by decide, by decide⟩

/-- a malformed prefix is an error in both calls, whatever the state -/
theorem C38_bad_prefix (S : Store) (b : Bool) (pfx : Str) (q : Nat) (a : Str)
    (hp : prefixOf pfx = none) : getKeysPaged S b pfx q a = none :=
  getKeysPaged_bad S b pfx hp q a

/-- a single page with an arbitrary `afterKey` string (any text: upper case, no `0x`, not hex):
    the first `q` matching keys whose `0x…` text is greater than `afterKey` as a string -/
theorem C38_page_partial {t : Trie} {es : Entries} (h : Rep t es) (pfx : Str) (p : Bytes)
    (hp : prefixOf pfx = some p) (hreg : trimRegion p es = false) (q : Nat) (after : Str) :
    getKeysPaged (trieStore t) true pfx q after =
      some ((((OMap.keysWithPrefix p es).map fKey).filter (fun s => sgt s after)).take q) := by
  rw [getKeysPaged_eq _ pfx p hp]
  simp only [trieStore, C02.C02_keysWithPrefix_partial h p hreg, pageOf]

/-! ### runs of the harness language -/

/-- invariant of every state a run reaches: the working trie represents the working map, which has
    at most as many keys as `put`s were made (the bound of calls the harness loop uses); the same
    for every committed state; and, unless changes are pending, the last committed state IS the
    working state -/
structure Good (s : St) : Prop where
  rep : Rep s.t s.es
  len : s.es.length ≤ s.puts
  hist : ∀ st : Trie × Entries, st ∈ s.hist → Rep st.1 st.2 ∧ st.2.length ≤ s.puts
  last : s.dirty = false → s.hist.getLast? = some (s.t, s.es)

theorem good_init : Good St.init where
  rep := Rep.empty
  len := Nat.le_refl _
  hist := by
    intro st h
    simp only [St.init, List.mem_singleton] at h
    subst h
    exact ⟨Rep.empty, Nat.le_refl _⟩
  last := fun _ => rfl

theorem length_upsert_le (k v : Bytes) (es : Entries) :
    (OMap.upsert k v es).length ≤ es.length + 1 := by
  induction es with
  | nil => simp [OMap.upsert]
  | cons e r ih =>
    simp only [OMap.upsert]
    split
    · simp
    · split
      · simp
      · simp only [List.length_cons]; omega

theorem good_commit {s : St} (h : Good s) : Good s.commit := by
  unfold St.commit
  split
  · refine ⟨h.rep, h.len, ?_, fun _ => by simp⟩
    intro st hst
    rcases List.mem_append.mp hst with hst | hst
    · exact h.hist st hst
    · simp only [List.mem_singleton] at hst; subst hst; exact ⟨h.rep, h.len⟩
  · exact h

theorem good_apply {s : St} (h : Good s) (op : Op) : Good (s.apply op) := by
  cases op with
  | put k v =>
    refine ⟨h.rep.put k v, ?_, ?_, fun hd => by simp [St.apply] at hd⟩
    · have := length_upsert_le k v s.es
      have := h.len
      simp only [St.apply]; omega
    · intro st hst
      have := h.hist st hst
      exact ⟨this.1, by simp only [St.apply]; omega⟩
  | del k =>
    simp only [St.apply]
    split
    · rename_i hk
      obtain ⟨v, hv⟩ := Option.isSome_iff_exists.mp hk
      refine ⟨C02.C02_delete_present h.rep k v hv, ?_, h.hist, fun hd => by simp at hd⟩
      have : (OMap.erase k s.es).length ≤ s.es.length := List.length_filter_le _ _
      have := h.len
      show (OMap.erase k s.es).length ≤ s.puts
      omega
    · exact h
  | page _ _ _ => exact good_commit h
  | loop _ _ => exact good_commit h
  | pairs _ => exact good_commit h
  | «at» _ _ => exact h
  | bad => exact h

/-- a request without a block is answered from the LATEST state: the last committed state once the
    pending changes are committed is the working state, whatever was listed before -/
theorem best_eq {s : St} (h : Good s) : s.best = (s.t, s.es) := by
  unfold St.best St.commit
  split
  · simp
  · rename_i hd
    rw [h.last (by simpa using hd)]; rfl

/-- the state after a run -/
def finalSt (ops : List Op) : St := ops.foldl St.apply St.init

theorem good_foldl (ops : List Op) : ∀ s, Good s → Good (ops.foldl St.apply s) := by
  induction ops with
  | nil => intro s h; exact h
  | cons op r ih => intro s h; exact ih _ (good_apply h op)

/-- every state the harness language can build is represented exactly (for all op lists) -/
theorem C38_state_rep (ops : List Op) : Good (finalSt ops) := good_foldl ops _ good_init

/-- **C38_history**: after ANY history of state changes, commits (new best blocks) and listings,
    every committed state is still represented exactly by its trie, and a request without a block
    resolves to the latest state — listings never influence later listings. -/
theorem C38_history (ops : List Op) :
    (∀ (i : Nat) (st : Trie × Entries), (finalSt ops).hist[i]? = some st → Rep st.1 st.2) ∧
    (finalSt ops).best = ((finalSt ops).t, (finalSt ops).es) := by
  have g := C38_state_rep ops
  exact ⟨fun i st h => (g.hist st (List.mem_of_getElem? h)).1, best_eq g⟩

theorem length_keysWithPrefix_le (p : Bytes) (es : Entries) :
    (OMap.keysWithPrefix p es).length ≤ es.length := by
  simp only [OMap.keysWithPrefix, List.length_map]; exact List.length_filter_le _ _

/-- **C38_pages_partition** for the run itself: in every reachable state the bound of calls the
    harness (and the driver) uses, `puts + 2`, is enough — the loop never reports `nonterm` — and
    the pages of the best block's state are the chunks of the matching keys of the latest map. -/
theorem C38_pages_run_partial (ops : List Op) (pfx : Str) (p : Bytes) (hp : prefixOf pfx = some p)
    (hreg : trimRegion p (finalSt ops).es = false) (q : Nat) (hq : 1 ≤ q) :
    paginate (getKeysPaged (trieStore (finalSt ops).best.1) true pfx q) ((finalSt ops).puts + 2) [] =
      (chunk q ((OMap.keysWithPrefix p (finalSt ops).es).map fKey), LoopEnd.done) := by
  have g := C38_state_rep ops
  rw [best_eq g]
  apply C38_pages_partition_partial g.rep pfx p hp hreg q hq
  have := length_keysWithPrefix_le p (finalSt ops).es
  have := g.len
  omega

/-- … and the same for every earlier state addressed by its root: the pages are the chunks of the
    matching keys of THAT state's map -/
theorem C38_pages_at_partial (ops : List Op) (i : Nat) (st : Trie × Entries)
    (hi : (finalSt ops).hist[i]? = some st) (pfx : Str) (p : Bytes) (hp : prefixOf pfx = some p)
    (hreg : trimRegion p st.2 = false) (q : Nat) (hq : 1 ≤ q) :
    paginate (getKeysPaged (trieStore st.1) true pfx q) ((finalSt ops).puts + 2) [] =
      (chunk q ((OMap.keysWithPrefix p st.2).map fKey), LoopEnd.done) := by
  have g := (C38_state_rep ops).hist st (List.mem_of_getElem? hi)
  apply C38_pages_partition_partial g.1 pfx p hp hreg q hq
  have := length_keysWithPrefix_le p st.2
  omega

/-- the op lies outside of both known-finding regions (this is `kfTag addr s op = ""`) -/
def opSafe (addr : Addr) (s : St) : Op → Bool
  | .at i q =>
    match s.hist[i]?, listedPrefix q with
    | some st, some hp => !trimRegion hp st.2
    | _, _ => true
  | op =>
    match listedPrefix op with
    | none => true
    | some hp => !(op.isPaged && addr == .blk) && !trimRegion hp s.best.2

theorem opSafe_iff_no_tag (addr : Addr) (s : St) (op : Op) :
    opSafe addr s op = true ↔ kfTag addr s op = "" := by
  cases op with
  | «at» i q =>
    simp only [opSafe, kfTag]
    cases s.hist[i]? with
    | none => simp
    | some st =>
      cases listedPrefix q with
      | none => simp
      | some hp => cases ht : trimRegion hp st.2 <;> simp [ht]
  | page p q a =>
    simp only [opSafe, kfTag]
    cases listedPrefix (.page p q a) with
    | none => simp
    | some hp => cases addr <;> cases ht : trimRegion hp s.best.2 <;> simp [ht, Op.isPaged] <;> decide
  | loop p q =>
    simp only [opSafe, kfTag]
    cases listedPrefix (.loop p q) with
    | none => simp
    | some hp => cases addr <;> cases ht : trimRegion hp s.best.2 <;> simp [ht, Op.isPaged] <;> decide
  | pairs p =>
    simp only [opSafe, kfTag]
    cases listedPrefix (.pairs p) with
    | none => simp
    | some hp => cases ht : trimRegion hp s.best.2 <;> simp [ht, Op.isPaged]
  | put _ _ => simp [opSafe, kfTag, listedPrefix]
  | del _ => simp [opSafe, kfTag, listedPrefix]
  | bad => simp [opSafe, kfTag, listedPrefix]

theorem paged_agree {t : Trie} {es : Entries} (h : Rep t es) (b : Bool) (pfx : Str)
    (hsafe : ∀ hp, prefixOf pfx = some hp → trimRegion hp es = false) (q : Nat) :
    getKeysPaged (trieStore t) b pfx q = getKeysPaged (mapStore es) b pfx q := by
  funext a
  cases hp : prefixOf pfx with
  | none => rw [getKeysPaged_bad _ _ _ hp, getKeysPaged_bad _ _ _ hp]
  | some p =>
    cases b with
    | false => rw [getKeysPaged_unknown_root, getKeysPaged_unknown_root]
    | true =>
      rw [getKeysPaged_eq _ pfx p hp, getKeysPaged_eq _ pfx p hp]
      simp only [trieStore, mapStore, C02.C02_keysWithPrefix_partial h p (hsafe p hp)]

theorem pairs_agree {t : Trie} {es : Entries} (h : Rep t es) (b : Bool) (pfx : Option Str)
    (hsafe : ∀ p hp, pfx = some p → hexToBytes? p = some hp → trimRegion hp es = false) :
    getPairs (trieStore t) b pfx = getPairs (mapStore es) b pfx := by
  cases b with
  | false => simp [getPairs]
  | true =>
    by_cases hall : pfx = none ∨ pfx = some [] ∨ pfx = some ['0', 'x']
    · rw [getPairs_all h pfx hall]
      simp only [getPairs, Bool.not_true, Bool.false_eq_true, if_false, hall, if_true, mapStore,
        List.map_map, specPairs_nil]
      have : ((fun e : Bytes × Option Bytes => (fKey e.1, optHex e.2)) ∘
          fun e : Bytes × Bytes => (e.1, some e.2)) = fun e => (fKey e.1, fKey e.2) := by
        funext e; rfl
      rw [this, sortPairs_sorted h.sorted]
    · cases pfx with
      | none => simp at hall
      | some p =>
        have hne : ¬ (p = [] ∨ p = ['0', 'x']) := by simpa using hall
        cases hp : hexToBytes? p with
        | none => simp [getPairs, hall, hp, hne]
        | some hpb =>
          rw [getPairs_prefix h p hpb hp hne (hsafe p hpb rfl hp)]
          simp only [getPairs, Bool.not_true, Bool.false_eq_true, if_false, hall, Option.getD_some,
            hp, mapStore, OMap.keysWithPrefix, List.map_map, specPairs]
          congr 1
          apply List.map_congr_left
          intro e he
          have hmem : e ∈ es := (List.mem_filter.mp he).1
          simp only [Function.comp, OMap.get_of_mem_sorted h.sorted hmem, optHex]

/-- a request against a represented state, outside the trimmed-prefix region: the Go stores and
    the ordered map give the same observable (same resolution flags) -/
theorem observe_agree {t : Trie} {es : Entries} (h : Rep t es) (b1 b2 : Bool) (fuel : Nat) (op : Op)
    (hsafe : ∀ hp, listedPrefix op = some hp → trimRegion hp es = false) :
    observe (trieStore t) b1 b2 fuel op = observe (mapStore es) b1 b2 fuel op := by
  cases op with
  | put _ _ => rfl
  | del _ => rfl
  | bad => rfl
  | «at» _ _ => rfl
  | page p q a =>
    simp only [observe]
    rw [paged_agree h b1 p (fun hp e => hsafe hp (by simpa [listedPrefix] using e))]
  | loop p q =>
    simp only [observe]
    rw [paged_agree h b1 p (fun hp e => hsafe hp (by simpa [listedPrefix] using e))]
  | pairs p =>
    simp only [observe]
    rw [pairs_agree h b2 p]
    intro p' hp' e he
    subst e
    exact hsafe hp' (by simpa [listedPrefix] using he)

/-- the root-resolution flag of `GetKeysPaged` only matters for a paged request with a valid prefix -/
theorem observe_flag (S : Store) (b b' b2 : Bool) (fuel : Nat) (op : Op)
    (h : op.isPaged = false ∨ listedPrefix op = none) :
    observe S b b2 fuel op = observe S b' b2 fuel op := by
  cases op with
  | put _ _ => rfl
  | del _ => rfl
  | bad => rfl
  | «at» _ _ => rfl
  | pairs _ => rfl
  | page p q a =>
    rcases h with h | h
    · simp [Op.isPaged] at h
    · simp only [listedPrefix] at h
      simp only [observe, getKeysPaged_bad _ _ _ h]
  | loop p q =>
    rcases h with h | h
    · simp [Op.isPaged] at h
    · simp only [listedPrefix] at h
      have e : ∀ b, getKeysPaged S b p q = fun _ => none := by
        intro b; funext a; exact getKeysPaged_bad _ _ _ h _ _
      simp only [observe, e]

/-- one op: outside the regions the Go model gives the observable of the specification -/
theorem step_refines {s : St} (h : Good s) (addr : Addr) (op : Op)
    (hs : opSafe addr s op = true) : stepModel addr s op = stepSpec addr s op := by
  have hb := best_eq h
  have key : ∀ op' : Op,
      (match listedPrefix op' with
        | none => true
        | some hp => !(op'.isPaged && addr == .blk) && !trimRegion hp s.best.2) = true →
      observe (trieStore s.best.1) (addr != .blk) (addr != .root) (s.puts + 2) op' =
        observe (mapStore s.best.2) true (addr != .root) (s.puts + 2) op' := by
    intro op' hs'
    rw [hb] at hs' ⊢
    cases hl : listedPrefix op' with
    | none =>
      rw [observe_flag _ (addr != .blk) true _ _ _ (Or.inr hl)]
      exact observe_agree h.rep _ _ _ _ (fun hp e => by rw [hl] at e; cases e)
    | some hp =>
      rw [hl] at hs'
      simp only [Bool.and_eq_true, Bool.not_eq_true', Bool.and_eq_false_iff] at hs'
      have hreg := hs'.2
      have hflag : observe (trieStore s.t) (addr != .blk) (addr != .root) (s.puts + 2) op' =
          observe (trieStore s.t) true (addr != .root) (s.puts + 2) op' := by
        rcases hs'.1 with hp' | ha
        · exact observe_flag _ _ _ _ _ _ (Or.inl hp')
        · have : (addr != .blk) = true := by cases addr <;> simp_all
          rw [this]
      rw [hflag]
      exact observe_agree h.rep _ _ _ _ (fun hp2 e => by rw [hl] at e; cases e; exact hreg)
  cases op with
  | «at» i q =>
    simp only [opSafe] at hs
    simp only [stepModel, stepSpec]
    split
    · cases hst : s.hist[i]? with
      | none => rfl
      | some st =>
        simp only
        have g := h.hist st (List.mem_of_getElem? hst)
        apply observe_agree g.1
        intro hp e
        rw [hst, e] at hs
        simpa using hs
    · rfl
  | put k v => exact key (.put k v) (by simpa [opSafe] using hs)
  | del k => exact key (.del k) (by simpa [opSafe] using hs)
  | bad => exact key (.bad) (by simpa [opSafe] using hs)
  | page p q a => exact key (.page p q a) (by simpa [opSafe] using hs)
  | loop p q => exact key (.loop p q) (by simpa [opSafe] using hs)
  | pairs p => exact key (.pairs p) (by simpa [opSafe] using hs)

/-- no op of the run lies in a known-finding region -/
def safeFrom (addr : Addr) (s : St) : List Op → Bool
  | [] => true
  | op :: r => opSafe addr s op && safeFrom addr (s.apply op) r

theorem refines_from (addr : Addr) (ops : List Op) : ∀ s, Good s → safeFrom addr s ops = true →
    runFrom (stepModel addr) s ops = runFrom (stepSpec addr) s ops := by
  induction ops with
  | nil => intro s _ _; rfl
  | cons op r ih =>
    intro s h hs
    simp only [safeFrom, Bool.and_eq_true] at hs
    simp only [runFrom, step_refines h addr op hs.1, ih _ (good_apply h op) hs.2]

/-- FULL STATEMENT (false for the code): `∀ addr ops, runFrom (stepModel addr) St.init ops =
    runFrom (stepSpec addr) St.init ops`.  Every run of put / del / page / loop / pairs and of
    requests against earlier states (`at i`), with the block field empty, a state root or a block
    hash, all of whose ops stay outside the regions of the two known findings gives exactly the
    observables of the specification: each listing shows the keys of the state it addresses (the
    latest one when no block is given), however many blocks and listings came before. -/
theorem C38_refines_partial (addr : Addr) (ops : List Op) (hs : safeFrom addr St.init ops = true) :
    runFrom (stepModel addr) St.init ops = runFrom (stepSpec addr) St.init ops :=
  refines_from addr ops _ good_init hs

/-- the hypothesis is not vacuous: a run with keys that are prefixes of keys, a prefix ending in a
    zero nibble that is harmless in this state, overwrites, a delete, several blocks, the same
    listing before and after a change and a listing of an earlier state is safe -/
example : safeFrom Addr.nil St.init
    [.put [0x10] [1], .put [0x10, 0x01] [2], .put [] [3], .put [0x20] [4],
     .loop ['0', 'x', '1', '0'] 1, .page ['0', 'x'] 2 ['0', 'x', '1', '0'], .del [0x10],
     .loop ['0', 'x', '1', '0'] 1, .at 1 (.loop ['0', 'x', '1', '0'] 1),
     .pairs (some ['0', 'x', '1', '0']), .pairs none, .loop [] 3] = true := by decide

end Gossamer.C38
