/-
C38 — paginated key listing enumerates each matching key exactly once; the key/value listing
returns exactly the matching keys with their current values.

* `C38_hex_order`       the text order of lower-case hex = the byte order of the keys
                        (including a key that is a proper prefix of another);
* `C38_pages_spec`      over the ordered map: for every page size ≥ 1 the client loop "page after
                        the last key returned" terminates and its pages are exactly the consecutive
                        chunks of `keysWithPrefix p`, i.e. every matching key once, ascending;
* `C38_pages_partition_partial`  the same for the model of the Go code (`Rep t es`), outside the
                        region of the inherited trie finding `prefix-zero-nibble`
                        (FULL STATEMENT — without `trimRegion p es = false` — is false:
                        `C38_pages_partition_counterexample`);
* `C38_pairs_partial`, `C38_pairs_all`   GetPairs = the entries with the byte prefix and their values;
* `C38_refines_partial`  every run of the harness language whose ops stay outside the two
                        known-finding regions gives the observables of the specification;
* `C38_block_counterexample`  the block field of GetKeysPaged is not resolved to a state root.
-/
import Gossamer.Props.C02
import Gossamer.Model.C38
set_option linter.unusedSectionVars false
set_option linter.unusedSimpArgs false
set_option linter.unusedVariables false
namespace Gossamer.C38
open Gossamer Gossamer.Trie

/-! ### hex text order -/

theorem hexDigit_toNat (n : Nat) (h : n < 16) :
    (hexDigit n).toNat = if n < 10 then 48 + n else 87 + n := by
  have : ∀ m : Fin 16, (hexDigit m.val).toNat = if m.val < 10 then 48 + m.val else 87 + m.val := by
    decide
  exact this ⟨n, h⟩

theorem klt_cons_cons {α : Type} [Rank α] (a b : α) (as bs : List α) :
    klt (a :: as) (b :: bs) =
      (decide (Rank.rank a < Rank.rank b) || (Rank.rank a == Rank.rank b && klt as bs)) := rfl

/-- comparing two hex digit pairs (then the rest) is comparing the two bytes (then the rest) -/
theorem klt_hexOfByte (x y : UInt8) (s t : Str) :
    klt (hexOfByte x ++ s) (hexOfByte y ++ t) =
      (decide (x.toNat < y.toNat) || (x.toNat == y.toNat && klt s t)) := by
  have hx : x.toNat < 256 := x.toNat_lt
  have hy : y.toNat < 256 := y.toNat_lt
  simp only [hexOfByte, List.cons_append, List.nil_append, klt_cons_cons, Rank.rank]
  have e1 := hexDigit_toNat _ (by omega : x.toNat / 16 < 16)
  have e2 := hexDigit_toNat _ (by omega : x.toNat % 16 < 16)
  have e3 := hexDigit_toNat _ (by omega : y.toNat / 16 < 16)
  have e4 := hexDigit_toNat _ (by omega : y.toNat % 16 < 16)
  simp only [e1, e2, e3, e4]
  cases klt s t <;> simp only [Bool.and_true, Bool.and_false, Bool.or_false] <;>
    rw [Bool.eq_iff_iff] <;>
    simp only [Bool.or_eq_true, Bool.and_eq_true, decide_eq_true_eq, beq_iff_eq] <;>
    (repeat' split) <;> omega

/-- **C38_hex_order**: `hexLower a < hexLower b ↔ a < b` — the lexicographic order of the
    lower-case hex texts is the byte-lexicographic order of the keys (a proper prefix is smaller
    in both). -/
theorem C38_hex_order (a b : Bytes) : klt (hexChars a) (hexChars b) = klt a b := by
  induction a generalizing b with
  | nil =>
    cases b with
    | nil => rfl
    | cons y ys => simp [hexChars, hexOfByte, klt]
  | cons x xs ih =>
    cases b with
    | nil => simp [hexChars, hexOfByte, klt]
    | cons y ys =>
      have := klt_hexOfByte x y (hexChars xs) (hexChars ys)
      simp only [hexChars, List.flatMap_cons] at this ⊢
      rw [this, klt_cons_cons]
      simp only [Rank.rank]
      have ih' := ih ys
      simp only [hexChars] at ih'
      rw [ih']

/-- the same for the `0x…` strings the RPC returns and compares -/
theorem fKey_order (a b : Bytes) : klt (fKey a) (fKey b) = klt a b := by
  have := klt_append_left ['0', 'x'] (hexChars a) (hexChars b)
  simpa [fKey, C38_hex_order] using this

theorem fKey_gt_empty (k : Bytes) : sgt (fKey k) [] = true := rfl

end Gossamer.C38
