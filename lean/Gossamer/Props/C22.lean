/-
C22  GRANDPA finality is safe under a Byzantine minority.

The theorems are about the ABSTRACT protocol of Gossamer/Model/C22.lean (weights, arbitrary voter count,
arbitrary block tree, any message schedule), not about Go code.  The tie to the code is (1) the threshold
theorems below, whose left-hand sides are the comparisons the Go code makes (tied by `thr`/`fgthr` cases
of the differential run), and (2) trace validation of the tally/decision functions (Driver/C22).
-/
import Gossamer.Lib.C22Inv
import Gossamer.Lib.C22Possible
import Gossamer.Lib.C22Example
import Gossamer.Lib.C22Sim
import Gossamer.Lib.C22SetsExample
namespace Gossamer.C22

/-! ## 1. quorum intersection -/

/-- Two voter sets that each hold more than two thirds of the weight share an HONEST voter, whenever the
    Byzantine voters hold less than one third.  Any number of voters, any weights. -/
theorem C22_quorum_intersection (vs : Voters) (a b : Nat → Bool) (hmin : vs.minority)
    (ha : supermajority vs.total (vs.weight a)) (hb : supermajority vs.total (vs.weight b)) :
    ∃ v, vs.honest v ∧ a v = true ∧ b v = true := by
  have ⟨v, hm, h1, h2, h3⟩ := vs.two_super_meet a b vs.byz hmin ha hb
  exact ⟨v, ⟨hm, h3⟩, h1, h2⟩

/-- 4 voters of weight 1, voter 3 Byzantine -/
def vs4 : Voters := ⟨[0, 1, 2, 3], fun _ => 1, fun v => v == 3⟩
/-- 4 voters of weight 1, voters 2 and 3 Byzantine (half of the weight) -/
def vs4bad : Voters := ⟨[0, 1, 2, 3], fun _ => 1, fun v => v == 2 || v == 3⟩
/-- the fork 0 ← 1 ← 2, 1 ← 3 -/
def fork : BlockOrder Nat := parentOrder [0, 1, 1]

/-- non-vacuous: {0,1,3} and {1,2,3} are supermajorities of `vs4`; they meet in the honest voter 1 -/
example : vs4.minority ∧ supermajority vs4.total (vs4.weight (fun v => v != 2)) ∧
    supermajority vs4.total (vs4.weight (fun v => v != 0)) := by decide

/-- the bound matters: with voters 2 and 3 of 4 Byzantine the supermajorities {0,2,3} and {1,2,3} meet
    only in Byzantine voters -/
theorem C22_quorum_intersection_counterexample :
    supermajority vs4bad.total (vs4bad.weight (fun v => v != 1)) ∧
    supermajority vs4bad.total (vs4bad.weight (fun v => v != 0)) ∧
    ¬ ∃ v, vs4bad.honest v ∧ (v != 1) = true ∧ (v != 0) = true := by
  refine ⟨by decide, by decide, ?_⟩
  intro ⟨v, ⟨hm, hb⟩, h1, h2⟩
  simp [vs4bad] at hm hb h1 h2
  omega

/-! ## 2. one round -/

/-- If, in one round and stage, the votes observed by two parties (ANY subsets `S1`, `S2` of the votes
    cast, equivocators counted for every block) give a supermajority to `b1` and to `b2`, then `b1` and
    `b2` lie on one chain.  Honest voters cast at most one vote; Byzantine voters cast anything. -/
theorem C22_single_round_safe {B : Type} [DecidableEq B] (vs : Voters) (O : BlockOrder B)
    (castV S1 S2 : Votes B) (b1 b2 : B) (hmin : vs.minority)
    (hhon : ∀ v, vs.honest v → single castV v)
    (h1 : ∀ p, p ∈ S1 → p ∈ castV) (h2 : ∀ p, p ∈ S2 → p ∈ castV)
    (hs1 : hasSuper vs O S1 b1) (hs2 : hasSuper vs O S2 b2) : O.comparable b1 b2 :=
  single_round_comparable vs O castV S1 S2 b1 b2 hmin hhon h1 h2 hs1 hs2

/-- non-vacuous, with an equivocator: voters 0,1,2 honest, 3 Byzantine votes for both forks; one observer
    sees a supermajority for 2, another one for 1, nobody can see one for 3 -/
example : vs4.minority ∧ hasSuper vs4 fork [(0, 2), (1, 2), (3, 2)] 2 ∧
    hasSuper vs4 fork [(0, 2), (1, 2), (2, 3), (3, 2), (3, 3)] 1 ∧
    ¬ hasSuper vs4 fork [(0, 2), (1, 2), (2, 3), (3, 2), (3, 3)] 3 := by decide

/-- without the bound the conclusion fails: voters 2 and 3 of 4 Byzantine and equivocating give both
    forks a supermajority -/
theorem C22_single_round_counterexample :
    (∀ v, vs4bad.honest v → single [(0, 2), (1, 3), (2, 2), (2, 3), (3, 2), (3, 3)] v) ∧
    hasSuper vs4bad fork [(0, 2), (1, 3), (2, 2), (2, 3), (3, 2), (3, 3)] 2 ∧
    hasSuper vs4bad fork [(0, 2), (1, 3), (2, 2), (2, 3), (3, 2), (3, 3)] 3 ∧
    ¬ fork.comparable 2 3 := by
  refine ⟨?_, by decide, by decide, by decide⟩
  intro v ⟨hm, hb⟩ b b' h1 h2
  simp [vs4bad] at hm hb h1 h2
  omega

/-! ## 3. the implementation thresholds -/

/-- lib/grandpa: the three places where the voter itself decides — block selection in the tallies
    (`total > threshold`), the precommit gate (`total <= threshold` → wait) and `attemptToFinalize`
    (`precommitCount <= threshold` → not finalisable) — with `threshold = ⌊2n/3⌋` are each EXACTLY
    "more than two thirds of n"; pkg/finality-grandpa: `weight >= total - (total-1)/3` is exactly
    "more than two thirds of total" (total ≥ 1), and the `uint64` evaluation of that threshold is the
    natural-number one. -/
theorem C22_threshold_tie :
    (∀ n c : Nat, (libSelects n c = true ↔ supermajority n c) ∧
                  (libGate n c = true ↔ supermajority n c) ∧
                  (libFinalises n c = true ↔ supermajority n c)) ∧
    (∀ total w : Nat, 1 ≤ total → (fgSuper total w = true ↔ supermajority total w)) ∧
    (∀ total : Nat, 1 ≤ total → total < 18446744073709551616 → thrFG64 total = thrFG total) := by
  refine ⟨?_, ?_, ?_⟩
  · intro n c
    unfold libSelects libGate libFinalises thrLib supermajority
    simp only [decide_eq_true_eq, Bool.not_eq_true', decide_eq_false_iff_not]
    omega
  · intro total w h
    unfold fgSuper thrFG supermajority
    simp only [decide_eq_true_eq]
    omega
  · intro total h1 h2
    unfold thrFG64 thrFG
    simp only
    omega

/-- the commit-message path of lib/grandpa (`validAndEqv < threshold` → reject) accepts every
    supermajority … -/
theorem C22_commit_rule_complete (n c : Nat) (h : supermajority n c) : libCommitAccepts n c = true := by
  unfold libCommitAccepts thrLib supermajority at *
  simp only [Bool.not_eq_true', decide_eq_false_iff_not]
  omega

/-- … but also exactly ⌊2n/3⌋ supporters, which is never a supermajority (known finding
    c18-threshold-not-strict, seen from C22) -/
theorem C22_commit_rule_not_strict (n : Nat) :
    libCommitAccepts n (thrLib n) = true ∧ ¬ supermajority n (thrLib n) := by
  unfold libCommitAccepts thrLib supermajority
  simp only [Bool.not_eq_true', decide_eq_false_iff_not]
  omega

/-- For which n is the commit rule still safe?  When n is a multiple of 3, two accepted signer sets of
    sizes c1, c2 ≤ n overlap in MORE than f voters for every f with 3f < n: they share an honest voter. -/
theorem C22_commit_rule_quorum_partial (n f c1 c2 : Nat) (h3 : n % 3 = 0) (hf : 3 * f < n)
    (h1 : libCommitAccepts n c1 = true) (h2 : libCommitAccepts n c2 = true) :
    n + f < c1 + c2 := by
  unfold libCommitAccepts thrLib at *
  simp only [Bool.not_eq_true', decide_eq_false_iff_not] at h1 h2
  omega

/-- When n is NOT a multiple of 3, there are f with 3f < n and accepted sizes c1, c2 ≤ n with
    c1 + c2 ≤ n + f: two accepted signer sets can overlap in Byzantine voters only (or not at all). -/
theorem C22_commit_rule_quorum_counterexample (n : Nat) (h3 : n % 3 ≠ 0) :
    ∃ f c1 c2, 3 * f < n ∧ c1 ≤ n ∧ c2 ≤ n ∧ libCommitAccepts n c1 = true ∧
      libCommitAccepts n c2 = true ∧ c1 + c2 ≤ n + f := by
  refine ⟨(n - 1) / 3, thrLib n, thrLib n, ?_⟩
  unfold libCommitAccepts thrLib
  simp only [Bool.not_eq_true', decide_eq_false_iff_not]
  have h : n % 3 = 1 ∨ n % 3 = 2 := by omega
  rcases h with h | h <;> omega

/-- 4 honest voters -/
def vs4h : Voters := ⟨[0, 1, 2, 3], fun _ => 1, fun _ => false⟩
/-- 5 voters, voter 4 Byzantine -/
def vs5 : Voters := ⟨[0, 1, 2, 3, 4], fun _ => 1, fun v => v == 4⟩

/-- concretely: 4 voters, none Byzantine: the signer sets {0,1} and {2,3} are both accepted by the commit
    rule and are disjoint; 5 voters, voter 4 Byzantine: {0,1,4} and {2,3,4} meet only in voter 4 -/
theorem C22_commit_rule_disjoint_counterexample :
    (vs4h.minority ∧ libCommitAccepts 4 (vs4h.weight (fun v => v < 2)) = true ∧
       libCommitAccepts 4 (vs4h.weight (fun v => 2 ≤ v)) = true ∧
       vs4h.weight (fun v => v < 2 && 2 ≤ v) = 0) ∧
    (vs5.minority ∧ libCommitAccepts 5 (vs5.weight (fun v => v < 2 || v == 4)) = true ∧
       libCommitAccepts 5 (vs5.weight (fun v => 2 ≤ v)) = true ∧
       vs5.weight (fun v => (v < 2 || v == 4) && 2 ≤ v && !vs5.byz v) = 0) := by decide

/-! ## 4. all rounds -/

/-- SAFETY.  In every reachable state of the asynchronous system (any interleaving of honest steps,
    Byzantine votes incl. equivocations, delivery / loss / duplication / reordering), any two blocks
    finalised by honest voters — the same or different voters, the same or different rounds — lie on one
    chain, provided the Byzantine voters hold less than a third of the weight. -/
theorem C22_safe {B : Type} [DecidableEq B] (vs : Voters) (O : BlockOrder B) (hmin : vs.minority)
    (s : State B) (hs : Reachable vs O s) (v1 v2 : Nat) (b1 b2 : B)
    (h1 : b1 ∈ s.fin v1) (h2 : b2 ∈ s.fin v2) : O.comparable b1 b2 := by
  have I := hs.inv
  have ⟨r1, hr1⟩ := I.fin_ok v1 b1 h1
  have ⟨r2, hr2⟩ := I.fin_ok v2 b2 h2
  exact I.hist.safe hmin r1 r2 b1 b2 hr1 hr2

/-- The paper's invariant, for reachable states: a block that has a supermajority of the precommits cast
    in round r is an ancestor of every honest vote of every later round. -/
theorem C22_locked_later {B : Type} [DecidableEq B] (vs : Voters) (O : BlockOrder B) (hmin : vs.minority)
    (s : State B) (hs : Reachable vs O s) (r : Nat) (x : B)
    (hx : hasSuper vs O (votesOf s.sent r .precommit) x)
    (m : Msg B) (hm : m ∈ s.sent) (hv : vs.honest m.voter) (hr : r < m.round) :
    O.le x m.block = true :=
  hs.inv.hist.locked_later hmin r x hx (m.round - r - 1) m hm hv (by omega)

/-- Safety across rounds for ANY honest behaviour that keeps the abstract rule "never vote in a round
    after r for a block that does not descend from a block that got a precommit supermajority in round r"
    (stated on the set of all votes cast; this is the form trace validation checks against the Go code). -/
theorem C22_safe_of_rule {B : Type} [DecidableEq B] (vs : Voters) (O : BlockOrder B) (hmin : vs.minority)
    (sent : List (Msg B))
    (hsingle : ∀ m m', m ∈ sent → m' ∈ sent → vs.honest m.voter → m.voter = m'.voter →
      m.round = m'.round → m.stage = m'.stage → m.block = m'.block)
    (hrule : ∀ r x, hasSuper vs O (votesOf sent r .precommit) x →
      ∀ m, m ∈ sent → vs.honest m.voter → r < m.round → m.stage = .precommit → O.le x m.block = true)
    (r1 r2 : Nat) (b1 b2 : B)
    (h1 : hasSuper vs O (votesOf sent r1 .precommit) b1)
    (h2 : hasSuper vs O (votesOf sent r2 .precommit) b2) : O.comparable b1 b2 := by
  have hsing : ∀ r, ∀ v, vs.honest v → single (votesOf sent r .precommit) v := by
    intro r v hv b b' hb hb'
    rw [mem_votesOf] at hb hb'
    exact hsingle _ _ hb hb' hv rfl rfl rfl
  have later : ∀ (ra rb : Nat) (ba bb : B), ra < rb →
      hasSuper vs O (votesOf sent ra .precommit) ba → hasSuper vs O (votesOf sent rb .precommit) bb →
      O.comparable ba bb := by
    intro ra rb ba bb hlt ha hb
    have ⟨v, c, hv, hvc, hbc⟩ := hasSuper_honest_vote vs O _ bb hmin (hsing rb) hb
    rw [mem_votesOf] at hvc
    exact O.chain ba bb c (hrule ra ba ha _ hvc hv hlt rfl) hbc
  rcases Nat.lt_trichotomy r1 r2 with h | h | h
  · exact later r1 r2 b1 b2 h h1 h2
  · subst h
    exact single_round_comparable vs O _ _ _ b1 b2 hmin (hsing r1) (fun _ h => h) (fun _ h => h) h1 h2
  · exact (later r2 r1 b2 b1 h h2 h1).symm

/-- the hypotheses of `C22_safe` are not vacuous: the abstract system reaches a state (Lib/C22Example: 4 voters,
    one Byzantine, a tree with a fork) in which an honest voter has finalised a block, has left round 0 with an
    estimate through the `closable` rule and has cast a vote in round 1 -/
theorem C22_safe_nonvacuous :
    ∃ s : State (Fin 4), Reachable Example.vs Example.fork4 s ∧ Example.vs.minority ∧
      (1 : Fin 4) ∈ s.fin 0 ∧ s.round 0 = 1 ∧ s.est 0 0 = some 1 ∧
      (⟨1, .prevote, 0, 3⟩ : Msg (Fin 4)) ∈ s.sent :=
  ⟨Example.t15, Example.r15, by decide, by decide, by decide, by decide, by decide⟩

/-! ## 5. the estimate as voters compute it -/

/-- The computed test "is a supermajority for x still possible?" (weight for x + weight that has not voted +
    as much of the weight against x as may still equivocate — finality-grandpa's `Round.estimate`, and the
    rule check of the trace validation) is complete for the semantic notion used by `closable`: if ANY
    extension of the received votes with less than a third equivocating gives x a supermajority, the
    test says "possible". -/
theorem C22_possible_complete {B : Type} [DecidableEq B] (vs : Voters) (O : BlockOrder B) (S : Votes B)
    (x : B) (h : possible vs O S x) : possibleW vs O S x = true :=
  possibleW_of_possible vs O S x h

/-- Hence a voter that leaves a round with the estimate computed by that test follows the abstract rule. -/
theorem C22_closable_of_computed {B : Type} [DecidableEq B] (vs : Voters) (O : BlockOrder B)
    (view : List (Msg B)) (r : Nat) (g e : B)
    (hg : hasSuper vs O (votesOf view r .prevote) g) (he : O.le e g = true)
    (hall : ∀ x : B, O.comparable x g → possibleW vs O (votesOf view r .precommit) x = true →
      O.le x e = true) : closable vs O view r g e :=
  closable_of_computed vs O view r g e hg he hall

/-! ## 6. lib/grandpa across rounds (known finding c22-prevote-ignores-estimate) -/

/-- the schedule of the known finding: 4 voters, NO Byzantine voter, the fork 0 ← 1 ← 2, 1 ← 3 -/
def forkCfg : Sim.Cfg := ⟨4, [], [0, 1, 1]⟩

def forkOps : List Sim.Op :=
  [.best 0 2, .best 1 2, .best 2 2, .best 3 3, .pv 0, .pv 1, .pv 2, .pv 3, .d 1 0, .d 2 0, .d 3 0,
   .d 0 1, .d 2 1, .d 3 1, .d 0 2, .d 1 2, .d 3 2, .d 0 3, .d 1 3, .pc 0, .pc 1, .pc 2, .pc 3,
   .d 5 0, .d 6 0, .d 7 0, .d 4 1, .d 7 1, .d 4 2, .d 7 2, .d 4 3, .d 5 3, .fin 0, .fin 1, .fin 2,
   .fin 3, .best 1 3, .best 2 3, .best 3 3, .pv 1, .pv 2, .pv 3, .d 9 1, .d 10 1, .d 8 2, .d 10 2,
   .d 8 3, .d 9 3, .pc 1, .pc 2, .pc 3, .d 12 1, .d 13 1, .d 11 2, .d 13 2, .d 11 3, .d 12 3,
   .fin 1, .fin 2, .fin 3]

set_option maxRecDepth 100000 in
/-- The decision functions of lib/grandpa in the closed form that the differential run ties to the real
    code (Lib/C22Sim; the real Services give the same outputs on this very schedule, corpus line of
    corpus/C22/run0.lines) finalise blocks 2 and 3, which are on different forks, although every voter is
    honest: voter 0 finalises block 2 in round 1, voters 1–3 finalise block 1 in round 1 and block 3 in
    round 2.  `C22_safe` does not apply because these voters leave round 1 without an estimate and prevote
    outside the chain of block 2, which still could (and did) get a supermajority: the rule `closable` /
    `extendsEst` of the abstract protocol is not implemented by lib/grandpa. -/
theorem C22_lib_rounds_counterexample :
    forkCfg.byz = [] ∧
    (let w := forkOps.foldl (Sim.step forkCfg) { vs := List.replicate forkCfg.n {}, sets := [List.range forkCfg.n] }
     Sim.safeB forkCfg w = false ∧ (Sim.getV w 0).fins = [2] ∧ (Sim.getV w 1).fins = [3, 1] ∧
       w.estViol = true ∧ w.otherViol = false) ∧
    ¬ (parentOrder forkCfg.ps).comparable 2 3 := by
  refine ⟨rfl, ?_, by decide⟩
  decide

/-! ## 7. several authority sets -/

/-- SAFETY ACROSS AUTHORITY SETS.  The system of Lib/C22Sets: one protocol state per set id, voter set `P.vs s` for
    set s (its own weights and Byzantine members; a key outside `(P.vs s).ids` — e.g. a retired authority that keeps
    voting — weighs nothing in set s), every step is a step of the single-set protocol in one set.  ASSUMED of honest
    voters (`okVote`, for PRECOMMITS only): a precommit of set s is never strictly above the handover block
    `P.limit s` (capped at the pending change); a precommit of set s+1 descends from `P.limit s` and is cast only
    once `P.limit s` has a supermajority of the precommits of some round of set s (one enters a set by finalising
    the handover block).
    ASSUMED of the parameters: the handover blocks lie on one chain.  PROVED: any two blocks finalised by honest
    voters, in any rounds of any sets, lie on one chain, if every set from the lower to the higher one keeps its
    Byzantine members below a third of its weight. -/
theorem C22_safe_sets {B : Type} [DecidableEq B] (P : SetParams B) (O : BlockOrder B)
    (hlim : ∀ s, O.le (P.limit s) (P.limit (s + 1)) = true)
    (σ : MState B) (hr : MReachable P O σ) (s1 s2 v1 v2 : Nat) (b1 b2 : B)
    (hmin : ∀ k, min s1 s2 ≤ k → k ≤ max s1 s2 → (P.vs k).minority)
    (h1 : b1 ∈ (σ s1).fin v1) (h2 : b2 ∈ (σ s2).fin v2) : O.comparable b1 b2 := by
  have I := hr.minv
  have ⟨r1, hr1⟩ := (I.inv s1).fin_ok v1 b1 h1
  have ⟨r2, hr2⟩ := (I.inv s2).fin_ok v2 b2 h2
  rcases Nat.le_total s1 s2 with h | h
  · exact I.safe hlim s1 s2 r1 r2 b1 b2 h (fun k ha hb => hmin k (by omega) (by omega)) hr1 hr2
  · exact (I.safe hlim s2 s1 r2 r1 b2 b1 h (fun k ha hb => hmin k (by omega) (by omega)) hr2 hr1).symm

/-- within one set only that set's bound is needed, whatever happens in the other sets -/
theorem C22_safe_within_set {B : Type} [DecidableEq B] (P : SetParams B) (O : BlockOrder B)
    (σ : MState B) (hr : MReachable P O σ) (s v1 v2 : Nat) (b1 b2 : B) (hmin : (P.vs s).minority)
    (h1 : b1 ∈ (σ s).fin v1) (h2 : b2 ∈ (σ s).fin v2) : O.comparable b1 b2 := by
  have I := (hr.minv).inv s
  have ⟨r1, hr1⟩ := I.fin_ok v1 b1 h1
  have ⟨r2, hr2⟩ := I.fin_ok v2 b2 h2
  exact I.hist.safe hmin r1 r2 b1 b2 hr1 hr2

/-- non-vacuous: an execution over two sets (Lib/C22SetsExample) in which set 0 finalises the handover block 1 and
    an honest voter of set 1 votes for block 3 above it -/
theorem C22_safe_sets_nonvacuous :
    ∃ σ : MState (Fin 4), MReachable Example.P Example.fork4 σ ∧
      (∀ s, Example.fork4.le (Example.P.limit s) (Example.P.limit (s + 1)) = true) ∧
      (1 : Fin 4) ∈ (σ 0).fin 0 ∧ (⟨0, .prevote, 0, 3⟩ : Msg (Fin 4)) ∈ (σ 1).sent :=
  ⟨Example.μ14, Example.q14, Example.P_limits, by decide, by decide⟩

end Gossamer.C22
