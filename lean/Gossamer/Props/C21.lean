/-
C21 – the voter's vote choices and finalisation follow GRANDPA-GHOST.

Theorems about the model of lib/grandpa's tally code (Gossamer/Model/C21.lean).  Every theorem about a tally
function is stated for ALL iteration orders of the Go maps (`o : Ord`, `o.Valid`: every order is a permutation).

Sections: thresholds and totals; the pre-voted block in closed form and order independence; the precommit target;
the vote filter and the reachable states; finalisation; histories with authority-set changes (`initiateRound`).
-/
import Gossamer.Lib.C21Unique
import Gossamer.Lib.C21Filter
import Gossamer.Lib.C21Final
import Gossamer.Lib.C21Account
import Gossamer.Lib.C21Bfc
namespace Gossamer.C21

/-- `total > State.threshold()` is "more than two thirds of the `n` authorities" -/
theorem C21_threshold_arith (n w : Nat) : thr n < w ↔ 2 * n < 3 * w := by
  unfold thr
  omega

/-- `getTotalVotesForBlock` (the sum over the Go map of direct votes, keyed by (hash, number) pairs) is the number
of authorities whose stored vote is for the block or a descendant, plus the number of equivocators -/
theorem C21_total_eq_weight (c : Cfg) (s : St) (b : Nat) :
    pvTotal c s b = cnt c.t s.pv b + s.pve.length ∧ pcTotal c s b = cnt c.t s.pc b + s.pce.length :=
  ⟨total_eq _ _ _ _, total_eq _ _ _ _⟩

/-- **The pre-voted block in closed form, for every iteration order.**  If the stored prevotes name blocks of the
tree on the chain of the finalised head with their own numbers, then whatever orders the Go maps are ranged over,
`getPreVotedBlock` answers one of the blocks of `pvbSet` (the deepest candidates at the first threshold
`thr n, thr n - 1, …` that has any) with that block's number, and fails (`ErrNoGHOST`) only when there is none. -/
theorem C21_prevoted_closed_form {c : Cfg} (hw : c.t.WF) {s : St} (hg : GoodVotes c s.pv) {o : Ord}
    (ho : o.Valid) :
    (∀ v, getPreVotedBlock c o s = .ok v → v.blk ∈ pvbSet c s ∧ v = c.voteOf v.blk) ∧
    (∀ e, getPreVotedBlock c o s = .error e → e = .noghost ∧ pvbSet c s = []) :=
  gpv_closed_form hw hg ho

/-- **Order independence.**  When the closed form leaves one block (no tie between equally deep candidates), any
two families of iteration orders give the same pre-voted block and the same precommit. -/
theorem C21_order_independent {c : Cfg} (hw : c.t.WF) {s : St} (hg : GoodVotes c s.pv) {o o' : Ord}
    (ho : o.Valid) (ho' : o'.Valid) (huniq : ∀ a ∈ pvbSet c s, ∀ b ∈ pvbSet c s, a = b) :
    getPreVotedBlock c o s = getPreVotedBlock c o' s ∧ determinePreCommit c o s = determinePreCommit c o' s := by
  have key : ∀ {o1 o2 : Ord}, o1.Valid → o2.Valid → getPreVotedBlock c o1 s = getPreVotedBlock c o2 s := by
    intro o1 o2 h1 h2
    have a1 := C21_prevoted_closed_form hw hg h1
    have a2 := C21_prevoted_closed_form hw hg h2
    cases e1 : getPreVotedBlock c o1 s with
    | ok v1 =>
      cases e2 : getPreVotedBlock c o2 s with
      | ok v2 =>
        have b1 := a1.1 v1 e1
        have b2 := a2.1 v2 e2
        have := huniq _ b1.1 _ b2.1
        rw [b1.2, b2.2, this]
      | error x =>
        have b1 := a1.1 v1 e1
        have b2 := a2.2 x e2
        rw [b2.2] at b1
        cases b1.1
    | error x1 =>
      cases e2 : getPreVotedBlock c o2 s with
      | ok v2 =>
        have b1 := a1.2 x1 e1
        have b2 := a2.1 v2 e2
        rw [b1.2] at b2
        cases b2.1
      | error x2 =>
        rw [(a1.2 x1 e1).1, (a2.2 x2 e2).1]
  refine ⟨key ho ho', ?_⟩
  unfold determinePreCommit
  rw [key (ho.sub 0) (ho'.sub 0)]

def tieCfg : Cfg := ⟨[0, 1, 2, 3], 9, 0, ⟨[0, 0, 0]⟩, 0, .none, 1, 0, false⟩
def tieSt : St := { pv := [(0, ⟨1, 1⟩), (1, ⟨2, 1⟩)], pve := [(2, 2), (3, 2)] }

/-- a concrete tie (two equivocators of four and one vote on each of two siblings, both with 3 of 4): the answer
does depend on the order – both blocks are possible -/
theorem C21_order_dependent_on_ties :
    (getPreVotedBlock tieCfg (fun _ => Perms.id) tieSt).toOption = some ⟨2, 1⟩ ∧
    (getPreVotedBlock tieCfg (fun _ => ⟨fun l => l, fun l => l, List.reverse⟩) tieSt).toOption = some ⟨1, 1⟩ ∧
    pvbSet tieCfg tieSt = [1, 2] := by
  decide

/-! ### the precommit target -/

/-- the GRANDPA-GHOST of the specification: a deepest block of the tree with more than two thirds of the prevotes
(votes for descendants and equivocators counted) -/
def IsGhost (c : Cfg) (s : St) (G : Nat) : Prop :=
  G < c.t.size ∧ thr c.n < pvTotal c s G ∧
    ∀ b, b < c.t.size → thr c.n < pvTotal c s b → c.t.depth b ≤ c.t.depth G

/-- with distinct authorities and at most one third equivocators the GHOST is unique -/
theorem C21_ghost_unique {c : Cfg} (hw : c.t.WF) {s : St} (hg : GoodVotes c s.pv)
    (hacc : s.pv.length + s.pve.length ≤ c.n) (he : 3 * s.pve.length ≤ c.n) {G G' : Nat}
    (h : IsGhost c s G) (h' : IsGhost c s G') : G = G' := by
  obtain ⟨hG, hGt, hmax⟩ := h
  obtain ⟨hG', hGt', hmax'⟩ := h'
  have e1 := hmax G' hG' hGt'
  have e2 := hmax' G hG hGt
  rw [(C21_total_eq_weight c s _).1] at hGt hGt'
  exact super_unique hw hg.known hacc he hG hG' hGt hGt' (by omega)

/-- **The precommit target** (partial: outside the region of known finding c21-direct-vote-shadows-ghost).
Full statement: for every iteration order, if a GHOST `G` exists (and the authorities are distinct with at most one
third equivocators) then `getPreVotedBlock = G` and `determinePreCommit = cap G`.  It holds when `G` itself was
voted for directly or no directly voted block has a supermajority (the hypothesis `hns` is exactly the complement
of the region where the early return of `getPossibleSelectedBlocks` hides `G`, see the counterexample below). -/
theorem C21_precommit_target_partial {c : Cfg} (hw : c.t.WF) {s : St} (hg : GoodVotes c s.pv) {o : Ord}
    (ho : o.Valid) (hacc : s.pv.length + s.pve.length ≤ c.n) (he : 3 * s.pve.length ≤ c.n) {G : Nat}
    (hgh : IsGhost c s G)
    (hns : (∃ kv ∈ s.pv, kv.2.blk = G) ∨ (∀ kv ∈ s.pv, pvTotal c s kv.2.blk ≤ thr c.n)) :
    getPreVotedBlock c o s = .ok (c.voteOf G) ∧ determinePreCommit c o s = capVote c (c.voteOf G) := by
  obtain ⟨hG, hGt, hmax⟩ := hgh
  have htot : ∀ b, pvTotal c s b = cnt c.t s.pv b + s.pve.length := fun b => (C21_total_eq_weight c s b).1
  rw [htot] at hGt
  -- G is a candidate
  have hGc : G ∈ cands c s.pv s.pve.length (thr c.n) := by
    unfold cands
    by_cases hd : dirSel c s.pv s.pve.length (thr c.n) = []
    · simp only [hd, List.isEmpty_nil, Bool.not_true, Bool.false_eq_true, if_false]
      have hne : s.pv ≠ [] := by
        intro hn
        rw [hn] at hGt
        simp only [cnt, List.countP_nil] at hGt
        unfold thr at hGt
        omega
      have hve : s.pv.isEmpty = false := by
        cases hh : s.pv with
        | nil => exact absurd hh hne
        | cons _ _ => rfl
      simp only [hve, Bool.false_eq_true, if_false]
      exact mem_superBlocks.2 ⟨hG, hGt⟩
    · have hde : (!(dirSel c s.pv s.pve.length (thr c.n)).isEmpty) = true := by
        cases hh : dirSel c s.pv s.pve.length (thr c.n) with
        | nil => exact absurd hh hd
        | cons _ _ => rfl
      rw [if_pos hde]
      obtain ⟨b0, hb0⟩ := List.exists_mem_of_ne_nil _ hd
      obtain ⟨⟨kv0, hkv0, hkb0⟩, ht0⟩ := mem_dirSel.1 hb0
      rcases hns with ⟨kv, hkv, hkG⟩ | hns
      · exact mem_dirSel.2 ⟨⟨kv, hkv, hkG⟩, hGt⟩
      · have := hns kv0 hkv0
        rw [htot, hkb0] at this
        omega
  have hne : cands c s.pv s.pve.length (thr c.n) ≠ [] := fun hn => by rw [hn] at hGc; cases hGc
  -- every deepest candidate is G
  have hall : ∀ b ∈ pvbSet c s, b = G := by
    intro b hb
    unfold pvbSet at hb
    rw [candsDown_of_ne hne] at hb
    obtain ⟨hbc, hbm⟩ := mem_maxDepth.1 hb
    have hbs := mem_cands_super hg.known hbc
    have h1 := hbm G hGc
    have h2 := hmax b hbs.1 (by rw [htot]; exact hbs.2)
    exact super_unique hw hg.known hacc he hbs.1 hG hbs.2 hGt (by omega)
  have key : ∀ {o1 : Ord}, o1.Valid → getPreVotedBlock c o1 s = .ok (c.voteOf G) := by
    intro o1 h1
    have a1 := C21_prevoted_closed_form hw hg h1
    cases e1 : getPreVotedBlock c o1 s with
    | ok v =>
      have b1 := a1.1 v e1
      rw [b1.2, hall _ b1.1]
    | error x =>
      have b1 := a1.2 x e1
      have : G ∈ pvbSet c s := by
        unfold pvbSet
        rw [candsDown_of_ne hne]
        refine mem_maxDepth.2 ⟨hGc, fun b' hb' => ?_⟩
        have hbs := mem_cands_super hg.known hb'
        exact hmax b' hbs.1 (by rw [htot]; exact hbs.2)
      rw [b1.2] at this
      cases this
  refine ⟨key ho, ?_⟩
  unfold determinePreCommit
  rw [key (ho.sub 0)]
  rfl

def shadowCfg : Cfg := ⟨[0, 1, 2, 3], 9, 0, ⟨[0, 0, 1, 2, 2]⟩, 0, .none, 1, 0, false⟩
def shadowSt : St := { pv := [(0, ⟨1, 1⟩), (1, ⟨3, 3⟩), (2, ⟨3, 3⟩), (3, ⟨4, 3⟩)] }

/-- the full statement fails: block 1 was voted for directly (4 of 4 in total), so the common ancestor 2 of the
other three votes (3 of 4: the GHOST) is never looked for; the pre-voted block and the precommit are block 1 -/
theorem C21_precommit_target_counterexample :
    ghostSet shadowCfg shadowSt.pv 0 (thr 4) = [2] ∧
    (getPreVotedBlock shadowCfg (fun _ => Perms.id) shadowSt).toOption = some ⟨1, 1⟩ ∧
    (determinePreCommit shadowCfg (fun _ => Perms.id) shadowSt).toOption = some ⟨1, 1⟩ ∧
    pvbSet shadowCfg shadowSt = [1] := by
  decide

/-- the cap of a vote for `G` at the authority change height `h < number G` is the highest ancestor of `G` with a
number `≤ h` (on the chain of `G`, not on the best chain) -/
theorem C21_cap_is_ancestor {c : Cfg} (hw : c.t.WF) {G h : Nat} (hG : G < c.t.size) (hc : c.chg = .at h)
    (hh : h < c.number G) {v : Vote} (hv : capVote c (c.voteOf G) = .ok v) :
    v = c.voteOf v.blk ∧ v.blk ∈ c.t.chain G ∧ v.num ≤ h ∧
      ∀ x ∈ c.t.chain G, c.number x ≤ h → x ∈ c.t.chain v.blk := by
  unfold capVote at hv
  rw [hc] at hv
  simp only [Cfg.voteOf, hh, if_true] at hv
  unfold ancestorAtNumber at hv
  rw [if_neg (by omega)] at hv
  split at hv
  · rename_i x hx
    cases hv
    obtain ⟨h1, h2, h3⟩ := find_chain hw (fun x => decide (c.number x ≤ h)) G x hx
    refine ⟨rfl, h1, by simpa [Cfg.voteOf] using h2, fun y hy hyn => h3 y hy (by simpa using hyn)⟩
  · cases hv

/-! ### the vote filter -/

/-- the defects of a vote message the property names (plus wrong set, wrong round and our own key);
the wrong block number counts only for the corrected check (`c.strict`) -/
def BadMsg (c : Cfg) (m : Msg) : Prop :=
  m.sigOK = false ∨ m.key ∉ c.voters ∨ c.t.size ≤ m.blk ∨ c.fin ∉ c.t.chain m.blk ∨ m.mset ≠ c.set ∨
    m.mround ≠ c.round ∨ m.key = c.me ∨ (c.strict = true ∧ m.num ≠ c.number m.blk)

/-- **The filter** (partial: the wrong block number is rejected only by the corrected check, known finding
c21-wrong-number-vote-counted).  Full statement: a vote message that is badly signed, from a non-authority, for an
unknown block, with a wrong block number or not descending from the finalised head is answered with an error and
changes none of the four tallies (prevotes, precommits, both equivocation maps) – for every state. -/
theorem C21_filter_partial (c : Cfg) (s : St) (m : Msg) (h : BadMsg c m) :
    (validateVoteMessage c s m).1 ≠ none ∧
    (validateVoteMessage c s m).2.pv = s.pv ∧ (validateVoteMessage c s m).2.pc = s.pc ∧
    (validateVoteMessage c s m).2.pve = s.pve ∧ (validateVoteMessage c s m).2.pce = s.pce := by
  have hnp : ¬ Passes c m := by
    rintro ⟨h1, h2, h3, h4, h5, hv⟩
    obtain ⟨hk, hf, hn⟩ := validateVote_none hv
    rcases h with h | h | h | h | h | h | h | ⟨hs, h⟩
    · rw [h1] at h; cases h
    · exact h h4
    · simp only at hk; omega
    · exact h hf
    · exact h h2
    · exact h h3
    · exact h5 h
    · exact h (hn hs)
  have := vvm_reject s hnp
  simp only [St.tallies, Prod.mk.injEq] at this
  exact ⟨this.1, this.2.1, this.2.2.1, this.2.2.2.1, this.2.2.2.2⟩

def wnCfg : Cfg := ⟨[0, 1, 2, 3], 9, 0, ⟨[0, 0, 1]⟩, 0, .none, 1, 0, false⟩
def wnMsg (key num : Nat) : Msg := ⟨0, key, 2, num, true, 1, 0⟩

/-- the full statement fails for the wrong block number: a correctly signed prevote of an authority for block 2
(number 2) that says number 7 is accepted, stored and counted; together with two honest votes the pre-voted
block becomes `2` with number 2 or 7 depending on the iteration order -/
theorem C21_filter_counterexample :
    (validateVoteMessage wnCfg {} (wnMsg 2 7)).1 = none ∧
    (run wnCfg [.msg (wnMsg 1 2), .msg (wnMsg 2 7), .msg (wnMsg 3 2)]).pv =
      [(1, ⟨2, 2⟩), (2, ⟨2, 7⟩), (3, ⟨2, 2⟩)] ∧
    pvTotal wnCfg (run wnCfg [.msg (wnMsg 1 2), .msg (wnMsg 2 7), .msg (wnMsg 3 2)]) 2 = 3 ∧
    (getPreVotedBlock wnCfg (fun _ => Perms.id)
      (run wnCfg [.msg (wnMsg 1 2), .msg (wnMsg 2 7), .msg (wnMsg 3 2)])).toOption = some ⟨2, 7⟩ ∧
    (getPreVotedBlock wnCfg (fun _ => ⟨List.reverse, List.reverse, List.reverse⟩)
      (run wnCfg [.msg (wnMsg 1 2), .msg (wnMsg 2 7), .msg (wnMsg 3 2)])).toOption = some ⟨2, 2⟩ ∧
    (validateVoteMessage { wnCfg with strict := true } {} (wnMsg 2 7)).1 = some .num := by
  decide

/-! ### the reachable states -/

/-- the Service votes for blocks it knows on the chain of its finalised head -/
def OpOK (c : Cfg) : Op → Prop
  | .msg _ => True
  | .own _ b => b < c.t.size ∧ c.fin ∈ c.t.chain b

/-- the message carries the number of its block (what the corrected check enforces) -/
def NumOK (c : Cfg) : Op → Prop
  | .msg m => m.num = c.number m.blk
  | .own _ _ => True

theorem mem_adel {α : Type} {l : List (Nat × α)} {k : Nat} {p : Nat × α} (h : p ∈ adel l k) : p ∈ l :=
  (List.mem_filter.1 h).1

theorem step_good {c : Cfg} {s : St} {op : Op} (hop : OpOK c op) (hnum : c.strict = true ∨ NumOK c op)
    (h : GoodVotes c s.pv ∧ GoodVotes c s.pc) :
    GoodVotes c (step c s op).pv ∧ GoodVotes c (step c s op).pc := by
  cases op with
  | msg m =>
    have hv := vvm_votes (c := c) s m
    have hgood : Passes c m → (⟨m.blk, m.num⟩ : Vote).blk < c.t.size ∧ c.fin ∈ c.t.chain m.blk ∧
        m.num = c.number m.blk := by
      rintro ⟨_, _, _, _, _, hvv⟩
      obtain ⟨hk, hf, hn⟩ := validateVote_none hvv
      refine ⟨hk, hf, ?_⟩
      rcases hnum with hs | hn'
      · exact hn hs
      · exact hn'
    show GoodVotes c (validateVoteMessage c s m).2.pv ∧ GoodVotes c (validateVoteMessage c s m).2.pc
    refine ⟨?_, ?_⟩
    · rcases hv.1 with he | ⟨he, hp⟩ | he <;> rw [he]
      · exact h.1
      · intro kv hkv
        rcases mem_aset hkv with rfl | hkv
        · exact hgood hp
        · exact h.1 kv hkv
      · intro kv hkv; exact h.1 kv (mem_adel hkv)
    · rcases hv.2 with he | ⟨he, hp⟩ | he <;> rw [he]
      · exact h.2
      · intro kv hkv
        rcases mem_aset hkv with rfl | hkv
        · exact hgood hp
        · exact h.2 kv hkv
      · intro kv hkv; exact h.2 kv (mem_adel hkv)
  | own stage b =>
    obtain ⟨hb, hf⟩ := hop
    show GoodVotes c (ownVote c s stage b).pv ∧ GoodVotes c (ownVote c s stage b).pc
    unfold ownVote
    by_cases hst : stage = 0
    · rw [if_pos hst]
      refine ⟨?_, h.2⟩
      intro kv hkv
      rcases mem_aset hkv with rfl | hkv
      · exact ⟨hb, hf, rfl⟩
      · exact h.1 kv hkv
    · rw [if_neg hst]
      refine ⟨h.1, ?_⟩
      intro kv hkv
      rcases mem_aset hkv with rfl | hkv
      · exact ⟨hb, hf, rfl⟩
      · exact h.2 kv hkv

/-- **Invariant of all reachable states** (by induction over the history of vote messages and own votes): every
stored prevote and precommit names a block of the tree on the chain of the finalised head and carries that
block's number – provided the accepted messages do (always, with the corrected number check). -/
theorem C21_reachable_good (c : Cfg) (ops : List Op) (hop : ∀ op ∈ ops, OpOK c op)
    (hnum : c.strict = true ∨ ∀ op ∈ ops, NumOK c op) :
    GoodVotes c (run c ops).pv ∧ GoodVotes c (run c ops).pc := by
  have gen : ∀ (ops : List Op) (s : St), (∀ op ∈ ops, OpOK c op) →
      (c.strict = true ∨ ∀ op ∈ ops, NumOK c op) → GoodVotes c s.pv ∧ GoodVotes c s.pc →
      GoodVotes c (ops.foldl (step c) s).pv ∧ GoodVotes c (ops.foldl (step c) s).pc := by
    intro ops
    induction ops with
    | nil => intro s _ _ h; exact h
    | cons op rest ih =>
      intro s hop hnum h
      rw [List.foldl_cons]
      apply ih
      · exact fun op' h' => hop op' (List.mem_cons_of_mem _ h')
      · rcases hnum with hs | hn
        · exact Or.inl hs
        · exact Or.inr (fun op' h' => hn op' (List.mem_cons_of_mem _ h'))
      · apply step_good (hop op List.mem_cons_self) _ h
        rcases hnum with hs | hn
        · exact Or.inl hs
        · exact Or.inr (hn op List.mem_cons_self)
  exact gen ops {} hop hnum ⟨fun kv h => (by cases h), fun kv h => (by cases h)⟩

/-! ### finalisation -/

/-- no precommit-supermajority block is selected although one exists only when there is no precommit at all
(every block then has the weight of the equivocators) -/
theorem cands_nil_super {c : Cfg} {s : St} {b : Nat} (hb : b < c.t.size) (hs : thr c.n < pcTotal c s b)
    (hn : cands c s.pc s.pce.length (thr c.n) = []) : s.pc = [] := by
  unfold cands at hn
  by_cases hd : dirSel c s.pc s.pce.length (thr c.n) = []
  · simp only [hd, List.isEmpty_nil, Bool.not_true, Bool.false_eq_true, if_false] at hn
    by_cases hv : s.pc.isEmpty = true
    · exact List.isEmpty_iff.1 hv
    · simp only [hv] at hn
      have : b ∈ superBlocks c s.pc s.pce.length (thr c.n) :=
        mem_superBlocks.2 ⟨hb, by rw [← (C21_total_eq_weight c s b).2]; exact hs⟩
      simp only [Bool.false_eq_true, if_false] at hn
      rw [hn] at this
      cases this
  · have hde : (!(dirSel c s.pc s.pce.length (thr c.n)).isEmpty) = true := by
      cases hh : dirSel c s.pc s.pce.length (thr c.n) with
      | nil => exact absurd hh hd
      | cons _ _ => rfl
    simp only [hde, if_true] at hn
    exact absurd hn hd

/-- **Finalisation is sound, for every iteration order.**  If `attemptToFinalize` finalises block `X`
(`SetFinalisedHash(X, round, set)`), then `X` is a block of the tree with more than two thirds of the precommits
(votes for descendants and equivocators counted) and `X` is the pre-voted block or one of its ancestors – the
pre-voted block being the one `finalise` computed when it chose `X`. -/
theorem C21_finalise_sound {c : Cfg} (hw : c.t.WF) {s : St} (hgv : GoodVotes c s.pv) (hgc : GoodVotes c s.pc)
    {o : Ord} (ho : o.Valid) {X : Nat} (h : attemptToFinalize c o s = .ok (.yes X)) :
    X < c.t.size ∧ thr c.n < pcTotal c s X ∧
      ∃ p, getPreVotedBlock c ((o.sub 1).sub 0) s = .ok p ∧ X ∈ c.t.chain p.blk := by
  unfold attemptToFinalize at h
  cases h1 : getBestFinalCandidate c (o.sub 0) s with
  | error e => rw [h1] at h; simp [bind, Except.bind] at h
  | ok bfc1 =>
    rw [h1] at h
    simp only [bind, Except.bind] at h
    by_cases hbef : bfc1.num < c.headNum
    · simp [hbef] at h
    simp only [hbef, if_false] at h
    by_cases hcount : pcTotal c s bfc1.blk ≤ thr c.n
    · simp [hcount] at h
    simp only [hcount, if_false] at h
    cases h2 : getBestFinalCandidate c (o.sub 1) s with
    | error e => rw [h2] at h; simp at h
    | ok bfc2 =>
      rw [h2] at h
      simp only at h
      cases h3 : getPreVotedBlock c (o.sub 2) s with
      | error e => rw [h3] at h; simp at h
      | ok pv3 =>
        rw [h3] at h
        simp only at h
        by_cases hj : (justErr c bfc2.blk s.pv || justErr c bfc2.blk s.pc) = true
        · simp [hj] at h
        simp only [hj, Bool.false_eq_true, if_false] at h
        by_cases hsz : c.t.size ≤ bfc2.blk
        · simp [hsz] at h
        simp only [hsz, if_false] at h
        have hX : X = bfc2.blk := by
          cases h
          rfl
        subst hX
        obtain ⟨p2, hp2, hp2k, hcase⟩ := gbfc_spec hw hgv hgc (ho.sub 1) h2
        refine ⟨by omega, ?_, p2, hp2, ?_⟩
        · rcases hcase with ⟨hnil, hb⟩ | ⟨_, hgood⟩
          · -- finalise found no selected block: neither did retrieveBestFinalCandidate
            have r2 := selRel_of_char (psb_char hw hgc ((ho.sub 1).sub 1) s.pce.length (thr c.n))
            have hcn := r2.nil_iff.1 hnil
            obtain ⟨p1, _, hp1k, hcase1⟩ := gbfc_spec hw hgv hgc (ho.sub 0) h1
            have r1 := selRel_of_char (psb_char hw hgc ((ho.sub 0).sub 1) s.pce.length (thr c.n))
            rcases hcase1 with ⟨_, hb1⟩ | ⟨hne1, _⟩
            · rw [hb1] at hcount
              have hpc := cands_nil_super hp1k (by omega) hcn
              have e1 := (C21_total_eq_weight c s p1.blk).2
              have e2 := (C21_total_eq_weight c s bfc2.blk).2
              rw [hpc] at e1 e2
              simp only [cnt, List.countP_nil] at e1 e2
              omega
            · exact absurd (r1.nil_iff.2 hcn) hne1
          · exact hgood.sup
        · rcases hcase with ⟨_, hb⟩ | ⟨_, hgood⟩
          · rw [hb]; exact c.t.mem_chain_self _
          · exact hgood.anc

/-! ### reachable states: accounting, the precommit target over all histories, closed forms of the candidate -/

/-- **Accounting of all reachable states**: when the Service is one of the `n` authorities, the authorities with a
stored vote of a stage and the equivocators of that stage are distinct authorities, hence at most `n` together
(the hypothesis `hacc` of the GHOST theorems). -/
theorem C21_reachable_accounted (c : Cfg) (hme : c.me ∈ c.voters) (ops : List Op) :
    (run c ops).pv.length + (run c ops).pve.length ≤ c.n ∧
    (run c ops).pc.length + (run c ops).pce.length ≤ c.n :=
  ⟨(run_accounted c hme ops).1.length_le, (run_accounted c hme ops).2.length_le⟩

/-- **The precommit target over all histories** (partial, as `C21_precommit_target_partial`): after ANY sequence of
vote messages and own votes (messages carrying the numbers of their blocks), for ANY iteration orders, if at most one
third of the authorities equivocated in their prevotes and `G` is the GRANDPA-GHOST of the stored prevotes, then –
unless a directly voted block with a supermajority hides `G` – the Service precommits to `G` capped at the pending
authority change. -/
theorem C21_precommit_target_reachable_partial (c : Cfg) (hw : c.t.WF) (hme : c.me ∈ c.voters) (ops : List Op)
    (hop : ∀ op ∈ ops, OpOK c op) (hnum : c.strict = true ∨ ∀ op ∈ ops, NumOK c op) {o : Ord} (ho : o.Valid)
    (he : 3 * (run c ops).pve.length ≤ c.n) {G : Nat} (hgh : IsGhost c (run c ops) G)
    (hns : (∃ kv ∈ (run c ops).pv, kv.2.blk = G) ∨
      (∀ kv ∈ (run c ops).pv, pvTotal c (run c ops) kv.2.blk ≤ thr c.n)) :
    determinePreCommit c o (run c ops) = capVote c (c.voteOf G) :=
  (C21_precommit_target_partial hw (C21_reachable_good c ops hop hnum).1 ho
    (C21_reachable_accounted c hme ops).1 he hgh hns).2

/-- the hypotheses of the theorem above are satisfiable: four authorities, three prevote for block 2 and one for its
sibling; the GHOST is block 2 and the precommit goes to it -/
example :
    let c : Cfg := ⟨[0, 1, 2, 3], 0, 0, ⟨[0, 0, 1, 1]⟩, 0, .none, 1, 0, false⟩
    let ops : List Op := [.own 0 2, .msg ⟨0, 1, 2, 2, true, 1, 0⟩, .msg ⟨0, 2, 2, 2, true, 1, 0⟩,
      .msg ⟨0, 3, 3, 2, true, 1, 0⟩]
    (run c ops).pv = [(0, ⟨2, 2⟩), (1, ⟨2, 2⟩), (2, ⟨2, 2⟩), (3, ⟨3, 2⟩)] ∧ pvTotal c (run c ops) 2 = 3 ∧
    (determinePreCommit c (fun _ => Perms.id) (run c ops)).toOption = some ⟨2, 2⟩ := by
  decide

/-- **`getBestFinalCandidate` in closed form, for every iteration order**: with distinct precommitting authorities
and at most one third of them equivocating, the candidate is `bfcOf` of the pre-voted block – the deepest block on
the chain of the pre-voted block that is (an ancestor of) a candidate of the precommits, or the pre-voted block itself
when no block has a precommit supermajority selected. -/
theorem C21_bfc_closed_form {c : Cfg} (hw : c.t.WF) {s : St} (hgv : GoodVotes c s.pv) (hgc : GoodVotes c s.pc)
    {o : Ord} (ho : o.Valid) (hacc : s.pc.length + s.pce.length ≤ c.n) (he : 3 * s.pce.length ≤ c.n)
    {b : Vote} (h : getBestFinalCandidate c o s = .ok b) :
    ∃ p ∈ pvbSet c s, b = c.voteOf (bfcOf c s p) := by
  obtain ⟨p, _, hp, hb⟩ := gbfc_closed hw hgv hgc ho hacc he h
  exact ⟨p.blk, hp, hb⟩

/-- **`attemptToFinalize` in closed form, for every iteration order** (same hypotheses): the decision is taken on
`bfcOf p1` and the block finalised is `bfcOf p2` for two possible pre-voted blocks `p1`, `p2` (one block when the
closed form leaves no tie). -/
theorem C21_finalise_closed_form {c : Cfg} (hw : c.t.WF) {s : St} (hgv : GoodVotes c s.pv)
    (hgc : GoodVotes c s.pc) {o : Ord} (ho : o.Valid) (hacc : s.pc.length + s.pce.length ≤ c.n)
    (he : 3 * s.pce.length ≤ c.n) :
    (∀ X, attemptToFinalize c o s = .ok (.yes X) →
      ∃ p1 ∈ pvbSet c s, ∃ p2 ∈ pvbSet c s, thr c.n < pcTotal c s (bfcOf c s p1) ∧ X = bfcOf c s p2) ∧
    (attemptToFinalize c o s = .ok .no →
      ∃ p1 ∈ pvbSet c s, pcTotal c s (bfcOf c s p1) ≤ thr c.n) := by
  unfold attemptToFinalize
  cases h1 : getBestFinalCandidate c (o.sub 0) s with
  | error e => simp [bind, Except.bind]
  | ok bfc1 =>
    obtain ⟨p1, hp1, hb1⟩ := C21_bfc_closed_form hw hgv hgc (ho.sub 0) hacc he h1
    simp only [bind, Except.bind]
    by_cases hbef : bfc1.num < c.headNum
    · simp [hbef]
    simp only [hbef, if_false]
    by_cases hcount : pcTotal c s bfc1.blk ≤ thr c.n
    · simp only [hcount, if_true]
      refine ⟨fun X hX => (by cases hX), fun _ => ⟨p1, hp1, ?_⟩⟩
      rw [hb1] at hcount
      exact hcount
    simp only [hcount, if_false]
    cases h2 : getBestFinalCandidate c (o.sub 1) s with
    | error e => simp
    | ok bfc2 =>
      obtain ⟨p2, hp2, hb2⟩ := C21_bfc_closed_form hw hgv hgc (ho.sub 1) hacc he h2
      simp only
      cases h3 : getPreVotedBlock c (o.sub 2) s with
      | error e => simp
      | ok pv3 =>
        simp only
        by_cases hj : (justErr c bfc2.blk s.pv || justErr c bfc2.blk s.pc) = true
        · simp [hj]
        simp only [hj, Bool.false_eq_true, if_false]
        by_cases hsz : c.t.size ≤ bfc2.blk
        · simp [hsz]
        simp only [hsz, if_false]
        refine ⟨fun X hX => ?_, fun hno => (by cases hno)⟩
        cases hX
        refine ⟨p1, hp1, p2, hp2, ?_, by rw [hb2]; rfl⟩
        rw [hb1] at hcount
        simp only [Cfg.voteOf] at hcount
        omega

/-! ### histories with authority-set changes -/

/-- **A set change resets every per-set tally and installs the new voters**: after `initiateRound` the prevotes,
precommits and both equivocation maps are empty, the tree is untouched, and the voter list is the one the node's
state returned for the new set id (unchanged when the set id did not change). -/
theorem C21_set_change_resets (c : Cfg) (s : St) (i : Init) :
    (initiateRound c s i).2.pv = [] ∧ (initiateRound c s i).2.pc = [] ∧
    (initiateRound c s i).2.pve = [] ∧ (initiateRound c s i).2.pce = [] ∧
    (initiateRound c s i).1.fin = i.head ∧
    (i.cur ≠ c.set → (initiateRound c s i).1.voters = i.auths) ∧
    (i.cur = c.set → (initiateRound c s i).1.voters = c.voters) ∧
    (initiateRound c s i).1.t = c.t ∧ (initiateRound c s i).1.base = c.base ∧
    (initiateRound c s i).1.me = c.me ∧ (initiateRound c s i).1.strict = c.strict := by
  unfold initiateRound updateAuthorities
  by_cases h : i.cur = c.set <;> simp [h] <;> (repeat' split) <;> simp

/-- static parts of the configuration along a history -/
theorem runAll_static (c0 : Cfg) (evs : List Ev) :
    (runAll c0 evs).1.t = c0.t ∧ (runAll c0 evs).1.base = c0.base ∧ (runAll c0 evs).1.me = c0.me ∧
    (runAll c0 evs).1.strict = c0.strict := by
  have gen : ∀ (evs : List Ev) (cs : Cfg × St), (evs.foldl stepAll cs).1.t = cs.1.t ∧
      (evs.foldl stepAll cs).1.base = cs.1.base ∧ (evs.foldl stepAll cs).1.me = cs.1.me ∧
      (evs.foldl stepAll cs).1.strict = cs.1.strict := by
    intro evs
    induction evs with
    | nil => intro cs; exact ⟨rfl, rfl, rfl, rfl⟩
    | cons ev rest ih =>
      intro cs
      rw [List.foldl_cons]
      have h1 := ih (stepAll cs ev)
      have h2 : (stepAll cs ev).1.t = cs.1.t ∧ (stepAll cs ev).1.base = cs.1.base ∧
          (stepAll cs ev).1.me = cs.1.me ∧ (stepAll cs ev).1.strict = cs.1.strict := by
        cases ev with
        | msg m => exact ⟨rfl, rfl, rfl, rfl⟩
        | own stage b =>
          simp only [stepAll]
          split <;> exact ⟨rfl, rfl, rfl, rfl⟩
        | init i =>
          have := C21_set_change_resets cs.1 cs.2 i
          exact ⟨this.2.2.2.2.2.2.2.1, this.2.2.2.2.2.2.2.2.1, this.2.2.2.2.2.2.2.2.2.1,
            this.2.2.2.2.2.2.2.2.2.2⟩
      exact ⟨h1.1.trans h2.1, h1.2.1.trans h2.2.1, h1.2.2.1.trans h2.2.2.1, h1.2.2.2.trans h2.2.2.2⟩
  exact gen evs (c0, {})

/-- the message carries the number of its block -/
def EvNumOK (c : Cfg) : Ev → Prop
  | .msg m => m.num = c.number m.blk
  | _ => True

theorem number_congr {c c' : Cfg} (ht : c'.t = c.t) (hb : c'.base = c.base) (b : Nat) :
    c'.number b = c.number b := by
  simp [Cfg.number, ht, hb]

/-- **The filter over histories with authority-set changes.**  After ANY history of vote messages, own votes and
`initiateRound` calls (set changes with arbitrary new voter lists, re-orderings included), a message whose signer is
not an authority of the set the Service is in NOW, or that names another set id than the current one (stale or
future), or that is badly signed / for an unknown or off-chain block / from our own key, is answered with an error
and changes neither the four tallies nor the configuration. -/
theorem C21_filter_history (c0 : Cfg) (evs : List Ev) (m : Msg)
    (h : BadMsg (runAll c0 evs).1 m) :
    (validateVoteMessage (runAll c0 evs).1 (runAll c0 evs).2 m).1 ≠ none ∧
    (stepAll (runAll c0 evs) (.msg m)).1 = (runAll c0 evs).1 ∧
    (stepAll (runAll c0 evs) (.msg m)).2.pv = (runAll c0 evs).2.pv ∧
    (stepAll (runAll c0 evs) (.msg m)).2.pc = (runAll c0 evs).2.pc ∧
    (stepAll (runAll c0 evs) (.msg m)).2.pve = (runAll c0 evs).2.pve ∧
    (stepAll (runAll c0 evs) (.msg m)).2.pce = (runAll c0 evs).2.pce := by
  have := C21_filter_partial (runAll c0 evs).1 (runAll c0 evs).2 m h
  exact ⟨this.1, rfl, this.2.1, this.2.2.1, this.2.2.2.1, this.2.2.2.2⟩

/-- **Invariant of all reachable states, set changes included**: every stored vote names a block of the tree on the
chain of the CURRENT finalised head with that block's number. -/
theorem C21_history_good (c0 : Cfg) (evs : List Ev)
    (hnum : c0.strict = true ∨ ∀ ev ∈ evs, EvNumOK c0 ev) :
    GoodVotes (runAll c0 evs).1 (runAll c0 evs).2.pv ∧ GoodVotes (runAll c0 evs).1 (runAll c0 evs).2.pc := by
  have gen : ∀ (evs : List Ev) (cs : Cfg × St), cs.1.t = c0.t → cs.1.base = c0.base →
      cs.1.strict = c0.strict → (c0.strict = true ∨ ∀ ev ∈ evs, EvNumOK c0 ev) →
      GoodVotes cs.1 cs.2.pv ∧ GoodVotes cs.1 cs.2.pc →
      GoodVotes (evs.foldl stepAll cs).1 (evs.foldl stepAll cs).2.pv ∧
      GoodVotes (evs.foldl stepAll cs).1 (evs.foldl stepAll cs).2.pc := by
    intro evs
    induction evs with
    | nil => intro cs _ _ _ _ h; exact h
    | cons ev rest ih =>
      intro cs ht hb hs hnum h
      rw [List.foldl_cons]
      have hrest : c0.strict = true ∨ ∀ ev ∈ rest, EvNumOK c0 ev := by
        rcases hnum with h' | h'
        · exact Or.inl h'
        · exact Or.inr (fun e he => h' e (List.mem_cons_of_mem _ he))
      cases ev with
      | msg m =>
        apply ih (stepAll cs (.msg m)) ht hb hs hrest
        have hn : cs.1.strict = true ∨ NumOK cs.1 (.msg m) := by
          rcases hnum with h' | h'
          · exact Or.inl (hs.trans h')
          · right
            have := h' _ List.mem_cons_self
            simp only [EvNumOK] at this
            simp only [NumOK, number_congr ht hb]
            exact this
        exact step_good (op := .msg m) trivial hn h
      | own stage b =>
        simp only [stepAll]
        split
        · rename_i hc
          apply ih (cs.1, ownVote cs.1 cs.2 stage b) ht hb hs hrest
          exact step_good (op := .own stage b) ⟨hc.1, Tree.le_iff.1 hc.2⟩ (Or.inr trivial) h
        · exact ih _ ht hb hs hrest h
      | init i =>
        have hr := C21_set_change_resets cs.1 cs.2 i
        apply ih (stepAll cs (.init i)) (hr.2.2.2.2.2.2.2.1.trans ht) (hr.2.2.2.2.2.2.2.2.1.trans hb)
          (hr.2.2.2.2.2.2.2.2.2.2.trans hs) hrest
        show GoodVotes (initiateRound cs.1 cs.2 i).1 (initiateRound cs.1 cs.2 i).2.pv ∧
          GoodVotes (initiateRound cs.1 cs.2 i).1 (initiateRound cs.1 cs.2 i).2.pc
        rw [hr.1, hr.2.1]
        exact ⟨fun kv hkv => (by cases hkv), fun kv hkv => (by cases hkv)⟩
  exact gen evs (c0, {}) rfl rfl rfl hnum ⟨fun kv hkv => (by cases hkv), fun kv hkv => (by cases hkv)⟩

/-- the Service stays an authority through every set change of the history -/
def EvMeOK (me : Nat) : Ev → Prop
  | .init i => me ∈ i.auths
  | _ => True

/-- **Accounting over histories with set changes**: the authorities with a stored vote of a stage and the
equivocators of that stage are distinct authorities of the CURRENT set. -/
theorem C21_history_accounted (c0 : Cfg) (hme : c0.me ∈ c0.voters) (evs : List Ev)
    (hev : ∀ ev ∈ evs, EvMeOK c0.me ev) :
    (runAll c0 evs).2.pv.length + (runAll c0 evs).2.pve.length ≤ (runAll c0 evs).1.n ∧
    (runAll c0 evs).2.pc.length + (runAll c0 evs).2.pce.length ≤ (runAll c0 evs).1.n := by
  have h0 : ∀ vs me, AccInv vs me ([] : List (Nat × Vote)) ([] : List (Nat × Nat)) := fun vs me =>
    ⟨by simp [keys], by simp [keys], fun k hk => (by simp [keys] at hk), fun k hk => (by simp [keys] at hk),
      fun k hk => (by simp [keys] at hk)⟩
  have gen : ∀ (evs : List Ev) (cs : Cfg × St), cs.1.me = c0.me → cs.1.me ∈ cs.1.voters →
      (∀ ev ∈ evs, EvMeOK c0.me ev) →
      AccInv cs.1.voters cs.1.me cs.2.pv cs.2.pve ∧ AccInv cs.1.voters cs.1.me cs.2.pc cs.2.pce →
      AccInv (evs.foldl stepAll cs).1.voters (evs.foldl stepAll cs).1.me (evs.foldl stepAll cs).2.pv
        (evs.foldl stepAll cs).2.pve ∧
      AccInv (evs.foldl stepAll cs).1.voters (evs.foldl stepAll cs).1.me (evs.foldl stepAll cs).2.pc
        (evs.foldl stepAll cs).2.pce := by
    intro evs
    induction evs with
    | nil => intro cs _ _ _ h; exact h
    | cons ev rest ih =>
      intro cs hm hmv hev h
      rw [List.foldl_cons]
      have hrest := fun e he => hev e (List.mem_cons_of_mem _ he)
      cases ev with
      | msg m =>
        have hmv' := vvm_moves (c := cs.1) cs.2 m
        exact ih (stepAll cs (.msg m)) hm hmv hrest ⟨h.1.move hmv'.1, h.2.move hmv'.2⟩
      | own stage b =>
        simp only [stepAll]
        split
        · apply ih (cs.1, ownVote cs.1 cs.2 stage b) hm hmv hrest
          show AccInv cs.1.voters cs.1.me (ownVote cs.1 cs.2 stage b).pv (ownVote cs.1 cs.2 stage b).pve ∧
            AccInv cs.1.voters cs.1.me (ownVote cs.1 cs.2 stage b).pc (ownVote cs.1 cs.2 stage b).pce
          unfold ownVote
          by_cases hst : stage = 0
          · rw [if_pos hst]
            exact ⟨h.1.store _ hmv (fun hk => (h.1.be _ hk).2 rfl), h.2⟩
          · rw [if_neg hst]
            exact ⟨h.1, h.2.store _ hmv (fun hk => (h.2.be _ hk).2 rfl)⟩
        · exact ih _ hm hmv hrest h
      | init i =>
        have hr := C21_set_change_resets cs.1 cs.2 i
        have hi : c0.me ∈ i.auths := hev _ List.mem_cons_self
        have hme' : (initiateRound cs.1 cs.2 i).1.me = c0.me := hr.2.2.2.2.2.2.2.2.2.1.trans hm
        apply ih (stepAll cs (.init i)) hme' _ hrest
        · show AccInv (initiateRound cs.1 cs.2 i).1.voters (initiateRound cs.1 cs.2 i).1.me
            (initiateRound cs.1 cs.2 i).2.pv (initiateRound cs.1 cs.2 i).2.pve ∧
            AccInv (initiateRound cs.1 cs.2 i).1.voters (initiateRound cs.1 cs.2 i).1.me
            (initiateRound cs.1 cs.2 i).2.pc (initiateRound cs.1 cs.2 i).2.pce
          rw [hr.1, hr.2.1, hr.2.2.1, hr.2.2.2.1]
          exact ⟨h0 _ _, h0 _ _⟩
        · show (initiateRound cs.1 cs.2 i).1.me ∈ (initiateRound cs.1 cs.2 i).1.voters
          rw [hme']
          by_cases hc : i.cur = cs.1.set
          · rw [hr.2.2.2.2.2.2.1 hc, ← hm]; exact hmv
          · rw [hr.2.2.2.2.2.1 hc]; exact hi
  have := gen evs (c0, {}) rfl hme hev ⟨h0 _ _, h0 _ _⟩
  exact ⟨this.1.length_le, this.2.length_le⟩

/-- **The precommit target over all histories with set changes** (partial, as `C21_precommit_target_partial`) -/
theorem C21_precommit_target_history_partial (c0 : Cfg) (hw : c0.t.WF) (hme : c0.me ∈ c0.voters)
    (evs : List Ev) (hev : ∀ ev ∈ evs, EvMeOK c0.me ev)
    (hnum : c0.strict = true ∨ ∀ ev ∈ evs, EvNumOK c0 ev) {o : Ord} (ho : o.Valid)
    (he : 3 * (runAll c0 evs).2.pve.length ≤ (runAll c0 evs).1.n) {G : Nat}
    (hgh : IsGhost (runAll c0 evs).1 (runAll c0 evs).2 G)
    (hns : (∃ kv ∈ (runAll c0 evs).2.pv, kv.2.blk = G) ∨
      (∀ kv ∈ (runAll c0 evs).2.pv, pvTotal (runAll c0 evs).1 (runAll c0 evs).2 kv.2.blk ≤
        thr (runAll c0 evs).1.n)) :
    determinePreCommit (runAll c0 evs).1 o (runAll c0 evs).2 =
      capVote (runAll c0 evs).1 ((runAll c0 evs).1.voteOf G) := by
  have hw' : (runAll c0 evs).1.t.WF := by rw [(runAll_static c0 evs).1]; exact hw
  exact (C21_precommit_target_partial hw' (C21_history_good c0 evs hnum).1 ho
    (C21_history_accounted c0 hme evs hev).1 he hgh hns).2

def scCfg : Cfg := ⟨[0, 1, 2, 3], 0, 0, ⟨[0, 0, 1]⟩, 0, .none, 1, 0, false⟩
def scInit : Init := ⟨1, [5, 0, 1, 4], 0, 0, 1⟩
def scMsg (key mset : Nat) : Msg := ⟨0, key, 2, 2, true, 1, mset⟩

/-- a set change (set 0 → 1: authorities 2 and 3 leave, 4 and 5 join, the order changes, the head moves to
block 1): the old prevotes are gone; a removed authority's well-signed prevote for the new set is refused
(`ErrVoterNotFound`) and counted nowhere, a surviving authority's vote for the OLD set id is refused
(`ErrSetIDMismatch`), the new authority's vote is accepted -/
theorem C21_set_change_example :
    (runAll scCfg [.msg (scMsg 1 0), .msg (scMsg 2 0), .init scInit]).1.voters = [5, 0, 1, 4] ∧
    (runAll scCfg [.msg (scMsg 1 0), .msg (scMsg 2 0), .init scInit]).1.set = 1 ∧
    (runAll scCfg [.msg (scMsg 1 0), .msg (scMsg 2 0), .init scInit]).1.round = 1 ∧
    (runAll scCfg [.msg (scMsg 1 0), .msg (scMsg 2 0)]).2.pv = [(1, ⟨2, 2⟩), (2, ⟨2, 2⟩)] ∧
    (runAll scCfg [.msg (scMsg 1 0), .msg (scMsg 2 0), .init scInit]).2.pv = [] ∧
    (validateVoteMessage (runAll scCfg [.init scInit]).1 (runAll scCfg [.init scInit]).2 (scMsg 2 1)).1
      = some .voter ∧
    (validateVoteMessage (runAll scCfg [.init scInit]).1 (runAll scCfg [.init scInit]).2 (scMsg 1 0)).1
      = some .set ∧
    (runAll scCfg [.init scInit, .msg (scMsg 2 1), .msg (scMsg 1 0), .msg (scMsg 4 1)]).2.pv
      = [(4, ⟨2, 2⟩)] := by
  decide

end Gossamer.C21
