/-
C10 — the host trie-root functions compute spec roots.

* `C10_root`            decode ok → version ∈ {0,1} → result = `specRoot ver H (lastWins entries)`
                        (every input, every hash function `H`); `C10_last_wins` says what the map is;
* `C10_ordered_root`    the same with the entries `(compact(i), value_i)`; `C10_ordered_entries`:
                        that map has exactly the keys `compact(0) … compact(n-1)` with `value_i`
                        (all `n`, so across 64 and 16384 where the compact mode changes);
* `C10_bad_version`     2 ≤ v ≤ 255 → failure (both functions, every input);
* `C10_undecodable_partial`  input that the canonical decoder rejects → failure, outside the region
                        of the decoder finding `bytes-short-read` (`C10_undecodable_counterexample`
                        inside it);  FULL STATEMENT: `strictEntries data = none → hostRoot … = none`;
* `C10_root_of_encoding`, `C10_ordered_root_of_encoding`   for EVERY entry list / value list (sizes
                        below 2^32): the function applied to its SCALE encoding (plus any trailing
                        bytes) returns the spec root for version 0/1 and failure otherwise;
* `C10_refines_partial` the model of the four functions = the specification on every input outside
                        the short-read region (this is what the driver prints as model / spec).
-/
import Gossamer.Props.C01
import Gossamer.Props.C11
import Gossamer.Model.C10
set_option linter.unusedSectionVars false
set_option linter.unusedSimpArgs false
set_option linter.unusedVariables false
namespace Gossamer.C10
open Gossamer Gossamer.Trie Gossamer.Scale

/-! ### the Go decoder against the strict decoder -/

/-- `g` (Go, with zero-fill flag) refines `s` (strict): same result when nothing was zero-filled,
    and whenever Go fails or zero-fills, strict decoding fails -/
def Agree {α : Type} (g : Bytes → Dec α) (s : Bytes → Option (α × Bytes)) : Prop :=
  ∀ bs, match g bs with
    | none => s bs = none
    | some (x, r, false) => s bs = some (x, r)
    | some (_, _, true) => s bs = none

theorem agree_bytes : Agree decBytesGo decBytesStrict := by
  intro bs
  simp only [decBytesGo, decBytesStrict]
  cases h : C11.decodeUintV bs with
  | none => simp
  | some p =>
    obtain ⟨len, r⟩ := p
    simp only
    by_cases h1 : len > 4294967295
    · simp [h1]
    · simp only [h1, if_false]
      by_cases h0 : len = 0
      · subst h0; simp
      · simp only [h0, if_false]
        cases r with
        | nil =>
          have : ([] : Bytes).length < len := by simp; omega
          simp [this, h0]
        | cons x xs =>
          simp only [List.isEmpty_cons, Bool.false_eq_true, if_false, List.length_cons]
          by_cases hl : xs.length + 1 < len
          · simp [hl]
          · simp only [hl, decide_false, if_false]
            have : len - (xs.length + 1) = 0 := by omega
            simp [this]

theorem agree_entry : Agree decEntryGo decEntryStrict := by
  intro bs
  have h1 := agree_bytes bs
  simp only [decEntryGo, decEntryStrict]
  cases hg : decBytesGo bs with
  | none => rw [hg] at h1; simp [h1]
  | some p =>
    obtain ⟨k, r, z1⟩ := p
    rw [hg] at h1
    cases z1 with
    | true =>
      simp only at h1
      simp only [h1]
      cases decBytesGo r with
      | none => simp
      | some q => obtain ⟨v, r', z2⟩ := q; simp
    | false =>
      simp only at h1
      simp only [h1]
      have h2 := agree_bytes r
      cases hg2 : decBytesGo r with
      | none => rw [hg2] at h2; simp [h2]
      | some p2 =>
        obtain ⟨v, r', z2⟩ := p2
        rw [hg2] at h2
        cases z2 <;> simp only at h2 <;> simp [h2]

theorem agree_seq {α : Type} {g : Bytes → Dec α} {s : Bytes → Option (α × Bytes)} (h : Agree g s)
    (n : Nat) : Agree (decSeqGo g n) (decSeqStrict s n) := by
  induction n with
  | zero => intro bs; simp [decSeqGo, decSeqStrict]
  | succ n ih =>
    intro bs
    have h1 := h bs
    simp only [decSeqGo, decSeqStrict]
    cases hg : g bs with
    | none => rw [hg] at h1; simp [h1]
    | some p =>
      obtain ⟨x, r, z1⟩ := p
      rw [hg] at h1
      cases z1 with
      | true =>
        simp only at h1
        simp only [h1]
        cases decSeqGo g n r with
        | none => simp
        | some q => obtain ⟨xs, r', z2⟩ := q; simp
      | false =>
        simp only at h1
        simp only [h1]
        have h2 := ih r
        cases hg2 : decSeqGo g n r with
        | none => rw [hg2] at h2; simp [h2]
        | some q =>
          obtain ⟨xs, r', z2⟩ := q
          rw [hg2] at h2
          cases z2 <;> simp only at h2 <;> simp [h2]

theorem agree_slice {α : Type} {g : Bytes → Dec α} {s : Bytes → Option (α × Bytes)} (h : Agree g s) :
    Agree (decSliceGo g) (decSliceStrict s) := by
  intro bs
  simp only [decSliceGo, decSliceStrict]
  cases C11.decodeUintV bs with
  | none => simp
  | some p => obtain ⟨l, r⟩ := p; exact agree_seq h l r

/-- the two decoders of the entry list: equal unless Go zero-fills, and then strict fails -/
theorem entries_agree (data : Bytes) :
    match unmarshalEntries data with
    | none => strictEntries data = none
    | some (es, false) => strictEntries data = some es
    | some (_, true) => strictEntries data = none := by
  have h := agree_slice agree_entry data
  simp only [unmarshalEntries, strictEntries]
  cases hg : decSliceGo decEntryGo data with
  | none => rw [hg] at h; simp [h]
  | some p =>
    obtain ⟨es, r, z⟩ := p
    rw [hg] at h
    cases z <;> simp only at h <;> simp [h]

theorem values_agree (data : Bytes) :
    match unmarshalValues data with
    | none => strictValues data = none
    | some (vs, false) => strictValues data = some vs
    | some (_, true) => strictValues data = none := by
  have h := agree_slice agree_bytes data
  simp only [unmarshalValues, strictValues]
  cases hg : decSliceGo decBytesGo data with
  | none => rw [hg] at h; simp [h]
  | some p =>
    obtain ⟨vs, r, z⟩ := p
    rw [hg] at h
    cases z <;> simp only at h <;> simp [h]

/-! ### version -/

/-- **C10_bad_version**: every version byte other than 0 and 1 is a failure, whatever the input -/
theorem C10_bad_version (H : Bytes → Bytes) (version : Nat) (data : Bytes)
    (h2 : 2 ≤ version) (h255 : version ≤ 255) :
    hostRoot H version data = none ∧ hostOrderedRoot H version data = none := by
  have hp : parseVersion version = none := by
    simp only [parseVersion, Nat.mod_eq_of_lt (by omega : version < 256)]
    rw [if_neg (by omega), if_neg (by omega)]
  simp [hostRoot, hostOrderedRoot, hp]

theorem parseVersion_some {version : Nat} {ver : Ver} (h : parseVersion version = some ver) :
    (version % 256 = 0 ∧ ver = Ver.v0) ∨ (version % 256 = 1 ∧ ver = Ver.v1) := by
  simp only [parseVersion] at h
  split at h
  · left; exact ⟨by assumption, by cases h; rfl⟩
  · split at h
    · right; exact ⟨by assumption, by cases h; rfl⟩
    · cases h

/-! ### the root of the decoded entries -/

theorem lastWins_eq (kvs : List (Bytes × Bytes)) : lastWins kvs = C01.upsertAll [] kvs := rfl

/-- **C10_root**: whenever the input decodes and the version is 0 or 1, the function returns the
    spec root, for that version, of the map in which a later duplicate key wins. -/
theorem C10_root (H : Bytes → Bytes) (version : Nat) (data : Bytes) (ver : Ver)
    (es : List (Bytes × Bytes)) (z : Bool) (hv : parseVersion version = some ver)
    (hd : unmarshalEntries data = some (es, z)) :
    hostRoot H version data = some (specRoot ver H (lastWins es)) := by
  simp only [hostRoot, hv, hd, C01.C01_layoutRoot, lastWins_eq]

/-- the `_version_1` function is the version-0 root -/
theorem C10_root_v1 (H : Bytes → Bytes) (data : Bytes) (es : List (Bytes × Bytes)) (z : Bool)
    (hd : unmarshalEntries data = some (es, z)) :
    hostRoot1 H data = some (specRoot Ver.v0 H (lastWins es)) :=
  C10_root H 0 data Ver.v0 es z rfl hd

theorem get_foldl_upsert (kvs : List (Bytes × Bytes)) (es : Entries) (k : Bytes) :
    OMap.get k (kvs.foldl (fun es e => OMap.upsert e.1 e.2 es) es) =
      match kvs.reverse.find? (fun e => e.1 == k) with
      | some e => some e.2
      | none => OMap.get k es := by
  induction kvs generalizing es with
  | nil => rfl
  | cons e r ih =>
    simp only [List.foldl_cons, ih, List.reverse_cons, List.find?_append]
    cases hr : r.reverse.find? (fun e => e.1 == k) with
    | some x => simp
    | none =>
      simp only [Option.none_or, List.find?_cons, List.find?_nil, OMap.get_upsert]
      by_cases hk : e.1 = k
      · simp [hk]
      · have : ¬ k = e.1 := fun h => hk h.symm
        have hb : (e.1 == k) = false := beq_eq_false_iff_ne.mpr hk
        simp [hk, this, hb]

/-- **C10_last_wins**: the map `lastWins` gives every key the value of its LAST occurrence in the
    list, and no other key is present -/
theorem C10_last_wins (kvs : List (Bytes × Bytes)) (k : Bytes) :
    OMap.get k (lastWins kvs) = (kvs.reverse.find? (fun e => e.1 == k)).map (·.2) := by
  rw [lastWins, get_foldl_upsert]
  cases kvs.reverse.find? (fun e => e.1 == k) <;> simp [OMap.get]

theorem sorted_lastWins (kvs : List (Bytes × Bytes)) : OMap.Sorted (lastWins kvs) :=
  (C01.rep_putAll kvs Rep.empty).sorted

/-! ### compact-encoded indices -/

theorem compactNat_eq (n : Nat) : compactNat n = compactEnc n := by
  unfold compactNat compactEnc
  rw [show (2:Nat) ^ 14 = 16384 by decide, show (2:Nat) ^ 30 = 1073741824 by decide]
  simp only [Nat.mul_comm n 4, Nat.mul_comm ((leMin n).length - 4) 4]

theorem compactNat_inj {a b : Nat} (ha : a < 256 ^ 67) (hb : b < 256 ^ 67)
    (h : compactNat a = compactNat b) : a = b := by
  rw [compactNat_eq, compactNat_eq] at h
  have h1 := compactDec_enc a ha []
  have h2 := compactDec_enc b hb []
  rw [h, h2] at h1
  cases h1; rfl

theorem indexed_eq (vs : List Bytes) : ∀ i, i + vs.length ≤ 256 ^ 67 → indexed i vs = indexedSpec i vs := by
  induction vs with
  | nil => intro i _; rfl
  | cons v r ih =>
    intro i h
    simp only [List.length_cons] at h
    simp only [indexed, indexedSpec]
    rw [C11.C11_encodeBigInt_canonical i (by omega), ← compactNat_eq, ih (i + 1) (by omega)]

theorem decodeUintV_lt {bs : Bytes} {l : Nat} {r : Bytes} (h : C11.decodeUintV bs = some (l, r)) :
    l < 18446744073709551616 := by
  rw [C11.decodeUint_spec] at h
  unfold C11.filt at h
  split at h
  · rename_i n r' _
    split at h
    · rename_i hok
      cases h
      simp only [C11.uintOk, Bool.or_eq_true, Bool.and_eq_true, decide_eq_true_eq] at hok
      omega
    · cases h
  · cases h

theorem decSeqGo_length {α : Type} (dec : Bytes → Dec α) : ∀ (n : Nat) (bs : Bytes) (xs : List α)
    (r : Bytes) (z : Bool), decSeqGo dec n bs = some (xs, r, z) → xs.length = n := by
  intro n
  induction n with
  | zero => intro bs xs r z h; simp [decSeqGo] at h; simp [h.1]
  | succ n ih =>
    intro bs xs r z h
    simp only [decSeqGo] at h
    split at h
    · cases h
    · rename_i x r1 z1 _
      split at h
      · cases h
      · rename_i xs' r' z2 hrec
        cases h
        simp [ih _ _ _ _ hrec]

theorem unmarshalValues_length {data : Bytes} {vs : List Bytes} {z : Bool}
    (h : unmarshalValues data = some (vs, z)) : vs.length < 18446744073709551616 := by
  simp only [unmarshalValues, decSliceGo] at h
  cases hu : C11.decodeUintV data with
  | none => simp [hu] at h
  | some p =>
    obtain ⟨l, r⟩ := p
    simp only [hu] at h
    cases hs : decSeqGo decBytesGo l r with
    | none => simp [hs] at h
    | some q =>
      obtain ⟨xs, r', z'⟩ := q
      simp only [hs, Option.map_some, Option.some.injEq, Prod.mk.injEq] at h
      have := decSeqGo_length decBytesGo l r xs r' z' hs
      have := decodeUintV_lt hu
      rw [← h.1]; omega

theorem pow_bound : (18446744073709551616 : Nat) ≤ 256 ^ 67 := by decide

/-- **C10_ordered_root**: whenever the input decodes to the values `v_0 … v_{n-1}` and the version
    is 0 or 1, the function returns the spec root of the map `{compact(i) ↦ v_i}`. -/
theorem C10_ordered_root (H : Bytes → Bytes) (version : Nat) (data : Bytes) (ver : Ver)
    (vs : List Bytes) (z : Bool) (hv : parseVersion version = some ver)
    (hd : unmarshalValues data = some (vs, z)) :
    hostOrderedRoot H version data = some (specRoot ver H (lastWins (indexedSpec 0 vs))) := by
  have hl := unmarshalValues_length hd
  have hb := pow_bound
  simp only [hostOrderedRoot, hv, hd, C01.C01_layoutRoot, lastWins_eq,
    indexed_eq vs 0 (by omega)]

theorem indexedSpec_keys (vs : List Bytes) : ∀ (i : Nat) (e : Bytes × Bytes), e ∈ indexedSpec i vs →
    ∃ j, i ≤ j ∧ j < i + vs.length ∧ e.1 = compactNat j := by
  induction vs with
  | nil => intro i e h; simp [indexedSpec] at h
  | cons v r ih =>
    intro i e h
    simp only [indexedSpec, List.mem_cons] at h
    rcases h with h | h
    · exact ⟨i, Nat.le_refl _, by simp, by rw [h]⟩
    · obtain ⟨j, h1, h2, h3⟩ := ih (i + 1) e h
      exact ⟨j, by omega, by simp only [List.length_cons]; omega, h3⟩

theorem get_indexedSpec (vs : List Bytes) : ∀ (i : Nat) (es : Entries) (j : Nat), i ≤ j →
    j < i + vs.length → i + vs.length ≤ 256 ^ 67 →
    OMap.get (compactNat j) ((indexedSpec i vs).foldl (fun es e => OMap.upsert e.1 e.2 es) es) =
      vs[j - i]? := by
  induction vs with
  | nil => intro i es j h1 h2; simp at h2; omega
  | cons v r ih =>
    intro i es j h1 h2 hb
    simp only [List.length_cons] at h2 hb
    simp only [indexedSpec, List.foldl_cons]
    by_cases hj : j = i
    · subst hj
      rw [get_foldl_upsert]
      have hnone : (indexedSpec (j + 1) r).reverse.find? (fun e => e.1 == compactNat j) = none := by
        rw [List.find?_eq_none]
        intro e he
        obtain ⟨j', hj1, hj2, hj3⟩ := indexedSpec_keys r (j + 1) e (List.mem_reverse.mp he)
        simp only [beq_iff_eq, hj3]
        intro hc
        have := compactNat_inj (by omega) (by omega) hc
        omega
      rw [hnone]
      simp [OMap.get_upsert]
    · rw [ih (i + 1) _ j (by omega) (by omega) (by omega)]
      rw [show j - i = (j - (i + 1)) + 1 by omega, List.getElem?_cons_succ]

/-- **C10_ordered_entries**: the map of the ordered root has, for every index `i < n`, the key
    `compact(i)` (one, two, four or more bytes: all `n`, across 64 and 16384) with the value `v_i` -/
theorem C10_ordered_entries (vs : List Bytes) (hb : vs.length ≤ 256 ^ 67) (i : Nat) (hi : i < vs.length) :
    OMap.get (compactNat i) (lastWins (indexedSpec 0 vs)) = some vs[i] := by
  rw [lastWins, get_indexedSpec vs 0 [] i (Nat.zero_le _) (by omega) (by omega)]
  simp [hi]

/-- and nothing else: every key of that map is `compact(i)` for some `i < n` -/
theorem C10_ordered_keys (vs : List Bytes) (k : Bytes) (v : Bytes)
    (h : OMap.get k (lastWins (indexedSpec 0 vs)) = some v) : ∃ i, i < vs.length ∧ k = compactNat i := by
  rw [C10_last_wins] at h
  cases hf : (indexedSpec 0 vs).reverse.find? (fun e => e.1 == k) with
  | none => simp [hf] at h
  | some e =>
    have hm := List.mem_of_find?_eq_some hf
    have hk := List.find?_some hf
    obtain ⟨j, _, hj, hj3⟩ := indexedSpec_keys vs 0 e (List.mem_reverse.mp hm)
    exact ⟨j, by omega, by rw [← hj3]; exact (beq_iff_eq.mp hk).symm⟩

/-! ### undecodable input -/

/-- **C10_undecodable** — FULL STATEMENT (false for the code): `strictEntries data = none →
    hostRoot H version data = none`.  Proved for every input on which the Go decoder does not
    zero-fill a truncated byte string (`shortRead … = false`), every version. -/
theorem C10_undecodable_partial (H : Bytes → Bytes) (version : Nat) (data : Bytes)
    (hs : strictEntries data = none) (hz : shortRead Fn.root2 data = false) :
    hostRoot H version data = none := by
  have h := entries_agree data
  simp only [shortRead] at hz
  simp only [hostRoot]
  cases parseVersion version with
  | none => rfl
  | some ver =>
    cases hu : unmarshalEntries data with
    | none => rfl
    | some p =>
      obtain ⟨es, z⟩ := p
      rw [hu] at h hz
      simp only at hz
      subst hz
      simp only at h
      rw [hs] at h; cases h

theorem C10_ordered_undecodable_partial (H : Bytes → Bytes) (version : Nat) (data : Bytes)
    (hs : strictValues data = none) (hz : shortRead Fn.oroot2 data = false) :
    hostOrderedRoot H version data = none := by
  have h := values_agree data
  simp only [shortRead] at hz
  simp only [hostOrderedRoot]
  cases parseVersion version with
  | none => rfl
  | some ver =>
    cases hu : unmarshalValues data with
    | none => rfl
    | some p =>
      obtain ⟨vs, z⟩ := p
      rw [hu] at h hz
      simp only at hz
      subst hz
      simp only at h
      rw [hs] at h; cases h

/-- inside the region: `04 00 14 aa` — one entry, empty key, a value of declared length 5 with one
    byte present — is not decodable, yet a root (of the value `aa 00 00 00 00`) comes back -/
theorem C10_undecodable_counterexample :
    ∃ d1 d2 : Bytes, strictEntries d1 = none ∧ strictValues d2 = none ∧
      ∀ H : Bytes → Bytes, (hostRoot H 0 d1).isSome = true ∧ (hostOrderedRoot H 1 d2).isSome = true := by
  refine ⟨[0x04, 0x00, 0x14, 0xaa], [0x04, 0x14, 0xaa], by decide, by decide, fun H => ?_⟩
  have h1 : unmarshalEntries [0x04, 0x00, 0x14, 0xaa] = some ([([], [0xaa, 0, 0, 0, 0])], true) := by
    decide
  have h2 : unmarshalValues [0x04, 0x14, 0xaa] = some ([[0xaa, 0, 0, 0, 0]], true) := by decide
  constructor
  · simp [hostRoot, parseVersion, h1]
  · simp [hostOrderedRoot, parseVersion, h2]

/-! ### every entry list: decoding its encoding -/

theorem decodeUintV_compactNat (n : Nat) (hn : n < 4294967296) (r : Bytes) :
    C11.decodeUintV (compactNat n ++ r) = some (n, r) := by
  rw [compactNat_eq, C11.decodeUint_spec, compactDec_enc n (by
    have := pow_bound; omega) r]
  have : C11.uintOk n = true := by simp [C11.uintOk, hn]
  simp [C11.filt, this]

theorem decBytesStrict_scaleBytes (b : Bytes) (hb : b.length < 4294967296) (r : Bytes) :
    decBytesStrict (scaleBytes b ++ r) = some (b, r) := by
  simp only [decBytesStrict, scaleBytes, List.append_assoc, decodeUintV_compactNat _ hb]
  rw [if_neg (by omega), if_neg (by simp)]
  simp

/-- sizes a 32-bit guest can produce -/
def EntriesOk (es : List (Bytes × Bytes)) : Prop :=
  es.length < 4294967296 ∧ ∀ e ∈ es, e.1.length < 4294967296 ∧ e.2.length < 4294967296

def ValuesOk (vs : List Bytes) : Prop :=
  vs.length < 4294967296 ∧ ∀ v ∈ vs, v.length < 4294967296

theorem decSeqStrict_entries (es : List (Bytes × Bytes))
    (h : ∀ e ∈ es, e.1.length < 4294967296 ∧ e.2.length < 4294967296) (r : Bytes) :
    decSeqStrict decEntryStrict es.length (es.flatMap (fun e => scaleBytes e.1 ++ scaleBytes e.2) ++ r)
      = some (es, r) := by
  induction es with
  | nil => simp [decSeqStrict]
  | cons e t ih =>
    have he := h e (by simp)
    simp only [List.length_cons, decSeqStrict, List.flatMap_cons, List.append_assoc, decEntryStrict,
      decBytesStrict_scaleBytes _ he.1, decBytesStrict_scaleBytes _ he.2]
    rw [ih (fun x hx => h x (by simp [hx]))]

theorem decSeqStrict_values (vs : List Bytes) (h : ∀ v ∈ vs, v.length < 4294967296) (r : Bytes) :
    decSeqStrict decBytesStrict vs.length (vs.flatMap scaleBytes ++ r) = some (vs, r) := by
  induction vs with
  | nil => simp [decSeqStrict]
  | cons v t ih =>
    simp only [List.length_cons, decSeqStrict, List.flatMap_cons, List.append_assoc,
      decBytesStrict_scaleBytes _ (h v (by simp))]
    rw [ih (fun x hx => h x (by simp [hx]))]

/-- the canonical decoder inverts the encoder (trailing bytes are left over) -/
theorem strictEntries_enc (es : List (Bytes × Bytes)) (h : EntriesOk es) (r : Bytes) :
    strictEntries (encEntries es ++ r) = some es := by
  simp only [strictEntries, decSliceStrict, encEntries, List.append_assoc,
    decodeUintV_compactNat _ h.1, decSeqStrict_entries es h.2 r, Option.map_some]

theorem strictValues_enc (vs : List Bytes) (h : ValuesOk vs) (r : Bytes) :
    strictValues (encValues vs ++ r) = some vs := by
  simp only [strictValues, decSliceStrict, encValues, List.append_assoc,
    decodeUintV_compactNat _ h.1, decSeqStrict_values vs h.2 r, Option.map_some]

/-- … and so does the Go decoder, without zero-filling -/
theorem unmarshalEntries_enc (es : List (Bytes × Bytes)) (h : EntriesOk es) (r : Bytes) :
    unmarshalEntries (encEntries es ++ r) = some (es, false) := by
  have ha := entries_agree (encEntries es ++ r)
  rw [strictEntries_enc es h r] at ha
  cases hu : unmarshalEntries (encEntries es ++ r) with
  | none => rw [hu] at ha; cases ha
  | some p =>
    obtain ⟨es', z⟩ := p
    rw [hu] at ha
    cases z with
    | true => cases ha
    | false => simp only [Option.some.injEq] at ha; rw [ha]

theorem unmarshalValues_enc (vs : List Bytes) (h : ValuesOk vs) (r : Bytes) :
    unmarshalValues (encValues vs ++ r) = some (vs, false) := by
  have ha := values_agree (encValues vs ++ r)
  rw [strictValues_enc vs h r] at ha
  cases hu : unmarshalValues (encValues vs ++ r) with
  | none => rw [hu] at ha; cases ha
  | some p =>
    obtain ⟨vs', z⟩ := p
    rw [hu] at ha
    cases z with
    | true => cases ha
    | false => simp only [Option.some.injEq] at ha; rw [ha]

/-- **C10_root_of_encoding**: for EVERY entry list (duplicates, empty keys and values, any number
    of entries below 2^32), every version and every trailing garbage: the function applied to the
    SCALE encoding of the list returns the spec root of the last-wins map for version 0 / 1 (as a
    byte) and failure for every other version. -/
theorem C10_root_of_encoding (H : Bytes → Bytes) (version : Nat) (es : List (Bytes × Bytes))
    (h : EntriesOk es) (r : Bytes) :
    hostRoot H version (encEntries es ++ r) =
      (parseVersion version).map (fun ver => specRoot ver H (lastWins es)) := by
  cases hv : parseVersion version with
  | none => simp [hostRoot, hv]
  | some ver => rw [C10_root H version _ ver es false hv (unmarshalEntries_enc es h r)]; rfl

/-- **C10_ordered_root_of_encoding**: for EVERY list of values the ordered-root function applied to
    its encoding returns the spec root of `{compact(i) ↦ v_i}`. -/
theorem C10_ordered_root_of_encoding (H : Bytes → Bytes) (version : Nat) (vs : List Bytes)
    (h : ValuesOk vs) (r : Bytes) :
    hostOrderedRoot H version (encValues vs ++ r) =
      (parseVersion version).map (fun ver => specRoot ver H (lastWins (indexedSpec 0 vs))) := by
  cases hv : parseVersion version with
  | none => simp [hostOrderedRoot, hv]
  | some ver => rw [C10_ordered_root H version _ ver vs false hv (unmarshalValues_enc vs h r)]; rfl

/-- non-vacuity: a list with a duplicate key, an empty key, an empty value and a 33-byte value -/
example : EntriesOk [([0x10], [1]), ([0x10, 0x01], []), ([], List.replicate 33 7), ([0x10], [2])] := by
  refine ⟨by decide, ?_⟩
  intro e he
  simp only [List.mem_cons, List.mem_nil_iff, or_false] at he
  rcases he with rfl | rfl | rfl | rfl <;> decide

/-! ### model = specification (what the driver compares) -/

theorem root_refines (H : Bytes → Bytes) (version : Nat) (data : Bytes)
    (hz : shortRead Fn.root2 data = false) : hostRoot H version data = specRootFn H version data := by
  have h := entries_agree data
  simp only [shortRead] at hz
  simp only [hostRoot, specRootFn]
  cases parseVersion version with
  | none => rfl
  | some ver =>
    cases hu : unmarshalEntries data with
    | none => rw [hu] at h; simp only at h; simp [h]
    | some p =>
      obtain ⟨es, z⟩ := p
      rw [hu] at h hz
      simp only at hz
      subst hz
      simp only at h
      simp only [h, C01.C01_layoutRoot, lastWins_eq]

theorem ordered_refines (H : Bytes → Bytes) (version : Nat) (data : Bytes)
    (hz : shortRead Fn.oroot2 data = false) :
    hostOrderedRoot H version data = specOrderedRootFn H version data := by
  have h := values_agree data
  simp only [shortRead] at hz
  simp only [hostOrderedRoot, specOrderedRootFn]
  cases parseVersion version with
  | none => rfl
  | some ver =>
    cases hu : unmarshalValues data with
    | none => rw [hu] at h; simp only at h; simp [h]
    | some p =>
      obtain ⟨vs, z⟩ := p
      have hl := unmarshalValues_length hu
      have hb := pow_bound
      rw [hu] at h hz
      simp only at hz
      subst hz
      simp only at h
      simp only [h, C01.C01_layoutRoot, lastWins_eq, indexed_eq vs 0 (by omega)]

/-- FULL STATEMENT (false for the code): `∀ f v d, runModel H f v d = runSpec H f v d`.
    On every input outside the short-read region, for all four host functions, every version
    argument and every hash function, the model of the Go code returns what the specification
    demands: the spec root of the strictly decoded list, or failure. -/
theorem C10_refines_partial (H : Bytes → Bytes) (f : Fn) (version : Nat) (data : Bytes)
    (hz : shortRead f data = false) : runModel H f version data = runSpec H f version data := by
  cases f with
  | root1 => exact root_refines H 0 data hz
  | root2 => exact root_refines H version data hz
  | oroot1 => exact ordered_refines H 0 data hz
  | oroot2 => exact ordered_refines H version data hz

end Gossamer.C10
