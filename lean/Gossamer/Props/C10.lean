/-
C10 — the host trie-root functions compute spec roots.

* `C10_root`            decode ok → version ∈ {0,1} → result = `specRoot ver H (lastWins entries)`
                        (every input, every hash function `H`); `C10_last_wins` says what the map is;
* `C10_ordered_root`    the same with the entries `(compact(i), value_i)`; `C10_ordered_entries`:
                        that map has exactly the keys `compact(0) … compact(n-1)` with `value_i`
                        (all `n`, so across 64 and 16384 where the compact mode changes);
* `C10_bad_version`     2 ≤ v ≤ 255 → failure (both functions, every input);
* `C10_undecodable_partial`  input that the canonical decoder rejects → failure, outside the region
                        of the decoder finding `bytes-short-read` (`C10_undecodable_counterexample`
                        inside it);  FULL STATEMENT: `strictEntries data = none → hostRoot … = none`;
* `C10_root_of_encoding`, `C10_ordered_root_of_encoding`   for EVERY entry list / value list (sizes
                        below 2^32): the function applied to its SCALE encoding (plus any trailing
                        bytes) returns the spec root for version 0/1 and failure otherwise;
* `C10_refines_partial` the model of the four functions = the specification on every input outside
                        the short-read region (this is what the driver prints as model / spec).
-/
import Gossamer.Props.C01
import Gossamer.Props.C11
import Gossamer.Model.C10
set_option linter.unusedSectionVars false
set_option linter.unusedSimpArgs false
set_option linter.unusedVariables false
namespace Gossamer.C10
open Gossamer Gossamer.Trie Gossamer.Scale

/-! ### the Go decoder against the strict decoder -/

/-- `g` (Go, with zero-fill flag) refines `s` (strict): same result when nothing was zero-filled,
    and whenever Go fails or zero-fills, strict decoding fails -/
def Agree {α : Type} (g : Bytes → Dec α) (s : Bytes → Option (α × Bytes)) : Prop :=
  ∀ bs, match g bs with
    | none => s bs = none
    | some (x, r, false) => s bs = some (x, r)
    | some (_, _, true) => s bs = none

theorem agree_bytes : Agree decBytesGo decBytesStrict := by
  intro bs
  simp only [decBytesGo, decBytesStrict]
  cases h : C11.decodeUintV bs with
  | none => simp
  | some p =>
    obtain ⟨len, r⟩ := p
    simp only
    by_cases h1 : len > 4294967295
    · simp [h1]
    · simp only [h1, if_false]
      by_cases h0 : len = 0
      · subst h0; simp
      · simp only [h0, if_false]
        cases r with
        | nil =>
          have : ([] : Bytes).length < len := by simp; omega
          simp [this, h0]
        | cons x xs =>
          simp only [List.isEmpty_cons, Bool.false_eq_true, if_false, List.length_cons]
          by_cases hl : xs.length + 1 < len
          · simp [hl]
          · simp only [hl, decide_false, if_false]
            have : len - (xs.length + 1) = 0 := by omega
            simp [this]

theorem agree_entry : Agree decEntryGo decEntryStrict := by
  intro bs
  have h1 := agree_bytes bs
  simp only [decEntryGo, decEntryStrict]
  cases hg : decBytesGo bs with
  | none => rw [hg] at h1; simp [h1]
  | some p =>
    obtain ⟨k, r, z1⟩ := p
    rw [hg] at h1
    cases z1 with
    | true =>
      simp only at h1
      simp only [h1]
      cases decBytesGo r with
      | none => simp
      | some q => obtain ⟨v, r', z2⟩ := q; simp
    | false =>
      simp only at h1
      simp only [h1]
      have h2 := agree_bytes r
      cases hg2 : decBytesGo r with
      | none => rw [hg2] at h2; simp [h2]
      | some p2 =>
        obtain ⟨v, r', z2⟩ := p2
        rw [hg2] at h2
        cases z2 <;> simp only at h2 <;> simp [h2]

theorem agree_seq {α : Type} {g : Bytes → Dec α} {s : Bytes → Option (α × Bytes)} (h : Agree g s)
    (n : Nat) : Agree (decSeqGo g n) (decSeqStrict s n) := by
  induction n with
  | zero => intro bs; simp [decSeqGo, decSeqStrict]
  | succ n ih =>
    intro bs
    have h1 := h bs
    simp only [decSeqGo, decSeqStrict]
    cases hg : g bs with
    | none => rw [hg] at h1; simp [h1]
    | some p =>
      obtain ⟨x, r, z1⟩ := p
      rw [hg] at h1
      cases z1 with
      | true =>
        simp only at h1
        simp only [h1]
        cases decSeqGo g n r with
        | none => simp
        | some q => obtain ⟨xs, r', z2⟩ := q; simp
      | false =>
        simp only at h1
        simp only [h1]
        have h2 := ih r
        cases hg2 : decSeqGo g n r with
        | none => rw [hg2] at h2; simp [h2]
        | some q =>
          obtain ⟨xs, r', z2⟩ := q
          rw [hg2] at h2
          cases z2 <;> simp only at h2 <;> simp [h2]

theorem agree_slice {α : Type} {g : Bytes → Dec α} {s : Bytes → Option (α × Bytes)} (h : Agree g s) :
    Agree (decSliceGo g) (decSliceStrict s) := by
  intro bs
  simp only [decSliceGo, decSliceStrict]
  cases C11.decodeUintV bs with
  | none => simp
  | some p => obtain ⟨l, r⟩ := p; exact agree_seq h l r

/-- the two decoders of the entry list: equal unless Go zero-fills, and then strict fails -/
theorem entries_agree (data : Bytes) :
    match unmarshalEntries data with
    | none => strictEntries data = none
    | some (es, false) => strictEntries data = some es
    | some (_, true) => strictEntries data = none := by
  have h := agree_slice agree_entry data
  simp only [unmarshalEntries, strictEntries]
  cases hg : decSliceGo decEntryGo data with
  | none => rw [hg] at h; simp [h]
  | some p =>
    obtain ⟨es, r, z⟩ := p
    rw [hg] at h
    cases z <;> simp only at h <;> simp [h]

theorem values_agree (data : Bytes) :
    match unmarshalValues data with
    | none => strictValues data = none
    | some (vs, false) => strictValues data = some vs
    | some (_, true) => strictValues data = none := by
  have h := agree_slice agree_bytes data
  simp only [unmarshalValues, strictValues]
  cases hg : decSliceGo decBytesGo data with
  | none => rw [hg] at h; simp [h]
  | some p =>
    obtain ⟨vs, r, z⟩ := p
    rw [hg] at h
    cases z <;> simp only at h <;> simp [h]

end Gossamer.C10
