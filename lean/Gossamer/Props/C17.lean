/-
C17 — theorems.  Model: Model/C17.lean; invariant and closed forms: Lib/C17{Basics,Tree,Fin,Inv,Step}.lean.

Spec vocabulary
* `Desc st a h` : block `h` is `a` or descends from `a` by parent links inside the block tree of `st`.
* `Inv g st`    : the invariant of reachable states (root in the header table, every other tree node in
                  `unfinalisedBlocks` and nothing else, unique hashes, parents present with number − 1).
* `runG`        : `run` instrumented with the *finalised chain*: genesis followed by the subchains
                  (`RangeInMemory(lastFinalised, h)[1:]`) of all successful finalisations so far.
-/
import Gossamer.Lib.C17Step
namespace Gossamer.C17

inductive Desc (st : St) : Nat → Nat → Prop
  | refl (a : Nat) : Desc st a a
  | step {a h : Nat} {b : Blk} : findB st.tree h = some b → h ≠ st.root → Desc st a b.parent → Desc st a h

/-- the only assumption on a history: the genesis block is not imported a second time (in Go its parent,
    the zero hash, is never in the tree, so `AddBlock` rejects it) -/
def OpOK (g : Blk) : Op → Prop
  | .add b => b.hash ≠ g.hash
  | .fin _ _ _ => True

theorem Inv_step {g : Blk} {st : St} (inv : Inv g st) (o : Op) (ho : OpOK g o) : Inv g (step g.hash st o) := by
  cases o with
  | add b => exact Inv_add inv b ho
  | fin h r s => exact Inv_fin inv h r s

theorem foldl_inv {σ α : Type} (f : σ → α → σ) (P : σ → Prop) (Q : α → Prop)
    (hstep : ∀ s o, P s → Q o → P (f s o)) : ∀ (ops : List α) (s : σ), P s → (∀ o ∈ ops, Q o) → P (ops.foldl f s)
  | [], _, h, _ => h
  | o :: ops, s, h, hq =>
    foldl_inv f P Q hstep ops (f s o) (hstep s o h (hq o (List.mem_cons_self ..)))
      (fun o' ho' => hq o' (List.mem_cons_of_mem _ ho'))

/-- **the invariant holds in every reachable state** -/
theorem C17_inv_reachable (g : Blk) (ops : List Op) (hops : ∀ o ∈ ops, OpOK g o) : Inv g (run g ops) :=
  foldl_inv (step g.hash) (Inv g) (OpOK g) (fun _ o inv ho => Inv_step inv o ho) ops _ (Inv_init g) hops

/-! ### ancestry: the model's `up` list against the inductive `Desc` -/

theorem desc_of_mem_up {st : St} (ht : TreeOK st) : ∀ (fuel : Nat) (b : Blk) (a : Nat),
    b ∈ st.tree → a ∈ upList st fuel b → Desc st a b.hash
  | 0, _, _, _, h => by simp [upList] at h
  | fuel + 1, b, a, hb, h => by
    unfold upList at h
    cases hp : parentNode st b with
    | none =>
      simp only [hp, List.mem_singleton] at h
      rw [h]; exact .refl _
    | some p =>
      simp only [hp, List.mem_cons] at h
      rcases h with h | h
      · rw [h]; exact .refl _
      · obtain ⟨hr, hfp, hpt, _⟩ := parentNode_some ht hb hp
        have ih := desc_of_mem_up ht fuel p a hpt h
        rw [(findB_some hfp).2] at ih
        exact .step (ht.uniq b hb) hr ih

/-! ### C17_monotone -/

/-- **monotone**: a successful `SetFinalisedHash(h)` means `h` is the previous finalised head or descends
    from it; afterwards `h` is the head (`bs.lastFinalised`, block-tree root, `GetHighestFinalisedHash`). -/
theorem C17_monotone {g : Blk} {st : St} (inv : Inv g st) (h r s : Nat)
    (hok : (setFinalised g.hash st h r s).2 = .ok) :
    Desc st st.root h ∧ (setFinalised g.hash st h r s).1.root = h ∧
      highestFinalised (setFinalised g.hash st h r s).1 = some h := by
  rcases setFinalised_cases inv h r s with ⟨_, h2⟩ | ⟨hr, _, h1⟩ | ⟨hne, _, rb, hn, rest, m⟩
  · rcases h2 with h2 | h2 | ⟨e, h2⟩ <;> rw [h2] at hok <;> cases hok
  · rw [h1]
    refine ⟨hr ▸ .refl _, hr.symm, ?_⟩
    unfold highestFinalised
    exact lookupK_cons_self _ _ _
  · have f := m.facts inv hne
    refine ⟨?_, m.root, ?_⟩
    · have : st.root ∈ up st hn := by
        rw [f.upHead, List.mem_reverse, List.map_cons, f.rbh]
        exact List.mem_cons_self ..
      have := desc_of_mem_up inv.tree _ hn st.root f.hnTree this
      rw [f.hnh] at this
      exact this
    · unfold highestFinalised
      rw [m.highest]; exact m.finKey

/-! ### C17_failed_unchanged -/

/-- **a failing call changes nothing** (tree, maps, database), whatever the reason, in every reachable state;
    and the only failures are: unknown block, stale set id, target outside the block tree. -/
theorem C17_failed_unchanged {g : Blk} {st : St} (inv : Inv g st) (h r s : Nat)
    (hfail : (setFinalised g.hash st h r s).2 ≠ .ok) :
    (setFinalised g.hash st h r s).1 = st ∧
      ((setFinalised g.hash st h r s).2 = .errUnknown ∨ (setFinalised g.hash st h r s).2 = .errSetID ∨
        ∃ e, (setFinalised g.hash st h r s).2 = .errRange e) := by
  rcases setFinalised_cases inv h r s with h1 | ⟨_, h2, _⟩ | ⟨_, h2, _⟩
  · exact h1
  · exact absurd h2 hfail
  · exact absurd h2 hfail

/-- an unknown target (never imported, or dropped with an abandoned fork) is rejected -/
theorem C17_unknown_rejected (gh : Nat) (st : St) (h r s : Nat) (hu : getHeader st h = none) :
    setFinalised gh st h r s = (st, .errUnknown) := by
  unfold setFinalised; simp [hu]

/-- a stale target (a finalised ancestor: in the database, no longer in the block tree) is rejected -/
theorem C17_stale_rejected {g : Blk} {st : St} (inv : Inv g st) (h r s : Nat) (b : Blk)
    (hk : getHeader st h = some b) (hs : ¬ s < st.highest.2) (ht : findB st.tree h = none) :
    setFinalised g.hash st h r s = (st, .errRange .endNotFound) := by
  have hne : h ≠ st.root := by
    intro he
    have := inv.tree.rootIn
    rw [← he, ht] at this
    cases this
  unfold setFinalised handleFinalised rangeInMemory
  simp [hk, hs, hne, ht]

/-! ### C17_abandoned_gone -/

/-- **abandoned forks are gone**: after a successful move of the head to `h`, no block of the old tree that
    is not `h` or a descendant of `h` (abandoned forks, and the finalised ancestors themselves) is in
    `unfinalisedBlocks`, and none of them keeps its state trie in `tries`. -/
theorem C17_abandoned_gone {g : Blk} {st : St} (inv : Inv g st) (h r s : Nat)
    (hok : (setFinalised g.hash st h r s).2 = .ok) (hne : h ≠ st.root) (b : Blk) (hb : b ∈ st.tree)
    (hnd : ¬ Desc st h b.hash) :
    findB (setFinalised g.hash st h r s).1.unfin b.hash = none ∧
      b ∉ (setFinalised g.hash st h r s).1.unfin ∧ b.sroot ∉ (setFinalised g.hash st h r s).1.tries := by
  rcases setFinalised_cases inv h r s with ⟨_, h2⟩ | ⟨hr, _, _⟩ | ⟨_, _, rb, hn, rest, m⟩
  · rcases h2 with h2 | h2 | ⟨e, h2⟩ <;> rw [h2] at hok <;> cases hok
  · exact absurd hr hne
  · have f := m.facts inv hne
    have hnup : hn.hash ∉ up st b := by
      intro hm
      apply hnd
      rw [← f.hnh]
      exact desc_of_mem_up inv.tree _ b hn.hash hb hm
    have key : findB (setFinalised g.hash st h r s).1.unfin b.hash = none ∧
        b.sroot ∉ (setFinalised g.hash st h r s).1.tries := by
      by_cases hanc : b.hash ∈ up st hn
      · rw [f.upHead, List.mem_reverse, List.map_cons, List.mem_cons] at hanc
        rcases hanc with hanc | hanc
        · have : b = rb := inv.tree.uniq.eq_of_hash hb (findB_some m.rootB).1 hanc
          subst this
          refine ⟨?_, m.triesRoot⟩
          rw [m.unfinFind b.hash, f.rbh, inv.rootUnfin]
          simp
        · obtain ⟨c, hc, hch⟩ := List.mem_map.mp hanc
          have : c = b := inv.tree.uniq.eq_of_hash (f.restTree c hc).1 hb hch
          subst this
          refine ⟨?_, m.triesPath c hc ?_⟩
          · rw [m.unfinFind c.hash]; simp [hanc]
          · intro he
            apply hnup
            rw [f.hnh, ← he]
            exact self_mem_up st c
      · have hbp : b ∈ pruned st hn := List.mem_filter.mpr ⟨hb, by simp [hnup, hanc]⟩
        refine ⟨?_, m.triesPruned b hbp⟩
        rw [m.unfinFind b.hash]
        have : b.hash ∈ (pruned st hn).map (·.hash) := List.mem_map.mpr ⟨b, hbp, rfl⟩
        simp [this]
    exact ⟨key.1, fun hm => absurd key.1 (by
      have := findB_isSome_of_mem hm
      intro hnone; rw [hnone] at this; cases this), key.2⟩

/-- after a successful move every block still retrievable as unfinalised is a strict descendant of the new
    head (in every later state the map stays inside the tree: `Inv.unfinTree`) -/
theorem C17_unfin_below_head {g : Blk} {st : St} (inv : Inv g st) (h r s : Nat)
    (hok : (setFinalised g.hash st h r s).2 = .ok) (hne : h ≠ st.root) (y : Blk)
    (hy : y ∈ (setFinalised g.hash st h r s).1.unfin) : y ∈ st.tree ∧ Desc st h y.hash ∧ y.hash ≠ h := by
  rcases setFinalised_cases inv h r s with ⟨_, h2⟩ | ⟨hr, _, _⟩ | ⟨_, _, rb, hn, rest, m⟩
  · rcases h2 with h2 | h2 | ⟨e, h2⟩ <;> rw [h2] at hok <;> cases hok
  · exact absurd hr hne
  · have f := m.facts inv hne
    have inv' := Inv_moved inv m hne
    have := inv'.unfinTree y hy
    rw [m.tree, m.root] at this
    have hk := List.mem_filter.mp this.1
    refine ⟨hk.1, ?_, this.2⟩
    have hup : hn.hash ∈ up st y := by simpa using hk.2
    rw [← f.hnh]
    exact desc_of_mem_up inv.tree _ y hn.hash hk.1 hup

/-! ### the converse direction: does the new head keep its own trie? -/

theorem mem_up_of_desc {st : St} (ht : TreeOK st) {a h : Nat} (hd : Desc st a h) :
    ∀ b ∈ st.tree, b.hash = h → a ∈ up st b := by
  induction hd with
  | refl => intro b _ hb; rw [← hb]; exact self_mem_up st b
  | @step h' c hf hr _ ih =>
    intro b hb hbh
    have hc : c = b := by
      have := findB_some hf
      exact ht.uniq.eq_of_hash this.1 hb (this.2.trans hbh.symm)
    subst hc
    have hbr : c.hash ≠ st.root := by rw [hbh]; exact hr
    obtain ⟨p, hp⟩ := parentNode_nonroot ht hb hbr
    obtain ⟨_, hfp, hpt, _⟩ := parentNode_some ht hb hp
    rw [up_step ht hb hp]
    exact List.mem_cons_of_mem _ (ih p hpt (findB_some hfp).2)

/-- **the head keeps its trie when state roots are not shared**: `Tries.delete` is keyed by state root, so the
    new head's trie survives the finalisation provided no block outside its subtree (old head, finalised
    ancestors, abandoned forks) has the same state root. -/
theorem C17_head_trie_kept {g : Blk} {st : St} (inv : Inv g st) (h r s : Nat)
    (hok : (setFinalised g.hash st h r s).2 = .ok) (hne : h ≠ st.root) (hn : Blk)
    (hhn : findB st.tree h = some hn) (hin : hn.sroot ∈ st.tries)
    (huniq : ∀ b ∈ st.tree, ¬ Desc st h b.hash → b.sroot ≠ hn.sroot) :
    hn.sroot ∈ (setFinalised g.hash st h r s).1.tries := by
  rcases setFinalised_cases inv h r s with ⟨_, h2⟩ | ⟨hr, _, _⟩ | ⟨_, _, rb, hn', rest, m⟩
  · rcases h2 with h2 | h2 | ⟨e, h2⟩ <;> rw [h2] at hok <;> cases hok
  · exact absurd hr hne
  · have f := m.facts inv hne
    have : hn' = hn := by rw [m.headB] at hhn; exact Option.some.inj hhn
    subst this
    have notDesc : ∀ b ∈ st.tree, hn'.hash ∉ up st b → ¬ Desc st h b.hash := by
      intro b hb hnu hd
      exact hnu (f.hnh ▸ mem_up_of_desc inv.tree hd b hb rfl)
    refine m.triesKeep _ hin ?_ ?_ ?_
    · have hrbt := (findB_some m.rootB).1
      refine (huniq rb hrbt (notDesc rb hrbt ?_)).symm
      rw [up_root f.rbh]
      intro hm
      exact hne (by rw [← f.hnh, List.mem_singleton.mp hm, f.rbh])
    · intro b hb hbh
      have hbt := (f.restTree b hb).1
      have hbn : b ≠ hn' := fun he => hbh (by rw [he, f.hnh])
      exact huniq b hbt (notDesc b hbt (not_mem_up_of_lt inv.tree hbt f.hnTree (f.restLt b hb hbn)))
    · intro b hb
      have hbm := List.mem_filter.mp hb
      have : hn'.hash ∉ up st b := by
        have := hbm.2
        simp only [Bool.and_eq_true, Bool.not_eq_true', decide_eq_false_iff_not] at this
        exact this.1
      exact huniq b hbm.1 (notDesc b hbm.1 this)

/-! ### C17_number_lookup -/

/-- `subchain[1:]` of `handleFinalisedBlock` -/
def subchain (st : St) (h : Nat) : List Blk :=
  match rangeInMemory st st.root h with
  | .ok path => path.tail
  | _ => []

/-- one step of the history, with the finalised chain as ghost state -/
def stepG (gh : Nat) (sc : St × List Blk) (o : Op) : St × List Blk :=
  match o with
  | .add b => ((addBlock sc.1 b).1, sc.2)
  | .fin h r s =>
    ((setFinalised gh sc.1 h r s).1,
      if (setFinalised gh sc.1 h r s).2 = .ok ∧ h ≠ sc.1.root then sc.2 ++ subchain sc.1 h else sc.2)

def runG (g : Blk) (ops : List Op) : St × List Blk := ops.foldl (stepG g.hash) (St.init g, [g])

theorem stepG_fst (gh : Nat) (sc : St × List Blk) (o : Op) : (stepG gh sc o).1 = step gh sc.1 o := by
  cases o <;> rfl

theorem foldlG_fst (gh : Nat) : ∀ (ops : List Op) (sc : St × List Blk),
    (ops.foldl (stepG gh) sc).1 = ops.foldl (step gh) sc.1
  | [], _ => rfl
  | o :: ops, sc => by rw [List.foldl_cons, List.foldl_cons, foldlG_fst gh ops, stepG_fst]

theorem runG_fst (g : Blk) (ops : List Op) : (runG g ops).1 = run g ops := foldlG_fst g.hash ops _

theorem Moved.subchain_eq {g : Blk} {st st' : St} (inv : Inv g st) {h r s : Nat} {rb hn : Blk} {rest : List Blk}
    (m : Moved st h r s rb hn rest st') : subchain st h = rest := by
  unfold subchain rangeInMemory
  have hle : ¬ rb.number > hn.number := by
    have := (m.path.mem rb (List.mem_cons_self ..)).2; omega
  simp [m.headB, m.rootB, hle, m.walk]

/-- the finalised chain against the state -/
structure ChainInv (g : Blk) (st : St) (chain : List Blk) : Prop where
  genesis : g ∈ chain
  head : ∃ rb, findB st.tree st.root = some rb ∧ rb ∈ chain ∧ ∀ c ∈ chain, c.number ≤ rb.number
  num : ∀ c ∈ chain, lookupN st.dbNum c.number = some c.hash
  inj : ∀ c ∈ chain, ∀ c' ∈ chain, c.number = c'.number → c = c'
  closed : ∀ c ∈ chain, c = g ∨ ∃ p ∈ chain, p.hash = c.parent ∧ p.number + 1 = c.number

theorem ChainInv_init (g : Blk) : ChainInv g (St.init g) [g] where
  genesis := by simp
  head := ⟨g, by simp [St.init, findB_cons], by simp, by simp⟩
  num := by intro c hc; simp at hc; subst hc; simp [St.init, lookupN]
  inj := by intro c hc c' hc' _; simp at hc hc'; rw [hc, hc']
  closed := by intro c hc; simp at hc; exact .inl hc

theorem ChainInv_stepG {g : Blk} {sc : St × List Blk} (inv : Inv g sc.1) (ci : ChainInv g sc.1 sc.2) (o : Op) :
    ChainInv g (stepG g.hash sc o).1 (stepG g.hash sc o).2 := by
  obtain ⟨st, chain⟩ := sc
  cases o with
  | add b =>
    show ChainInv g (addBlock st b).1 chain
    rcases addBlock_cases st b with h | ⟨p, _, _, _, heq⟩
    · rw [h]; exact ci
    · rw [heq]
      obtain ⟨rb, hrb, hmem, hmax⟩ := ci.head
      refine ⟨ci.genesis, ⟨rb, ?_, hmem, hmax⟩, ci.num, ci.inj, ci.closed⟩
      show findB (st.tree ++ [b]) st.root = some rb
      rw [findB_append, hrb]
  | fin h r s =>
    show ChainInv g (setFinalised g.hash st h r s).1
      (if (setFinalised g.hash st h r s).2 = .ok ∧ h ≠ st.root then chain ++ subchain st h else chain)
    rcases setFinalised_cases inv h r s with ⟨h1, h2⟩ | ⟨hr, _, h1⟩ | ⟨hne, hok, rb, hn, rest, m⟩
    · have : ¬ ((setFinalised g.hash st h r s).2 = .ok ∧ h ≠ st.root) := by
        rintro ⟨hok, _⟩
        rcases h2 with h2 | h2 | ⟨e, h2⟩ <;> rw [h2] at hok <;> cases hok
      rw [if_neg this, h1]; exact ci
    · rw [if_neg (fun hc => hc.2 hr), h1]
      exact ⟨ci.genesis, ci.head, ci.num, ci.inj, ci.closed⟩
    · rw [if_pos ⟨hok, hne⟩, m.subchain_eq inv]
      have f := m.facts inv hne
      obtain ⟨rb0, hrb0, hmem0, hmax0⟩ := ci.head
      have : rb0 = rb := by rw [m.rootB] at hrb0; exact (Option.some.inj hrb0).symm
      subst this
      have hheadFind : findB (setFinalised g.hash st h r s).1.tree (setFinalised g.hash st h r s).1.root = some hn := by
        rw [m.tree, m.root, ← f.hnh]
        exact findB_filter_of_uniq inv.tree.uniq _ f.hnTree (by simpa using self_mem_up st hn)
      refine ⟨List.mem_append_left _ ci.genesis, ⟨hn, hheadFind, List.mem_append_right _ f.hnRest, ?_⟩, ?_, ?_, ?_⟩
      · intro c hc
        rcases List.mem_append.mp hc with hc | hc
        · have := hmax0 c hc
          have := f.rootLt hn f.hnRest
          omega
        · exact (m.path.mem c (List.mem_cons_of_mem _ hc)).2
      · intro c hc
        rcases List.mem_append.mp hc with hc | hc
        · rw [m.numOld c.number (fun b hb => by
            have := hmax0 c hc
            have := f.rootLt b hb
            omega)]
          exact ci.num c hc
        · exact m.numNew c hc
      · intro c hc c' hc' he
        rcases List.mem_append.mp hc with hc | hc <;> rcases List.mem_append.mp hc' with hc' | hc'
        · exact ci.inj c hc c' hc' he
        · have := hmax0 c hc; have := f.rootLt c' hc'; omega
        · have := hmax0 c' hc'; have := f.rootLt c hc; omega
        · exact pairwise_lt_inj _ m.path.incr c (List.mem_cons_of_mem _ hc) c' (List.mem_cons_of_mem _ hc') he
      · intro c hc
        rcases List.mem_append.mp hc with hc | hc
        · rcases ci.closed c hc with h1 | ⟨p, hp, h1, h2⟩
          · exact .inl h1
          · exact .inr ⟨p, List.mem_append_left _ hp, h1, h2⟩
        · obtain ⟨y, hy, h1, h2⟩ := m.path.linked c (by simpa using hc)
          refine .inr ⟨y, ?_, h1, h2⟩
          rcases List.mem_cons.mp hy with hy | hy
          · rw [hy]; exact List.mem_append_left _ hmem0
          · exact List.mem_append_right _ hy

theorem ChainInv_reachable (g : Blk) (ops : List Op) (hops : ∀ o ∈ ops, OpOK g o) :
    Inv g (runG g ops).1 ∧ ChainInv g (runG g ops).1 (runG g ops).2 := by
  have := foldl_inv (stepG g.hash) (fun sc => Inv g sc.1 ∧ ChainInv g sc.1 sc.2) (OpOK g)
    (fun sc o ih ho => ⟨by rw [stepG_fst]; exact Inv_step ih.1 o ho, ChainInv_stepG ih.1 ih.2 o⟩)
    ops (St.init g, [g]) ⟨Inv_init g, ChainInv_init g⟩ hops
  exact this

/-- **number lookup**: after any history, every block of the finalised chain (genesis and every block of
    every successfully finalised subchain) is answered by `GetHashByNumber` — the head from the tree root,
    every earlier one from the number table of the database.  The chain is exactly the head's ancestry:
    it contains genesis and the head, is closed under parents, and numbers identify its blocks. -/
theorem C17_number_lookup (g : Blk) (ops : List Op) (hops : ∀ o ∈ ops, OpOK g o) :
    let st := run g ops
    let chain := (runG g ops).2
    (∀ c ∈ chain, hashByNumber st c.number = some c.hash ∧ lookupN st.dbNum c.number = some c.hash) ∧
    g ∈ chain ∧ (∃ rb ∈ chain, rb.hash = st.root ∧ ∀ c ∈ chain, c.number ≤ rb.number) ∧
    (∀ c ∈ chain, c = g ∨ ∃ p ∈ chain, p.hash = c.parent ∧ p.number + 1 = c.number) := by
  intro st chain
  obtain ⟨_, ci⟩ := ChainInv_reachable g ops hops
  rw [runG_fst] at ci
  obtain ⟨rb, hrb, hmem, hmax⟩ := ci.head
  refine ⟨?_, ci.genesis, ⟨rb, hmem, (findB_some hrb).2, hmax⟩, ci.closed⟩
  intro c hc
  refine ⟨?_, ci.num c hc⟩
  show hashByNumber (run g ops) c.number = some c.hash
  unfold hashByNumber
  rw [hrb]
  simp only
  by_cases he : rb.number = c.number
  · have := ci.inj rb hmem c hc he
    subst this
    simp
  · have := hmax c hc
    have hlt : c.number < rb.number := by omega
    simp only [he, if_false, hlt, if_true]
    exact ci.num c hc

/-! ### history forms and concrete (non-vacuous) instances -/

/-- **the property over all histories**: in the state after any history, for any finalisation request:
    success ⇒ the target descends from the head and becomes the head; failure ⇒ nothing changed. -/
theorem C17_history (g : Blk) (ops : List Op) (hops : ∀ o ∈ ops, OpOK g o) (h r s : Nat) :
    let st := run g ops
    let out := setFinalised g.hash st h r s
    (out.2 = .ok → Desc st st.root h ∧ out.1.root = h ∧ highestFinalised out.1 = some h) ∧
    (out.2 ≠ .ok → out.1 = st) := by
  intro st out
  have inv := C17_inv_reachable g ops hops
  exact ⟨fun hok => C17_monotone inv h r s hok, fun hf => (C17_failed_unchanged inv h r s hf).1⟩

def wG : Blk := { hash := 1, parent := 0, number := 0, sroot := 0 }
def w1 : Blk := { hash := 2, parent := 1, number := 1, sroot := 11 }
def w2 : Blk := { hash := 3, parent := 2, number := 2, sroot := 12 }
def w3 : Blk := { hash := 4, parent := 2, number := 2, sroot := 13 }
def w4 : Blk := { hash := 5, parent := 4, number := 3, sroot := 14 }
/-- g ← 1 ← 2 and the fork 1 ← 3 ← 4 -/
def wOps : List Op := [.add w1, .add w2, .add w3, .add w4]

example : ∀ o ∈ wOps, OpOK wG o := by
  intro o ho
  simp only [wOps, List.mem_cons, List.mem_nil_iff, or_false] at ho
  rcases ho with rfl | rfl | rfl | rfl <;> simp [OpOK, w1, w2, w3, w4, wG]

/-- finalising 2: ok; the fork 3 ← 4 is gone from memory, 1 and 2 are in the number table -/
example : (setFinalised 1 (run wG wOps) 3 1 0).2 = .ok := by decide
example : ((setFinalised 1 (run wG wOps) 3 1 0).1.unfin.map (·.hash)) = [] := by decide
example : (setFinalised 1 (run wG wOps) 3 1 0).1.tries = [12] := by decide
example : hashByNumber (setFinalised 1 (run wG wOps) 3 1 0).1 1 = some 2 := by decide
/-- then the sibling 3, the stale ancestor 1, an unknown hash and a stale set id all fail -/
example : (setFinalised 1 (setFinalised 1 (run wG wOps) 3 1 0).1 4 2 0).2 = .errUnknown := by decide
example : (setFinalised 1 (setFinalised 1 (run wG wOps) 3 1 0).1 2 2 0).2 = .errRange .endNotFound := by decide
example : (setFinalised 1 (setFinalised 1 (run wG wOps) 3 1 0).1 77 2 0).2 = .errUnknown := by decide
example : (setFinalised 1 (setFinalised 1 (run wG wOps) 3 1 5).1 3 2 4).2 = .errSetID := by decide

/-- **shared state roots evict the head's trie** (the converse of C17's last sentence does NOT hold in general):
    g ← 1, then 2 and 3 are siblings under 1 with the SAME state root 6; finalising 2 prunes 3, and
    `tries.delete(3's state root)` removes the trie the new head 2 needs.  `Tries` is a cache
    (`StorageState.TrieState` reloads a missing trie from the database), so this costs a reload, not state. -/
def xG : Blk := { hash := 1, parent := 0, number := 0, sroot := 0 }
def x1 : Blk := { hash := 2, parent := 1, number := 1, sroot := 5 }
def x2 : Blk := { hash := 3, parent := 2, number := 2, sroot := 6 }
def x3 : Blk := { hash := 4, parent := 2, number := 2, sroot := 6 }

theorem C17_shared_root_evicts_head_trie :
    let st := run xG [.add x1, .add x2, .add x3]
    (setFinalised 1 st 3 1 0).2 = .ok ∧ x2.sroot ∈ st.tries ∧ x2.sroot ∉ (setFinalised 1 st 3 1 0).1.tries := by
  decide

end Gossamer.C17
