/-
C36 — chain state survives a crash at any write: the property theorems.

Everything is about `run cfg ops`, the node obtained from the genesis node by ANY list of scenario operations
(imports with state tries on any parent, finalisations of any block with any round / set id, scheduled and
forced authority changes, BABE next-epoch data / config announcements and their finalisation, justifications,
prevotes / precommits, own-round finalisations, latest-round updates — failing operations included), and about EVERY prefix of the
write log it produced, replayed on the genesis database (`base`).
-/
import Gossamer.Lib.C36Node
namespace Gossamer.C36

/-! ### all scenarios are safe logs -/

theorem init_inv : NInv init := by
  have hg : HdrOK base genesisId := ⟨genesisHdr, by decide, by decide, by decide⟩
  exact ⟨base_inv, fun b hb => (by cases hb), hg, hg⟩

theorem foldl_step : ∀ (ops : List Op) (n : Node), Step n (ops.foldl (step {}) n) ops.length
  | [], n => Step.refl n
  | op :: ops, n => by
    have := (step_step n op).trans (foldl_step ops (step {} n op))
    simpa [Nat.add_comm] using this

/-- the log of every scenario is a safe segment on the genesis database, and the node's database is the
    replay of its log -/
theorem run_safe (ops : List Op) :
    NInv (run {} ops) ∧ SafeSeg base (run {} ops).log ∧ (run {} ops).db = replay base (run {} ops).log := by
  obtain ⟨hi, seg, hl, hd, hs, _⟩ := foldl_step ops init init_inv
  have hl' : (run {} ops).log = seg := by simpa [run, init] using hl
  have hd' : (run {} ops).db = replay base seg := by simpa [run, init] using hd
  exact ⟨hi, by rw [hl']; exact hs, by rw [hl']; exact hd'⟩

/-- **C36.** For every scenario and every crash point `k` (a prefix of the write log; batches are atomic),
    restarting from the crash-truncated database succeeds: Service.Start finds the finalised head, its header,
    its body and its state trie; the finalised header of round 0 / set 0 is readable; the current GRANDPA set
    id is present together with ITS authority list and ITS activation block, and the latest round is present.
    (Holds for the repaired write order `Cfg.incrementFirst = false`.) -/
theorem C36_prefix_recoverable (ops : List Op) (k : Nat) :
    Good (replay base ((run {} ops).log.take k)) :=
  ((keeps_replay (SafeSeg.take k (run_safe ops).2.1)).inv base_inv).good

/-- the same statement spelled out on the outcome of `restart` -/
theorem C36_prefix_restart (ops : List Op) (k : Nat) :
    ∃ head round set cur auths chg lr,
      restart (replay base ((run {} ops).log.take k)) =
        .ok head round set true true (some cur) (some auths) (some chg) (some lr) :=
  C36_prefix_recoverable ops k

/-! ### what the driver prints is what the theorems are about -/

theorem runOps_run (cfg : Cfg) : ∀ (ops : List Op) (n : Node) (acc : List String) (n' : Node) (rs : List String),
    runOps cfg n acc ops = some (n', rs) → n' = ops.foldl (step cfg) n
  | [], n, acc, n', rs, h => by
    simp only [runOps, Option.some.injEq, Prod.mk.injEq] at h
    exact h.1.symm
  | op :: ops, n, acc, n', rs, h => by
    simp only [runOps] at h
    split at h
    · cases h
    · rename_i n1 r hs
      have := runOps_run cfg ops n1 (r :: acc) n' rs h
      simp only [List.foldl, step, hs, this]

/-- the `k`-th database the driver restarts is the genesis database plus the first `k` log entries -/
theorem prefixes_get : ∀ (l : List Entry) (db : DB) (k : Nat), k ≤ l.length →
    (prefixes db l)[k]? = some (replay db (l.take k))
  | [], db, k, h => by
    have : k = 0 := by simpa using h
    subst this; rfl
  | e :: es, db, 0, _ => rfl
  | e :: es, db, k + 1, h => by
    simpa [prefixes, replay] using prefixes_get es (db.apply e) k (by simpa using h)

/-- for a well-formed line the driver's node is `run` of the parsed operations, so every restart outcome it
    prints is one covered by `C36_prefix_restart` -/
theorem C36_driver_covered (ops : List Op) (n : Node) (rs : List String)
    (h : runOps {} init [] ops = some (n, rs)) (k : Nat) (hk : k ≤ n.log.length) :
    ∃ db, (prefixes base n.log)[k]? = some db ∧ Good db := by
  have hn : n = run {} ops := runOps_run {} ops init [] n rs h
  refine ⟨_, prefixes_get n.log base k hk, ?_⟩
  rw [hn]
  exact C36_prefix_recoverable ops k

/-! ### the finalised round / set id is never older -/

theorem SafeSeg.drop : ∀ {a : List Entry} {db : DB} {b : List Entry},
    SafeSeg db (a ++ b) → SafeSeg (replay db a) b
  | [], _, _, h => h
  | _ :: es, _, _, ⟨_, h2⟩ => SafeSeg.drop (a := es) h2

/-- the set id of the highest finalised round never decreases along the write log: a later crash point never
    recovers an older set than an earlier one (in particular not older than at the last completed operation) -/
theorem C36_setid_monotone (ops : List Op) (k1 k2 : Nat) (h : k1 ≤ k2) :
    setOf (replay base ((run {} ops).log.take k1)) ≤ setOf (replay base ((run {} ops).log.take k2)) := by
  have hs := SafeSeg.take k2 (run_safe ops).2.1
  have hsplit : (run {} ops).log.take k2 =
      (run {} ops).log.take k1 ++ ((run {} ops).log.take k2).drop k1 := by
    have : (run {} ops).log.take k1 = ((run {} ops).log.take k2).take k1 := by
      rw [List.take_take, Nat.min_eq_left h]
    rw [this, List.take_append_drop]
  rw [hsplit] at hs ⊢
  rw [replay_append]
  exact (keeps_replay (SafeSeg.drop hs)).set

theorem hrs_write {db : DB} {w : W} (h : hrsW w = 0) : (db.write w).hrs = db.hrs := by
  cases w <;> first | rfl | (simp [hrsW] at h)

theorem hrs_writes : ∀ {ws : List W} {db : DB}, (ws.map hrsW).sum = 0 → (ws.foldl DB.write db).hrs = db.hrs
  | [], _, _ => rfl
  | w :: ws, db, h => by
    have h' : hrsW w = 0 ∧ (ws.map hrsW).sum = 0 := by simpa [Nat.add_eq_zero_iff] using h
    show (ws.foldl DB.write (db.write w)).hrs = db.hrs
    rw [hrs_writes h'.2, hrs_write h'.1]

theorem hrs_apply {db : DB} {e : Entry} (h : hrsE e = 0) : (db.apply e).hrs = db.hrs := by
  cases e with
  | put w => exact hrs_write h
  | batch ws => exact hrs_writes h

theorem hrs_replay : ∀ {l : List Entry} {db : DB}, hrsCount l = 0 → (replay db l).hrs = db.hrs
  | [], _, _ => rfl
  | e :: es, db, h => by
    have h' : hrsE e = 0 ∧ hrsCount es = 0 := by simpa [hrsCount, Nat.add_eq_zero_iff] using h
    show (replay (db.apply e) es).hrs = db.hrs
    rw [hrs_replay h'.2, hrs_apply h'.1]

/-- a segment that writes the highest round / set id at most once shows, at every prefix, either the old or
    the final value -/
theorem hrs_atomic : ∀ (seg : List Entry) (db : DB) (i : Nat), hrsCount seg ≤ 1 →
    (replay db (seg.take i)).hrs = db.hrs ∨ (replay db (seg.take i)).hrs = (replay db seg).hrs
  | [], _, _, _ => Or.inl (by simp [replay])
  | _ :: _, _, 0, _ => Or.inl (by simp [replay])
  | e :: es, db, i + 1, h => by
    have hsum : hrsE e + hrsCount es ≤ 1 := by simpa [hrsCount] using h
    show (replay (db.apply e) (es.take i)).hrs = db.hrs ∨
      (replay (db.apply e) (es.take i)).hrs = (replay (db.apply e) es).hrs
    by_cases he : hrsE e = 0
    · rcases hrs_atomic es (db.apply e) i (by omega) with h1 | h1
      · exact Or.inl (by rw [h1, hrs_apply he])
      · exact Or.inr h1
    · have hz : hrsCount es = 0 := by omega
      have hz' : hrsCount (es.take i) = 0 := by
        have : hrsCount (es.take i) + hrsCount (es.drop i) = hrsCount es := by
          rw [← hrsCount_append, List.take_append_drop]
        omega
      exact Or.inr (by rw [hrs_replay hz', hrs_replay hz])

/-- crash-atomicity of the finalised round / set id: at every crash point inside an operation the recovered
    highest finalised (round, set id) is the one before the operation or the one after it — never a third,
    older value -/
theorem C36_finalised_atomic (ops : List Op) (op : Op) (i : Nat) :
    let n := run {} ops
    let n' := step {} n op
    let crashed := replay base (n'.log.take (n.log.length + i))
    crashed.hrs = n.db.hrs ∨ crashed.hrs = n'.db.hrs := by
  intro n n' crashed
  obtain ⟨hi, _, hdb⟩ := run_safe ops
  obtain ⟨_, seg, hl, hd, _, hc⟩ := step_step n op hi
  have hcr : crashed = replay n.db (seg.take i) := by
    show replay base (n'.log.take (n.log.length + i)) = _
    rw [hl, List.take_append, replay_append, List.take_of_length_le (Nat.le_add_right ..), ← hdb]
    simp
    rfl
  rw [hcr, hd]
  exact hrs_atomic seg n.db i hc

/-! ### the epoch tables: no announced next-epoch data / config is lost by a crash -/

theorem take_succ_of_get {l : List Entry} {k : Nat} {e : Entry} (h : l[k]? = some e) :
    l.take (k + 1) = l.take k ++ [e] := by
  rw [List.take_succ, h]; rfl

/-- the part of the log between two crash points is a safe segment on the earlier crash database -/
theorem keeps_between (ops : List Op) (k1 k2 : Nat) (h : k1 ≤ k2) :
    Keeps (replay base ((run {} ops).log.take k1)) (replay base ((run {} ops).log.take k2)) := by
  have hs := SafeSeg.take k2 (run_safe ops).2.1
  have hsplit : (run {} ops).log.take k2 =
      (run {} ops).log.take k1 ++ ((run {} ops).log.take k2).drop k1 := by
    have : (run {} ops).log.take k1 = ((run {} ops).log.take k2).take k1 := by
      rw [List.take_take, Nat.min_eq_left h]
    rw [this, List.take_append_drop]
  rw [hsplit] at hs ⊢
  rw [replay_append]
  exact keeps_replay (SafeSeg.drop hs)

/-- **Epoch data.** Once the put of an announced NextEpochData (key nextepochdata<epoch>:<hash>, written by
    HandleBABEDigest at import) is durable, every later crash point still has it on disk — where NewEpochState
    restores it into the in-memory map — or has the persisted definition (epochinfo) of the same or a later
    epoch: the finalisation handler writes the definition BEFORE it deletes the announcements. -/
theorem C36_epoch_data_not_lost (ops : List Op) (k1 k2 e h : Nat) (hk : k1 < k2)
    (hput : (run {} ops).log[k1]? = some (.put (.ned e h))) :
    NedOK (replay base ((run {} ops).log.take k2)) e h := by
  have h1 : NedOK (replay base ((run {} ops).log.take (k1 + 1))) e h := by
    rw [take_succ_of_get hput, replay_append]
    exact Or.inl (by simp [replay, DB.apply, DB.write])
  exact (keeps_between ops (k1 + 1) k2 hk).nedok e h h1

/-- the same for announced NextConfigData and the persisted configuration (configinfo) -/
theorem C36_config_data_not_lost (ops : List Op) (k1 k2 e h : Nat) (hk : k1 < k2)
    (hput : (run {} ops).log[k1]? = some (.put (.ncd e h))) :
    NcdOK (replay base ((run {} ops).log.take k2)) e h := by
  have h1 : NcdOK (replay base ((run {} ops).log.take (k1 + 1))) e h := by
    rw [take_succ_of_get hput, replay_append]
    exact Or.inl (by simp [replay, DB.apply, DB.write])
  exact (keeps_between ops (k1 + 1) k2 hk).ncdok e h h1

/-- justifications, prevotes and precommits are never removed: durable at one crash point, durable at every
    later one -/
theorem C36_votes_durable (ops : List Op) (k1 k2 : Nat) (hk : k1 ≤ k2) :
    let d1 := replay base ((run {} ops).log.take k1)
    let d2 := replay base ((run {} ops).log.take k2)
    (∀ h, d1.jcp h = true → d2.jcp h = true) ∧ (∀ r s, d1.pv r s = true → d2.pv r s = true) ∧
    (∀ r s, d1.pc r s = true → d2.pc r s = true) :=
  ⟨(keeps_between ops k1 k2 hk).jcp, (keeps_between ops k1 k2 hk).pv, (keeps_between ops k1 k2 hk).pc⟩

/-- **Own-round finalisation (lib/grandpa `finalise`).** At every crash point inside a `gfin id r s` operation:
    if the finalised-hash key of (r, s) has changed, then the justification of the block and the prevotes and
    precommits of the round are already durable — they are written before SetFinalisedHash. -/
theorem C36_own_round_justified (ops : List Op) (id r s i : Nat) :
    let n := run {} ops
    let n' := step {} n (.gfin id r s)
    let crashed := replay base (n'.log.take (n.log.length + i))
    crashed.fin r s ≠ n.db.fin r s →
      crashed.jcp id = true ∧ crashed.pv r s = true ∧ crashed.pc r s = true := by
  intro n n' crashed hne
  obtain ⟨hi, _, hdb⟩ := run_safe ops
  -- the three puts, then the rest of the operation
  let n3 := ((n.put (.jcp id)).put (.pv r s)).put (.pc r s)
  have s3 : Step n n3 0 :=
    ((Step.put (w := .jcp id) (fun _ => trivial)).trans (Step.put (w := .pv r s) (fun _ => trivial))).trans
      (Step.put (w := .pc r s) (fun _ => trivial))
  have hrest : ∃ seg, n'.log = n3.log ++ seg ∧ SafeSeg n3.db seg := by
    show ∃ seg, (step {} n (.gfin id r s)).log = n3.log ++ seg ∧ SafeSeg n3.db seg
    simp only [step, step?, doGfin]
    split
    · exact ⟨[], by simp [n3], trivial⟩
    · have s4 := doFin_step n3 id r s (s3 hi).1
      generalize doFin {} n3 id r s = res at s4
      obtain ⟨n4, ok, str⟩ := res
      obtain ⟨i4, seg, hl, hd4, hs, _⟩ := s4
      have hl' : n4.log = n3.log ++ seg := hl
      have hd4' : n4.db = replay n3.db seg := hd4
      cases ok with
      | false => exact ⟨seg, hl, hs⟩
      | true =>
        obtain ⟨_, seg5, hl5, _, hs5, _⟩ := (Step.put (n := n4) (w := .lfr r) (fun _ => trivial)) i4
        refine ⟨seg ++ seg5, ?_, SafeSeg.append hs ?_⟩
        · show (n4.put (.lfr r)).log = _
          rw [hl5, hl', List.append_assoc]
        · rw [← hd4']; exact hs5
  obtain ⟨seg, hl, hs⟩ := hrest
  have hlog3 : n3.log = n.log ++ [.put (.jcp id), .put (.pv r s), .put (.pc r s)] := by
    simp [n3, Node.put, Node.emit]
  have hcr : crashed = replay n.db (([Entry.put (.jcp id), .put (.pv r s), .put (.pc r s)] ++ seg).take i) := by
    show replay base (n'.log.take (n.log.length + i)) = _
    rw [hl, hlog3, List.append_assoc, List.take_append, replay_append,
      List.take_of_length_le (Nat.le_add_right ..), ← hdb]
    simp
    rfl
  by_cases h3 : i ≤ 3
  · exfalso
    apply hne
    rw [hcr]
    have : i = 0 ∨ i = 1 ∨ i = 2 ∨ i = 3 := by omega
    rcases this with rfl | rfl | rfl | rfl <;> simp [replay, DB.apply, DB.write]
  · have hi3 : ([Entry.put (.jcp id), .put (.pv r s), .put (.pc r s)] ++ seg).take i =
        [Entry.put (.jcp id), .put (.pv r s), .put (.pc r s)] ++ seg.take (i - 3) := by
      rw [List.take_append]
      have : List.take i [Entry.put (.jcp id), .put (.pv r s), .put (.pc r s)] =
          [Entry.put (.jcp id), .put (.pv r s), .put (.pc r s)] :=
        List.take_of_length_le (by simp; omega)
      rw [this]; rfl
    have hdb3 : n3.db = replay n.db [Entry.put (.jcp id), .put (.pv r s), .put (.pc r s)] := by
      simp [n3, Node.put, Node.emit, replay]
    rw [hcr, hi3, replay_append, ← hdb3]
    have k := keeps_replay (SafeSeg.take (i - 3) hs)
    refine ⟨k.jcp _ ?_, k.pv _ _ ?_, k.pc _ _ ?_⟩ <;>
      simp [n3, Node.put, Node.emit, DB.apply, DB.write]

/-! ### the write order before the repair -/

/-- the scenario of the defect: block 1 carries a scheduled change (delay 0, authorities 5) and is finalised
    in round 1 -/
def defectOps : List Op := [.imp 1 0 0 1 (some (.sc 0 5)) false false, .fin 1 1 0]

/-- With the order the code had (IncrementSetID, then setAuthorities, then setChangeSetIDAtBlock) a crash
    right after the ninth write of this scenario — the new current set id — restarts with a current set id 1
    that has neither an authority list nor an activation block. -/
theorem C36_increment_first_counterexample :
    restart (replay base ((run { incrementFirst := true } defectOps).log.take 9)) =
      .ok ⟨1, 0, 1, 100⟩ 1 0 true true (some 1) none none (some 0) := by
  decide

theorem C36_increment_first_not_good :
    ¬ Good (replay base ((run { incrementFirst := true } defectOps).log.take 9)) := by
  rintro ⟨hd, r, s, cur, a, c, lr, h⟩
  rw [C36_increment_first_counterexample] at h
  cases h

/-- the same crash point with the repaired order: the old set is still current and complete -/
example : restart (replay base ((run {} defectOps).log.take 9)) =
    .ok ⟨1, 0, 1, 100⟩ 1 0 true true (some 0) (some 0) (some 0) (some 0) := by decide

/-- and after the whole scenario the new set is current with its authorities and activation block -/
example : restart (run {} defectOps).db =
    .ok ⟨1, 0, 1, 100⟩ 1 0 true true (some 1) (some 5) (some 1) (some 0) := by decide

/-- the log of the scenario: 11 entries, the three authority-set writes last -/
example : (run {} defectOps).log.drop 8 = [.put (.auth 1 5), .put (.change 1 1), .put (.curSet 1)] := by decide

/-- `setHighestRoundAndSetID` compares set ids only: a completed finalisation with a lower round in the same
    set lowers the stored "highest" round (this is the behaviour of a completed operation, not of a crash;
    `C36_finalised_atomic` is therefore stated relative to the operation's own result) -/
theorem C36_round_not_monotone :
    (run {} [.imp 1 0 0 1 none false false, .fin 1 5 0, .imp 2 1 0 2 none false false, .fin 2 3 0]).db.hrs = some (3, 0) := by
  decide

end Gossamer.C36
