import Gossamer.Model.C28
namespace Gossamer.C28
end Gossamer.C28
