/-
C28  The Wasm heap allocator never hands out overlapping memory.

Property (properties.jsonl): for every sequence of allocations and frees, each returned pointer is
8-byte aligned, lies above the heap base with its whole rounded-up block inside linear memory, and
never overlaps another live allocation.  Bytes written to a live allocation are unaffected by other
allocations and frees.  Freeing an invalid or already-freed pointer fails and poisons the allocator,
requests above 32 MiB fail, and memory never grows past 4 GiB.

All theorems are about the model `Gossamer/Model/C28.lean` (mirror of
lib/runtime/allocator/freeing_bump.go, after the `fix:` commit that stops the 32-bit bumper from
wrapping), for every byte store that obeys `Store.Lawful` -- in particular the hash-map store the
compiled driver runs (`hashStore_lawful`).

The guest is modelled by `Op` (alloc / free / store a word / memory.grow); `OpOk` says what a
well-behaved guest does.  Its `free` clause is the exact guard of the design's inherent limitation
(same in Substrate): a pointer the guest does not hold may be freed only if the 8 bytes in front of
it are NOT a well-formed occupied header -- a forged header is accepted by the code
(`C28_bad_free_forged_counterexample`).
-/
import Gossamer.Lib.C28Step
import Gossamer.Lib.C28Hash
namespace Gossamer.C28
variable {S : Store}

/-! ## the invariant holds in every reachable state -/

/-- every operation of the history is permitted in the state in which it is issued -/
def OpsOk (r : Run S) : List Op → Prop
  | [] => True
  | op :: ops => OpOk r op ∧ OpsOk (r.step op).1 ops

theorem C28_inv_init (heapBase pages maxPages : Nat) :
    Inv (Run.init S heapBase pages maxPages) { blocks := [], fl := fun _ => [] } := by
  constructor
  · refine ⟨?_, ?_, Nat.le_refl _, ?_, ?_, ?_, ?_, List.Pairwise.nil⟩
    · show 8 * (((heapBase + HDR - 1) % U32) / 8) % 8 = 0
      exact Nat.mul_mod_right 8 _
    · show 8 * (((heapBase + HDR - 1) % U32) / 8) % 8 = 0
      exact Nat.mul_mod_right 8 _
    · show 8 * (((heapBase + HDR - 1) % U32) / 8) < U32
      have := Nat.mod_lt (heapBase + HDR - 1) (show 0 < U32 by decide)
      omega
    · intro b hb; cases hb
    · intro b hb; cases hb
    · intro e he; cases he
  · intro _
    refine ⟨?_, ?_, ?_, ?_, ?_⟩
    · intro e he; cases he
    · intro o _; rfl
    · intro o _ h hh; cases hh
    · intro o _; exact List.nodup_nil
    · intro p hp; cases hp

/-- one permitted operation preserves the invariant (Allocate, Deallocate, guest stores, growth) -/
theorem C28_inv_preserved (hS : S.Lawful) (r : Run S) (g : Ghost) (hI : Inv r g) (op : Op)
    (hok : OpOk r op) : ∃ g', Inv (r.step op).1 g' := inv_step hS hI op hok

theorem inv_exec (hS : S.Lawful) (ops : List Op) : ∀ (r : Run S), (∃ g, Inv r g) → OpsOk r ops →
    ∃ g, Inv (r.exec ops) g := by
  induction ops with
  | nil => intro r h _; exact h
  | cons op ops ih =>
    intro r ⟨g, hI⟩ hok
    exact ih _ (inv_step hS hI op hok.1) hok.2

/-- the invariant holds after every history of a well-behaved guest, from every heap base and
    every initial / maximal memory size -/
theorem C28_inv_reachable (hS : S.Lawful) (heapBase pages maxPages : Nat) (ops : List Op)
    (hok : OpsOk (Run.init S heapBase pages maxPages) ops) :
    ∃ g, Inv ((Run.init S heapBase pages maxPages).exec ops) g :=
  inv_exec hS ops _ ⟨_, C28_inv_init heapBase pages maxPages⟩ hok

/-! ## what the invariant says about the guest's live allocations -/

/-- a live allocation `(ptr, order)` is well placed -/
def LiveOk (r : Run S) (e : Nat × Nat) : Prop :=
  e.1 % 8 = 0 ∧ r.s.base + 8 ≤ e.1 ∧ e.1 + osize e.2 ≤ r.m.size ∧ e.1 + osize e.2 ≤ r.s.bumper

/-- two allocations, headers included, do not overlap -/
def NoOverlap (a b : Nat × Nat) : Prop :=
  a.1 + osize a.2 + 8 ≤ b.1 ∨ b.1 + osize b.2 + 8 ≤ a.1

theorem live_ok_of_inv {r : Run S} {g : Ghost} (hI : Inv r g) :
    (∀ e ∈ r.live, LiveOk r e) ∧ r.live.Pairwise NoOverlap := by
  obtain ⟨hG, _⟩ := hI
  constructor
  · intro e he
    obtain ⟨e8, eb⟩ := hG.live_blk e he
    obtain ⟨a1, a2, a3, _, a5⟩ := hG.blk _ eb
    unfold bend at a3 a5
    simp only at a1 a2 a3 a5
    exact ⟨by omega, by omega, by omega, by omega⟩
  · refine List.Pairwise.imp_of_mem ?_ hG.live_nodup
    intro a b ha hb hne
    obtain ⟨a8, ab⟩ := hG.live_blk a ha
    obtain ⟨b8, bb⟩ := hG.live_blk b hb
    have hd := blk_sep hG ab bb (by simp only; omega)
    unfold Disj bend at hd
    simp only at hd
    unfold NoOverlap
    omega

/-- **No overlap, for all histories.**  After any history of a well-behaved guest, from any heap
    base: every live allocation is 8-aligned, starts above the (aligned) heap base, has its whole
    rounded-up block inside the linear memory and below the bumper, and no two live allocations
    (headers included) overlap. -/
theorem C28_no_overlap (hS : S.Lawful) (heapBase pages maxPages : Nat) (ops : List Op)
    (hok : OpsOk (Run.init S heapBase pages maxPages) ops) :
    let r := (Run.init S heapBase pages maxPages).exec ops
    (∀ e ∈ r.live, LiveOk r e) ∧ r.live.Pairwise NoOverlap := by
  obtain ⟨g, hI⟩ := C28_inv_reachable hS heapBase pages maxPages ops hok
  exact live_ok_of_inv hI

/-! ## the result of one Allocate -/

theorem step_alloc_ptr {r : Run S} {n p : Nat} (h : (r.step (.alloc n)).2 = .ptr p) :
    ∃ s' m', allocate r.s r.m n = (s', m', .ok p) := by
  rcases hr : allocate r.s r.m n with ⟨s', m', e | q⟩
  · simp only [Run.step, hr] at h; cases h
  · simp only [Run.step, hr] at h
    injection h with h
    subst h
    exact ⟨s', m', rfl⟩

theorem allocate_ok_order {s s' : St} {m m' : Mem S} {n p : Nat} (h : allocate s m n = (s', m', .ok p)) :
    ∃ o, orderFromSize n = some o := by
  by_cases hp : s.poisoned = true
  · unfold allocate at h; rw [if_pos hp] at h; cases h
  · have hp : s.poisoned = false := by
      cases hq : s.poisoned with
      | true => exact absurd hq hp
      | false => rfl
    rcases allocate_cases s m n hp with ⟨_, _, heq, _⟩ | ⟨_, o, _, _, ho, _⟩ | ⟨_, _, o, _, ho, _⟩
    · rw [heq] at h; cases h
    · exact ⟨o, ho⟩
    · exact ⟨o, ho⟩

/-- **Result of Allocate**, in any reachable state: a returned pointer `p` is 8-aligned,
    `p - 8 ≥ heap base`, the block of `8 << order` bytes holds the request, lies inside the (possibly
    grown) memory, and is disjoint (headers included) from every allocation that was live before. -/
theorem C28_alloc_result (hS : S.Lawful) (r : Run S) (g : Ghost) (hI : Inv r g) (n p : Nat)
    (h : (r.step (.alloc n)).2 = .ptr p) :
    ∃ o, orderFromSize n = some o ∧ n ≤ osize o ∧ o < 23 ∧
      p % 8 = 0 ∧ r.s.base + 8 ≤ p ∧ p + osize o ≤ (r.step (.alloc n)).1.m.size ∧
      ∀ e ∈ r.live, NoOverlap (p, o) e := by
  obtain ⟨s', m', heq⟩ := step_alloc_ptr h
  obtain ⟨o, ho⟩ := allocate_ok_order heq
  obtain ⟨_, ho23, hn, _⟩ := orderFromSize_spec n o ho
  obtain ⟨g', hI'⟩ := inv_alloc hS hI n
  have hlive : (r.step (.alloc n)).1.live = (p, o) :: r.live := by
    rw [step_alloc_ok heq, ho]; rfl
  have hbase : (r.step (.alloc n)).1.s.base = r.s.base := by
    obtain ⟨hG', _⟩ := hI'
    by_cases hp : r.s.poisoned = true
    · unfold allocate at heq; rw [if_pos hp] at heq; cases heq
    · have hp : r.s.poisoned = false := by
        cases hq : r.s.poisoned with
        | true => exact absurd hq hp
        | false => rfl
      rw [step_alloc_ok heq]
      rcases allocate_cases r.s r.m n hp with ⟨_, _, h1, _⟩ | ⟨_, _, _, h1, _, _, _, _, _, hb, _⟩ |
        ⟨_, _, _, h1, _, _, _, _, _, _, _, _, hb, _⟩
      · rw [h1] at heq; cases heq
      · rw [h1] at heq; injection heq with e1 _; rw [← e1]; exact hb
      · rw [h1] at heq; injection heq with e1 _; rw [← e1]; exact hb
  obtain ⟨hall, hpw⟩ := live_ok_of_inv hI'
  rw [hlive] at hall hpw
  obtain ⟨a1, a2, a3, _⟩ := hall (p, o) (List.mem_cons_self ..)
  rw [List.pairwise_cons] at hpw
  rw [hbase] at a2
  exact ⟨o, ho, hn, ho23, a1, a2, a3, hpw.1⟩

/-! ## the host-function layer -/

theorem hostMalloc_val {r : Run S} {n p : Nat} (h : (hostMalloc r n).2 = .val p) :
    (r.step (.alloc n)).2 = .ptr p ∧ (hostMalloc r n).1 = (r.step (.alloc n)).1 := by
  unfold hostMalloc at *
  rcases hs : r.step (.alloc n) with ⟨r', o⟩
  rw [hs] at h
  cases o with
  | ptr q => simp only at h; injection h with h; subst h; exact ⟨rfl, rfl⟩
  | ok => simp only at h; cases h
  | err e => simp only at h; cases h
  | wrote b => simp only at h; cases h
  | grew b => simp only at h; cases h

/-- **Host malloc** (`ext_allocator_malloc_version_1`): whenever the host function returns a pointer
    to the guest (instead of trapping), the pointer satisfies everything `C28_alloc_result` says, and
    the state is the one `Allocate` produced. -/
theorem C28_host_malloc_result (hS : S.Lawful) (r : Run S) (g : Ghost) (hI : Inv r g) (n p : Nat)
    (h : (hostMalloc r n).2 = .val p) :
    (∃ g', Inv (hostMalloc r n).1 g') ∧
    ∃ o, orderFromSize n = some o ∧ n ≤ osize o ∧ o < 23 ∧
      p % 8 = 0 ∧ r.s.base + 8 ≤ p ∧ p + osize o ≤ (hostMalloc r n).1.m.size ∧
      ∀ e ∈ r.live, NoOverlap (p, o) e := by
  obtain ⟨h1, h2⟩ := hostMalloc_val h
  rw [h2]
  exact ⟨inv_alloc hS hI n, C28_alloc_result hS r g hI n p h1⟩

/-- the host functions trap exactly when the allocator returns an error, and change the state
    exactly as `Allocate` / `Deallocate` do (so poisoning, `C28_double_free`, ... carry over) -/
theorem C28_host_traps (r : Run S) (x : Nat) :
    ((hostMalloc r x).1 = (r.step (.alloc x)).1 ∧
      ∀ e, (hostMalloc r x).2 = .panic e ↔ (r.step (.alloc x)).2 = .err e) ∧
    ((hostFree r x).1 = (r.step (.free x)).1 ∧
      ∀ e, (hostFree r x).2 = .panic e ↔ (r.step (.free x)).2 = .err e) := by
  constructor
  · unfold hostMalloc
    rcases hr : allocate r.s r.m x with ⟨s', m', e' | q⟩
    · simp only [Run.step, hr, true_and]
      intro e; constructor <;> (intro h; injection h with h; rw [h])
    · simp only [Run.step, hr, true_and]
      intro e; constructor <;> (intro h; cases h)
  · unfold hostFree
    rcases hr : deallocate r.s r.m x with ⟨s', m', e' | q⟩
    · simp only [Run.step, hr, true_and]
      intro e; constructor <;> (intro h; injection h with h; rw [h])
    · simp only [Run.step, hr, true_and]
      intro e; constructor <;> (intro h; cases h)

/-! ## frame: Allocate and Deallocate never write into a live allocation -/

/-- **Frame.**  In a reachable state, an `alloc` or a permitted `free` leaves every byte of every
    live allocation (the whole rounded-up block) unchanged. -/
theorem C28_frame (hS : S.Lawful) (r : Run S) (g : Ghost) (hI : Inv r g) (op : Op)
    (hop : (∃ n, op = .alloc n) ∨ (∃ p, op = .free p)) (hok : OpOk r op) :
    ∀ e ∈ r.live, ∀ a, e.1 ≤ a → a < e.1 + osize e.2 →
      byteAt (r.step op).1.m.bytes a = byteAt r.m.bytes a := by
  obtain ⟨hG, hH⟩ := hI
  intro e he a ha1 ha2
  obtain ⟨e8, eb⟩ := hG.live_blk e he
  obtain ⟨_, _, eb3, _, _⟩ := hG.blk _ eb
  unfold bend at eb3
  simp only at eb3
  rcases hop with ⟨n, rfl⟩ | ⟨p, rfl⟩
  · by_cases hp : r.s.poisoned = true
    · have : allocate r.s r.m n = (r.s, r.m, .error .poisoned) := by
        unfold allocate; rw [if_pos hp]
      rw [step_alloc_err this]
    have hp : r.s.poisoned = false := by
      cases hq : r.s.poisoned with
      | true => exact absurd hq hp
      | false => rfl
    have hH := hH hp
    rcases allocate_cases r.s r.m n hp with ⟨s', e', heq, _⟩ |
      ⟨s', o, next, heq, ho, hne, hfit, hrd, _⟩ | ⟨s', m', o, heq, ho, _⟩
    · rw [step_alloc_err heq]
    · rw [step_alloc_ok heq]
      obtain ⟨_, ho23, _, _⟩ := orderFromSize_spec n o ho
      obtain ⟨rest, hfl, _, _⟩ := Chain_cons_of_ne_nil (hH.chain o ho23) hne
      obtain ⟨hlb, hlive⟩ := hH.fl_blk o ho23 (r.s.heads o) (by rw [hfl]; exact List.mem_cons_self ..)
      have hd := blk_sep hG eb hlb (by have := hlive e he; simp only; omega)
      unfold Disj bend at hd
      simp only at hd
      show byteAt (put64 r.m.bytes (r.s.heads o) (OCC + o)) a = byteAt r.m.bytes a
      exact byteAt_put64_other hS _ _ _ _ (by omega)
    · rw [step_alloc_ok heq]
      show byteAt (put64 r.m.bytes r.s.bumper (OCC + o)) a = byteAt r.m.bytes a
      exact byteAt_put64_other hS _ _ _ _ (by omega)
  · by_cases hp : r.s.poisoned = true
    · have : deallocate r.s r.m p = (r.s, r.m, .error .poisoned) := by
        unfold deallocate; rw [if_pos hp]
      rw [step_free_err this]
    have hp : r.s.poisoned = false := by
      cases hq : r.s.poisoned with
      | true => exact absurd hq hp
      | false => rfl
    rcases deallocate_cases r.s r.m p hp with ⟨s', e', heq, _⟩ | ⟨s', o, res, heq, hocc, _, _, _, _, hres⟩
    · rw [step_free_err heq]
    · have ⟨o', hlive⟩ : ∃ o, (p, o) ∈ r.live := by
        rcases hok with h | hno
        · exact h
        · exact absurd hocc hno
      obtain ⟨p8, pb⟩ := hG.live_blk _ hlive
      simp only at p8 pb
      have hsep : a < p - 8 ∨ p - 8 + 8 ≤ a := by
        by_cases hpe : e.1 = p
        · omega
        · have hd := blk_sep hG eb pb (by simp only; omega)
          unfold Disj bend at hd
          simp only at hd
          have := osize_pos o'
          omega
      have key : byteAt (put64 r.m.bytes (p - 8) (r.s.heads o)) a = byteAt r.m.bytes a :=
        byteAt_put64_other hS _ _ _ _ hsep
      rcases hres with ⟨hr, _⟩ | ⟨hr, _⟩
      · rw [hr] at heq; rw [step_free_ok heq]; exact key
      · rw [hr] at heq; rw [step_free_err heq]; exact key

/-! ## invalid frees -/

/-- **Bad free (exact guard).**  In ANY state of a non-poisoned allocator: if the 8 bytes in front of
    `p` are not a well-formed occupied header (`p < 8`, outside the memory, occupied bit clear, or
    order ≥ 23), `Deallocate(p)` fails, writes nothing and poisons the allocator. -/
theorem C28_bad_free (s : St) (m : Mem S) (p : Nat) (hp : s.poisoned = false) (hno : ¬ OccAt m p) :
    ∃ s' e, deallocate s m p = (s', m, .error e) ∧ s'.poisoned = true := by
  rcases deallocate_cases s m p hp with ⟨s', e, heq, hpo, _⟩ | ⟨_, _, _, _, hocc, _⟩
  · exact ⟨s', e, heq, hpo⟩
  · exact absurd hocc hno

/-- a header that sits on a free list is not a well-formed occupied header -/
theorem not_occ_of_lt (m : Mem S) (p : Nat) (h : le64 m.bytes (p - 8) < U32) : ¬ OccAt m p := by
  intro hocc
  have := hocc.2.2.1
  rw [Nat.div_eq_of_lt h] at this
  cases this

/-- **Double free.**  In a reachable, non-poisoned state every pointer that was freed and not handed
    out again since is rejected by `Deallocate`: error, nothing written, allocator poisoned. -/
theorem C28_double_free (r : Run S) (g : Ghost) (hI : Inv r g) (hp : r.s.poisoned = false)
    (p : Nat) (hf : p ∈ r.freed) :
    ∃ s' e, deallocate r.s r.m p = (s', r.m, .error e) ∧ s'.poisoned = true := by
  have hH := hI.2 hp
  obtain ⟨_, o, ho, hm⟩ := hH.freed p hf
  exact C28_bad_free r.s r.m p hp (not_occ_of_lt r.m p (Chain_mem_free (hH.chain o ho) _ hm))

/-- `freed` really is "freed and not handed out again": after a successful `free p` the pointer is
    on it (so the next `free p` fails, by `C28_double_free` and `C28_inv_preserved`) -/
theorem C28_freed_after_free (r : Run S) (p : Nat) (h : (r.step (.free p)).2 = .ok) :
    p ∈ (r.step (.free p)).1.freed := by
  rcases hr : deallocate r.s r.m p with ⟨s', m', e | u⟩
  · simp only [Run.step, hr] at h; cases h
  · simp only [Run.step, hr]; exact List.mem_cons_self ..

/-- **Poison is sticky**: a poisoned allocator refuses every call and changes nothing. -/
theorem C28_poisoned_sticky (s : St) (m : Mem S) (x : Nat) (hp : s.poisoned = true) :
    allocate s m x = (s, m, .error .poisoned) ∧ deallocate s m x = (s, m, .error .poisoned) := by
  constructor
  · unfold allocate; rw [if_pos hp]
  · unfold deallocate; rw [if_pos hp]

/-- **Every error poisons**: whenever `Allocate` or `Deallocate` returns an error the allocator is
    poisoned afterwards. -/
theorem C28_error_poisons (s s' : St) (m m' : Mem S) (x : Nat) (e : Err) :
    (allocate s m x = (s', m', .error e) → s'.poisoned = true) ∧
    (deallocate s m x = (s', m', .error e) → s'.poisoned = true) := by
  constructor
  · intro h
    unfold allocate at h
    split at h
    · rename_i hp; injection h with h1 _; rw [← h1]; exact hp
    · unfold poisonOnErr at h
      split at h
      · injection h with h1 _; rw [← h1]
      · injection h with _ h2; injection h2 with _ h3; cases h3
  · intro h
    unfold deallocate at h
    split at h
    · rename_i hp; injection h with h1 _; rw [← h1]; exact hp
    · unfold poisonOnErr at h
      split at h
      · injection h with h1 _; rw [← h1]
      · injection h with _ h2; injection h2 with _ h3; cases h3

/-! ## limits -/

/-- **Too large**: a request above 32 MiB always fails (and nothing is written). -/
theorem C28_too_large (s : St) (m : Mem S) (n : Nat) (h : MAX_ALLOC < n) :
    ∃ s' e, allocate s m n = (s', m, .error e) ∧ s'.poisoned = true := by
  by_cases hp : s.poisoned = true
  · exact ⟨s, .poisoned, (C28_poisoned_sticky s m n hp).1, hp⟩
  · have hp : s.poisoned = false := by
      cases hq : s.poisoned with
      | true => exact absurd hq hp
      | false => rfl
    rcases allocate_cases s m n hp with ⟨s', e, heq, hpo, _⟩ | ⟨_, o, _, _, ho, _⟩ | ⟨_, _, o, _, ho, _⟩
    · exact ⟨s', e, heq, hpo⟩
    · have := (orderFromSize_spec n o ho).1; omega
    · have := (orderFromSize_spec n o ho).1; omega

/-- ... and exactly the requests up to 32 MiB get an order -/
theorem C28_order_spec (n : Nat) :
    (MAX_ALLOC < n → orderFromSize n = none) ∧
    (∀ o, orderFromSize n = some o → n ≤ MAX_ALLOC ∧ o < 23 ∧ n ≤ osize o ∧ (o = 0 ∨ osize o < 2 * n)) :=
  ⟨(orderFromSize_none n).mpr, orderFromSize_spec n⟩

/-- **Memory limit**: whatever the environment would allow (`maxPages`), `Allocate` never grows a
    memory of at most 65536 pages (4 GiB) beyond 65536 pages; `Deallocate` never grows it. -/
theorem C28_max_memory (s : St) (m : Mem S) (x : Nat) (h : m.pages ≤ MAX_PAGES) :
    (allocate s m x).2.1.pages ≤ MAX_PAGES ∧ (deallocate s m x).2.1.pages = m.pages := by
  constructor
  · by_cases hp : s.poisoned = true
    · rw [(C28_poisoned_sticky s m x hp).1]; exact h
    · have hp : s.poisoned = false := by
        cases hq : s.poisoned with
        | true => exact absurd hq hp
        | false => rfl
      rcases allocate_cases s m x hp with ⟨_, _, heq, _⟩ | ⟨_, _, _, heq, _⟩ |
        ⟨_, m', _, heq, _, _, _, _, _, _, hm', _⟩
      · rw [heq]; exact h
      · rw [heq]; exact h
      · rw [heq]
        rcases hm' with e | e
        · rw [e]; exact h
        · exact e
  · by_cases hp : s.poisoned = true
    · rw [(C28_poisoned_sticky s m x hp).2]
    · have hp : s.poisoned = false := by
        cases hq : s.poisoned with
        | true => exact absurd hq hp
        | false => rfl
      rcases deallocate_cases s m x hp with ⟨_, _, heq, _⟩ | ⟨_, _, _, heq, _⟩
      · rw [heq]
      · rw [heq]

/-- for whole histories without guest-initiated growth: the memory never exceeds 4 GiB -/
theorem C28_max_memory_run (ops : List Op) : ∀ (r : Run S), r.m.pages ≤ MAX_PAGES →
    (∀ op ∈ ops, ∀ d, op ≠ .grow d) → (r.exec ops).m.pages ≤ MAX_PAGES := by
  induction ops with
  | nil => intro r h _; exact h
  | cons op ops ih =>
    intro r h hng
    have key : (r.step op).1.m.pages ≤ MAX_PAGES := by
      cases op with
      | alloc n =>
        have := (C28_max_memory r.s r.m n h).1
        rcases hr : allocate r.s r.m n with ⟨s', m', e | q⟩
        · rw [hr] at this; rw [step_alloc_err hr]; exact this
        · rw [hr] at this; rw [step_alloc_ok hr]; exact this
      | free p =>
        have := (C28_max_memory r.s r.m p h).2
        rcases hr : deallocate r.s r.m p with ⟨s', m', e | q⟩
        · rw [hr] at this; rw [step_free_err hr]; show m'.pages ≤ MAX_PAGES; simp only at this; omega
        · rw [hr] at this; rw [step_free_ok hr]; show m'.pages ≤ MAX_PAGES; simp only at this; omega
      | poke a v =>
        rw [step_poke]; split
        · exact h
        · exact h
      | grow d => exact absurd rfl (hng _ (List.mem_cons_self ..) d)
    exact ih _ key (fun op' h' => hng op' (List.mem_cons_of_mem _ h'))

/-! ## the heap base -/

/-- Full statement wanted: the aligned base used by the allocator is never below the heap base it
    was given (`heapBase ≤ (newAlloc heapBase).base` for every 32-bit `heapBase`).  Proved for
    `heapBase + 7 < 2^32`; the seven values above wrap (known finding `heapbase-wrap`). -/
theorem C28_heap_base_partial (heapBase : Nat) (h : heapBase + 7 < U32) :
    heapBase ≤ (newAlloc heapBase).base ∧ (newAlloc heapBase).base < heapBase + 8 := by
  show heapBase ≤ 8 * (((heapBase + HDR - 1) % U32) / 8) ∧ 8 * (((heapBase + HDR - 1) % U32) / 8) < heapBase + 8
  have : (heapBase + HDR - 1) % U32 = heapBase + 7 := Nat.mod_eq_of_lt (by c28_omega)
  rw [this]
  omega

theorem C28_heap_base_counterexample :
    (4294967295 : Nat) < U32 ∧ ¬ (4294967295 ≤ (newAlloc 4294967295).base) := by decide

/-! ## the inherent limitation, and that the hypotheses are satisfiable -/

/-- a history of a well-behaved guest (on the function store); the second `free 24` is a double free,
    which `OpOk` permits because the header in front of 24 is then a free header: it fails and poisons -/
def exOps : List Op := [.alloc 100, .alloc 8, .poke 32 7, .free 24, .alloc 65, .free 24, .free 24, .grow 1]

example : (((Run.init funStore 13 1 16).exec [.alloc 100, .alloc 8]).live) = [(160, 0), (24, 4)] := by
  decide

/-- the hypotheses of the history theorems are satisfiable -/
theorem C28_opsok_example : OpsOk (Run.init funStore 13 1 16) exOps := by
  refine ⟨trivial, trivial, ?_, ?_, trivial, ?_, ?_, trivial, trivial⟩
  · exact Or.inr (Or.inr ⟨(24, 4), by decide, by decide, by decide⟩)
  · exact Or.inl ⟨4, by decide⟩
  · exact Or.inl ⟨4, by decide⟩
  · refine Or.inr ?_
    intro h
    have := h.2.2.1
    revert this
    decide

/-- ... and the double free of `exOps` is rejected: the run ends poisoned, the other allocation is
    still live -/
example : ((Run.init funStore 13 1 16).exec exOps).s.poisoned = true ∧
    ((Run.init funStore 13 1 16).exec exOps).live = [(160, 0)] := by decide

/-- the guest forges an occupied header inside a block it holds and frees the address behind it -/
def forgedRun : Run funStore :=
  (Run.init funStore 0 1 1).exec [.alloc 32, .poke 16 OCC, .free 24, .alloc 8]

/-- **The inherent limitation** (same in Substrate): the pointer 24 was never returned by `Allocate`,
    yet `Deallocate` accepts it because the guest wrote a well-formed occupied header in front of it,
    and the next allocation of that order is handed out INSIDE the live allocation at 8.  This is why
    `OpOk` demands that a pointer the guest does not hold has no well-formed occupied header in front
    of it: that hypothesis of `C28_no_overlap` cannot be dropped. -/
theorem C28_bad_free_forged_counterexample :
    forgedRun.s.poisoned = false ∧ forgedRun.live = [(24, 0), (8, 2)] ∧ ¬ NoOverlap (24, 0) (8, 2) := by
  refine ⟨by decide, by decide, ?_⟩
  unfold NoOverlap
  decide

end Gossamer.C28
