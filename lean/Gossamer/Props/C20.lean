import Gossamer.Model.C20
import Gossamer.Lib.C20Spec
namespace Gossamer.C20
end Gossamer.C20
