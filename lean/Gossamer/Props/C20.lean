/-
C20 – GRANDPA round state follows the protocol definitions.

Model: `Gossamer/Model/C20.lean` – `Round` (round.go, context.go, bitfield.go) over the UNCOMPRESSED vote graph
       (one cumulative vote mask per block).  The compressed representation of vote_graph.go (entries with
       ancestor edges, `introduceBranch`, `ghostFindMergePoint`) is not modelled; it is tied to this layer by
       the correspondence run only.
Bits:  `Gossamer/Lib/C20Bitfield.lean` – model of bitfield.go (64-bit words, big-endian bit order); `C20_bitfield_*`
       prove that it refines the Nat masks of the round model; tied to bitfield.go by `bf` cases.
Spec:  `Gossamer/Lib/C20Spec.lean` – the GRANDPA paper definitions as executable functions of the SET of
       imported signed votes: `weightFor`, `superm`, `specGhost` (g), `specFinalized`, `possible`,
       `specEstimate` (E), `specCompletable`.  They are what the driver prints as `spec=`.
       `C20_spec_*` below state their relational meaning (highest block with …).

All theorems quantify over every well-formed block tree `t`, every weighted voter list `ws` with positive total
weight, and every import history `ops` (any order, duplicates, double/triple votes, votes of ids outside the
voter set).  `run t ws ops` is the round after importing `ops` one by one (incremental, memoised).

Hypotheses of the `_partial` theorems = exactly the excluded regions:
* `ValidOps t ops`        – every target is a block of the tree.  (A target outside the chain makes the real
                            import return an error after the tracker was already updated; modelled and tied by
                            the harness; the paper has no such votes.)
* `tolerant ws ops false` – at most f = total − threshold prevote weight equivocates: the domain on which the
                            paper defines g(S).  Outside it two siblings can both have a supermajority and the
                            round's answer depends on the import order: `C20_ghost_intolerant_counterexample`.
* `tolerant ws ops true`  – same for precommits; needed for estimate/completable only.  Outside it Go's unsigned
                            `toleratedEquivocations - currentEquivocations` wraps around:
                            `C20_estimate_intolerant_counterexample`.
* `NoGap ws ops`          – precommit weight ≥ threshold or ≤ 2f (always true when total = 3f+1).  In between the
                            real code short-cuts `estimate = prevote GHOST`, `completable = false`, which is NOT the
                            paper definition: known finding `estimate-shortcut-below-threshold`,
                            `C20_estimate_shortcut_counterexample`.
* `2 * total ws < 2^64`   – no uint64 overflow in `possibleToPrecommit`.
`C20_hypotheses_satisfiable` exhibits a non-trivial history satisfying all of them.
-/
import Gossamer.Lib.C20SpecEq
import Gossamer.Lib.C20BitfieldWeight
import Gossamer.Lib.C20GraphSim
import Gossamer.Lib.C20GraphRoundSim
import Gossamer.Lib.C20GraphCompl
namespace Gossamer.C20

variable {t : Tree} {ws : List Nat}

/-! ## bookkeeping: every history, no side condition -/

/-- The weight the round computes for block `B` in a phase (`context.Weight` of the cumulative vote node with the
equivocation bits merged in) is the paper's weight – voters with a vote for a block ≥ B plus ALL equivocators –
for every block, also blocks nobody voted for; `currentWeight` is the weight of the voters that voted and
`EquivocationWeight` the weight of the voters with two different signed votes.  Every import history. -/
theorem C20_weight_eq_spec (t : Tree) (ws : List Nat) (ops : List Op) (ph : Bool) (B : Nat) :
    nodeWeight ws (run t ws ops).eqv ((run t ws ops).cum B) ph = weightFor t ws ops ph B ∧
    (run t ws ops).cur ph = voteWeight ws ops ph ∧
    maskWeight ws (run t ws ops).eqv (phN ph) = equivWeight ws ops ph :=
  rel_weight_eq_spec t ws ops ph B

/-- An equivocator's weight counts towards every block: the weight of any block `B` (in the tree or not, voted
for or not) is at least the weight of all equivocators of the phase, and a voter of the set that equivocated has
its bit in the mask that is weighed for `B`. -/
theorem C20_equivocator_counts_everywhere (t : Tree) (ws : List Nat) (ops : List Op) (ph : Bool) (B : Nat) :
    equivWeight ws ops ph ≤ nodeWeight ws (run t ws ops).eqv ((run t ws ops).cum B) ph ∧
    ∀ v, v < ws.length → isEquiv ops ph v = true →
      ((run t ws ops).cum B ||| (run t ws ops).eqv).testBit (bitPos v (phN ph)) = true :=
  rel_equivocator_counts_everywhere t ws ops ph B

/-- Import order, repetitions and multiplicities do not matter for the bookkeeping: after importing any
permutation of the same votes the current weights, the equivocation bitfield and the weight of every block in
both phases are the same.  (The trackers and the per-block bits themselves DO depend on the order – they remember
a voter's first vote – which is why the statement is about weights.) -/
theorem C20_import_order_independent (t : Tree) (ws : List Nat) {ops ops' : List Op} (hp : ops.Perm ops') :
    (∀ ph, (run t ws ops).cur ph = (run t ws ops').cur ph) ∧
    (run t ws ops).eqv = (run t ws ops').eqv ∧
    (∀ ph B, nodeWeight ws (run t ws ops).eqv ((run t ws ops).cum B) ph
           = nodeWeight ws (run t ws ops').eqv ((run t ws ops').cum B) ph) :=
  rel_import_order_independent t ws hp

/-! ## what the executable specification means (paper wording) -/

/-- `specGhost` is g(S): it has a supermajority, every block with a supermajority is an ancestor-or-equal of it,
and it has the highest block number among them; `none` iff no block has a supermajority. -/
theorem C20_spec_ghost_meaning (h : t.WF) (h0 : 0 < total ws) (ops : List Op) (ph : Bool)
    (htol : tolerant ws ops ph = true) :
    IsGhost t ws ops ph (specGhost t ws ops ph) ∧
    ∀ g, specGhost t ws ops ph = some g → ∀ B, superm t ws ops ph B = true → depth t B ≤ depth t g := by
  have hg := specGhost_isGhost h h0 ops ph htol
  refine ⟨hg, ?_⟩
  intro g hgs B hB
  rw [hgs] at hg
  exact rel_ghost_highest_number h hg B hB

/-- `specFinalized` is the highest block with a supermajority of both prevotes and precommits;
`specEstimate` is the deepest block on the chain of g(prevotes) for which a precommit supermajority is possible;
`specCompletable` says: E is defined and (E ≠ g, or no child of g – in the tree or not yet seen – is possible). -/
theorem C20_spec_meaning (h : t.WF) (h0 : 0 < total ws) (ops : List Op)
    (htol : tolerant ws ops false = true) :
    IsFinalized t ws ops (specFinalized t ws ops) ∧
    IsEstimate t ws ops (specGhost t ws ops false) (specEstimate t ws ops) ∧
    (specCompletable t ws ops = true ↔
      SpecCompletable t ws ops (specGhost t ws ops false) (specEstimate t ws ops)) :=
  ⟨specFinalized_isFinalized h h0 ops htol, specEstimate_isEstimate h h0 ops htol, specCompletable_iff t ws ops⟩

/-! ## the round state equals the paper definitions -/

/-- The memoised prevote GHOST (computed incrementally, restarting from the previous ghost) is g(prevotes).
Full statement (no tolerance hypothesis) is false: `C20_ghost_intolerant_counterexample`. -/
theorem C20_ghost_eq_spec_partial (h : t.WF) (h0 : 0 < total ws) (ops : List Op)
    (hv : ValidOps t ops) (htol : tolerant ws ops false = true) :
    (run t ws ops).ghost = specGhost t ws ops false :=
  IsGhost_unique h (rel_ghost_eq_spec_partial h h0 ops hv htol) (specGhost_isGhost h h0 ops false htol)

/-- `Round.PrecommitGHOST()` on the state after `ops` – whatever an earlier call memoised (a block that had a
precommit supermajority, or nothing) – returns g(precommits). -/
theorem C20_precommit_ghost_eq_spec_partial (h : t.WF) (h0 : 0 < total ws) (ops : List Op)
    (htol : tolerant ws ops true = true) (memo : Option Nat)
    (hmemo : ∀ m, memo = some m → superm t ws ops true m = true) :
    (precommitGhost t ws { run t ws ops with pcGhost := memo }).pcGhost = specGhost t ws ops true :=
  IsGhost_unique h (rel_precommit_ghost_eq_spec_partial h h0 ops htol memo hmemo)
    (specGhost_isGhost h h0 ops true htol)

/-- `Round.finalized` is the paper's finalized block – for ANY precommit set (tolerant or not). -/
theorem C20_finalized_eq_spec_partial (h : t.WF) (h0 : 0 < total ws) (ops : List Op)
    (hv : ValidOps t ops) (htol : tolerant ws ops false = true) :
    (run t ws ops).fin = specFinalized t ws ops :=
  IsFinalized_unique h (rel_finalized_eq_spec_partial h h0 ops hv htol) (specFinalized_isFinalized h h0 ops htol)

/-- `Round.estimate` is E of the paper.
Full statement is false without `NoGap` (`C20_estimate_shortcut_counterexample`) and without precommit tolerance
(`C20_estimate_intolerant_counterexample`). -/
theorem C20_estimate_eq_spec_partial (h : t.WF) (h0 : 0 < total ws) (ops : List Op)
    (hv : ValidOps t ops) (htol : tolerant ws ops false = true) (htolc : tolerant ws ops true = true)
    (hgap : NoGap ws ops) (hov : 2 * total ws < MOD) :
    (run t ws ops).est = specEstimate t ws ops := by
  have h1 := rel_estimate_eq_spec_partial h h0 ops hv htol htolc hgap hov
  rw [C20_ghost_eq_spec_partial h h0 ops hv htol] at h1
  exact IsEstimate_unique h h1 (specEstimate_isEstimate h h0 ops htol)

/-- `Round.completable` is the paper's completability (same excluded regions as the estimate). -/
theorem C20_completable_eq_spec_partial (h : t.WF) (h0 : 0 < total ws) (ops : List Op)
    (hv : ValidOps t ops) (htol : tolerant ws ops false = true) (htolc : tolerant ws ops true = true)
    (hgap : NoGap ws ops) (hov : 2 * total ws < MOD) :
    (run t ws ops).compl = specCompletable t ws ops := by
  have h1 := rel_completable_eq_spec_partial h h0 ops hv htol htolc hgap hov
  rw [C20_ghost_eq_spec_partial h h0 ops hv htol,
      C20_estimate_eq_spec_partial h h0 ops hv htol htolc hgap hov] at h1
  exact Bool.eq_iff_iff.2 (h1.trans (specCompletable_iff t ws ops).symm)

/-! ## the whole observable state is a function of the vote SET -/

theorem equivWeight_perm (ws : List Nat) {ops ops' : List Op} (hp : ops.Perm ops') (ph : Bool) :
    equivWeight ws ops ph = equivWeight ws ops' ph :=
  wsum_congr (fun v _ => isEquiv_perm hp ph v)

theorem voteWeight_perm (ws : List Nat) {ops ops' : List Op} (hp : ops.Perm ops') (ph : Bool) :
    voteWeight ws ops ph = voteWeight ws ops' ph :=
  wsum_congr (fun v _ => hasVote_perm hp ph v)

theorem possible_perm (t : Tree) (ws : List Nat) {ops ops' : List Op} (hp : ops.Perm ops') (ph : Bool) :
    possible t ws ops ph = possible t ws ops' ph := by
  funext B
  unfold possible againstWeight
  rw [equivWeight_perm ws hp]
  have : wsum ws (fun v => hasVote ops ph v && !isEquiv ops ph v && !votesGE t ops ph v B)
       = wsum ws (fun v => hasVote ops' ph v && !isEquiv ops' ph v && !votesGE t ops' ph v B) :=
    wsum_congr (fun v _ => by rw [hasVote_perm hp, isEquiv_perm hp, votesGE_perm t hp])
  rw [this]

theorem superm_perm_fun (t : Tree) (ws : List Nat) {ops ops' : List Op} (hp : ops.Perm ops') (ph : Bool) :
    superm t ws ops ph = superm t ws ops' ph := by
  funext B; exact superm_perm t ws hp ph B

/-- the paper definitions do not see the import order (no side condition) -/
theorem C20_spec_order_independent (t : Tree) (ws : List Nat) {ops ops' : List Op} (hp : ops.Perm ops') :
    (∀ ph, specGhost t ws ops ph = specGhost t ws ops' ph) ∧
    specFinalized t ws ops = specFinalized t ws ops' ∧
    specEstimate t ws ops = specEstimate t ws ops' ∧
    specCompletable t ws ops = specCompletable t ws ops' := by
  have hg : ∀ ph, specGhost t ws ops ph = specGhost t ws ops' ph := by
    intro ph; unfold specGhost; rw [superm_perm_fun t ws hp]
  have he : specEstimate t ws ops = specEstimate t ws ops' := by
    unfold specEstimate; rw [hg false, possible_perm t ws hp]
  refine ⟨hg, ?_, he, ?_⟩
  · unfold specFinalized; rw [superm_perm_fun t ws hp false, superm_perm_fun t ws hp true]
  · unfold specCompletable unseenImpossible
    rw [hg false, he, possible_perm t ws hp, voteWeight_perm ws hp]

/-- State after importing a list = state after importing any permutation of it (prevote GHOST, finalized,
estimate, completable) – on the region where the round follows the definitions. -/
theorem C20_state_order_independent_partial (h : t.WF) (h0 : 0 < total ws) {ops ops' : List Op}
    (hp : ops.Perm ops') (hv : ValidOps t ops) (htol : tolerant ws ops false = true)
    (htolc : tolerant ws ops true = true) (hgap : NoGap ws ops) (hov : 2 * total ws < MOD) :
    (run t ws ops).ghost = (run t ws ops').ghost ∧ (run t ws ops).fin = (run t ws ops').fin ∧
    (run t ws ops).est = (run t ws ops').est ∧ (run t ws ops).compl = (run t ws ops').compl := by
  have hv' : ValidOps t ops' := fun o ho => hv o (hp.mem_iff.2 ho)
  have htol' : tolerant ws ops' false = true := by
    unfold tolerant at *; rw [← equivWeight_perm ws hp]; exact htol
  have htolc' : tolerant ws ops' true = true := by
    unfold tolerant at *; rw [← equivWeight_perm ws hp]; exact htolc
  have hgap' : NoGap ws ops' := by
    unfold NoGap at *; rw [← voteWeight_perm ws hp]; exact hgap
  obtain ⟨s1, s2, s3, s4⟩ := C20_spec_order_independent t ws hp
  refine ⟨?_, ?_, ?_, ?_⟩
  · rw [C20_ghost_eq_spec_partial h h0 ops hv htol, C20_ghost_eq_spec_partial h h0 ops' hv' htol', s1]
  · rw [C20_finalized_eq_spec_partial h h0 ops hv htol, C20_finalized_eq_spec_partial h h0 ops' hv' htol', s2]
  · rw [C20_estimate_eq_spec_partial h h0 ops hv htol htolc hgap hov,
        C20_estimate_eq_spec_partial h h0 ops' hv' htol' htolc' hgap' hov, s3]
  · rw [C20_completable_eq_spec_partial h h0 ops hv htol htolc hgap hov,
        C20_completable_eq_spec_partial h h0 ops' hv' htol' htolc' hgap' hov, s4]

/-! ## bitfield.go refines the bit masks of the model -/

/-- `testBit(word, pos)` reads machine bit `63 - pos`; `SetBit(p)` sets exactly position `p` (growing the
slice when needed); `Merge` is the union (growing when needed); a blank bitfield has no bit set. -/
theorem C20_bitfield_ops (b other : BF.Words) (p q word pos : Nat) :
    BF.testBitGo word pos = word.testBit (63 - pos) ∧
    BF.get (BF.setBit b p) q = (BF.get b q || decide (p = q)) ∧
    BF.get (BF.merge b other) q = (BF.get b q || BF.get other q) ∧
    (BF.isBlank b = true → BF.get b q = false) :=
  ⟨BF.testBitGo_eq word pos, BF.get_setBit b p q, BF.get_merge b other q, fun h => BF.isBlank_get h q⟩

/-- `weight(bits.Iter1sEven/Odd(), voters)` and `weight(bits.Iter1sMergedEven/Odd(other), voters)` are the sums
of the weights of the voters whose bit of that phase is set (in either bitfield); hence `roundContext.Weight`
(with its IsBlank fast path) on bitfields that represent the model's masks is the model's `nodeWeight`. -/
theorem C20_bitfield_weight (ws : List Nat) (a b : BF.Words) (ph : Bool) :
    BF.weight ws (BF.iter1s a (phN ph) 1) = wsum ws (fun v => BF.get a (bitPos v (phN ph))) ∧
    BF.weight ws (BF.iter1sMerged a b (phN ph) 1)
      = wsum ws (fun v => BF.get a (bitPos v (phN ph)) || BF.get b (bitPos v (phN ph))) ∧
    (∀ e n, BF.Rep b e → BF.Rep a n → BF.contextWeight ws b a (phN ph) = nodeWeight ws e n ph) := by
  have hph : phN ph < 2 := by unfold phN; split <;> omega
  exact ⟨BF.weight_iter1s ws a _ hph, BF.weight_iter1sMerged ws a b _ hph,
    fun e n he hn => BF.contextWeight_eq ws he hn ph⟩

/-- the representation relation is preserved by the operations the round performs on bitfields -/
theorem C20_bitfield_refines (a b : BF.Words) (m n p : Nat) (ha : BF.Rep a m) (hb : BF.Rep b n) :
    BF.Rep [] 0 ∧ BF.Rep (BF.setBit a p) (setBit m p) ∧ BF.Rep (BF.merge a b) (m ||| n) :=
  ⟨BF.rep_empty, BF.rep_setBit ha p, BF.rep_merge ha hb⟩

/-! ## layer (b): the compressed vote graph of vote_graph.go refines the uncompressed one

`Lib/C20Graph*.lean` model `voteGraphEntry`, `append`, `introduceBranch`, `Insert`, `findContainingNodes`,
`ghostFindMergePoint`, `FindGHOST`, `FindAncestor`; `RoundC` is the round running on that structure (the driver
compares its entry dump with the real graph after every import).  `insOf t ws ops` are the votes that reach the
graph while importing `ops` (first vote per voter and phase, target in the tree). -/

/-- **Representation invariant** of the entry map, for every import history and, more generally, for every
history of inserts: entries exist exactly for the base and the vote targets; the stored number is the block
number; the ancestor array is the chain from the parent up to the nearest vote-node above; the cumulative vote is
the uncompressed cumulative vote of the block; the descendants are (each once) the vote-nodes whose nearest
vote-node above is this one; the heads are the vote-nodes without descendants. -/
theorem C20_graph_inv (h : t.WF) (key : Nat → Nat) (ws : List Nat) (ops : List Op) :
    GInv t (insOf t ws ops) (runC key t ws ops).graph ∧
    ∀ (ins : Ins), (∀ p, p ∈ ins → p.1 < t.size) → GInv t ins (graphOf key t ins) := by
  have hs := bookSim_run key t ws ops
  refine ⟨?_, fun ins hv => graphOf_inv h key ins hv⟩
  rw [hs.graph]
  exact graphOf_inv h key _ hs.valid

/-- **Weights**: the two rounds keep the same trackers, current weights and equivocation bits; the cumulative vote
stored in a vote-node, and the vote `FindAncestor` accumulates for a block inside ancestor edges (the votes of
the vote-nodes that `findContainingNodes` returns), are the uncompressed cumulative vote of that block – hence
their weight is the paper's weight of the block (`C20_weight_eq_spec`). -/
theorem C20_graph_weight_refines (h : t.WF) (key : Nat → Nat) (ws : List Nat) (ops : List Op) (ph : Bool) :
    (runC key t ws ops).trk = (run t ws ops).trk ∧ (runC key t ws ops).cur = (run t ws ops).cur ∧
    (runC key t ws ops).eqv = (run t ws ops).eqv ∧
    (∀ B e, (runC key t ws ops).graph.entries B = some e →
      e.cum = (run t ws ops).cum B ∧
      nodeWeight ws (runC key t ws ops).eqv e.cum ph = weightFor t ws ops ph B) ∧
    (∀ B R, (runC key t ws ops).graph.entries B = none →
      (runC key t ws ops).graph.findContaining key (t.size + 1) B (t.num B) = some R →
      (runC key t ws ops).graph.orCums R = (run t ws ops).cum B ∧
      nodeWeight ws (runC key t ws ops).eqv ((runC key t ws ops).graph.orCums R) ph = weightFor t ws ops ph B) := by
  have hs := bookSim_run key t ws ops
  have inv := (C20_graph_inv h key ws ops).1
  refine ⟨hs.trk, hs.cur, hs.eqv, ?_, ?_⟩
  · intro B e he
    have hc : e.cum = (run t ws ops).cum B := by rw [inv.cum B e he, hs.cum]
    exact ⟨hc, by rw [hc, hs.eqv]; exact nodeWeight_run t ws ops ph B⟩
  · intro B R hnone hR
    have hN : isNode (insOf t ws ops) B = false := by
      have := inv.nodes B; rw [hnone] at this; exact this.symm
    obtain ⟨R', hR', _, hmem⟩ := (findContaining_spec h inv key B).2 hN
    rw [hR] at hR'
    have : R = R' := Option.some.inj hR'
    subst this
    have hc : (runC key t ws ops).graph.orCums R = (run t ws ops).cum B := by
      rw [hs.cum]
      apply Nat.eq_of_testBit_eq
      intro q
      have hfold : ((runC key t ws ops).graph.orCums R).testBit q = (Nat.testBit 0 q ||
          R.any (fun c => match (runC key t ws ops).graph.entries c with
            | some e => e.cum.testBit q | none => false)) :=
        foldl_or_testBit _ q R 0
      rw [hfold, cum_containing h inv hN R hmem q, Nat.zero_testBit, Bool.false_or]
      apply Bool.eq_iff_iff.2
      simp only [List.any_eq_true]
      constructor
      · rintro ⟨c, hc, hq⟩
        obtain ⟨ec, hec⟩ := inv.entry_of_node ((hmem c).1 hc).1
        rw [hec] at hq
        exact ⟨c, hc, by rw [← inv.cum c ec hec]; exact hq⟩
      · rintro ⟨c, hc, hq⟩
        obtain ⟨ec, hec⟩ := inv.entry_of_node ((hmem c).1 hc).1
        exact ⟨c, hc, by rw [hec]; simp only; rw [inv.cum c ec hec]; exact hq⟩
    exact ⟨hc, by rw [hc, hs.eqv]; exact nodeWeight_run t ws ops ph B⟩

/-- **`FindAncestor`** on the compressed graph of the round returns what `findAncestor` returns on the
uncompressed cumulative votes of the model, with the right block number – for every condition. -/
theorem C20_graph_ancestor_refines (h : t.WF) (key : Nat → Nat) (ws : List Nat) (ops : List Op)
    (cond : Mask → Bool) (B : Nat) (hB : B < t.size) :
    (runC key t ws ops).graph.findAncestor key (t.size + 1) cond (t.size + 1) B (t.num B) =
      (findAncestor t (run t ws ops).cum B cond).map (fun X => (X, t.num X)) := by
  have hs := bookSim_run key t ws ops
  rw [hs.cum]
  exact findAncestor_refines h (C20_graph_inv h key ws ops).1 key cond B hB

/-- **`FindGHOST`** on the compressed graph of the round returns what `findGhost` returns on the uncompressed
cumulative votes, with the right block number – through the breadth-first descent, `ghostFindMergePoint` and the
`forceConstrain` path – for every condition that is monotone in the votes and met by at most one child of any
block, and a current best block that (if it is in the graph) meets the condition.  Without the uniqueness
hypothesis the two searches may follow different children (tie-break by insertion order vs. block index);
`findGhostC_top` states what the compressed search returns without it.
The supermajority conditions of both phases satisfy the hypotheses on tolerant vote sets. -/
theorem C20_graph_ghost_refines (h : t.WF) (key : Nat → Nat) (ws : List Nat) (ops : List Op)
    (cond : Mask → Bool) (hm : MonoCond cond) (hu : UniqChild t (run t ws ops).cum cond) (cur : Option Nat)
    (hcur : ∀ b, cur = some b → b < t.size ∧
      (inGraph (run t ws ops).cum b = true → cond ((run t ws ops).cum b) = true)) :
    (runC key t ws ops).graph.findGhost key (t.size + 1) (pr t cur) cond =
      pr t (findGhost t (run t ws ops).cum cur cond) := by
  have hs := bookSim_run key t ws ops
  rw [hs.cum] at hu hcur ⊢
  exact findGhost_refines h (C20_graph_inv h key ws ops).1 key hm hu cur hcur

/-- the hypotheses of `C20_graph_ghost_refines` hold for the supermajority condition of a tolerant phase -/
theorem C20_graph_ghost_hyps (h : t.WF) (h0 : 0 < total ws) (ops : List Op) (ph : Bool)
    (htol : tolerant ws ops ph = true) :
    MonoCond (supermCond ws (run t ws ops).eqv ph) ∧
    UniqChild t (run t ws ops).cum (supermCond ws (run t ws ops).eqv ph) :=
  ⟨supermCond_mono ws _ ph, superm_uniqChild h h0 ops ph htol⟩

/-- **The round on the real data structure**: after every valid, prevote-tolerant import history the round
running on the compressed graph (`runC`, the structure whose dump the driver compares with the Go graph) holds the
same prevote GHOST, finalized block and estimate as the model round, each with its block number – hence
`C20_ghost_eq_spec_partial`, `C20_finalized_eq_spec_partial`, `C20_estimate_eq_spec_partial` apply to it. -/
theorem C20_graph_round_refines (h : t.WF) (h0 : 0 < total ws) (key : Nat → Nat) (ops : List Op)
    (hv : ValidOps t ops) (htol : tolerant ws ops false = true) :
    (runC key t ws ops).ghost = pr t (run t ws ops).ghost ∧
    (runC key t ws ops).fin = pr t (run t ws ops).fin ∧
    (runC key t ws ops).est = pr t (run t ws ops).est ∧
    (runC key t ws ops).ghost = pr t (specGhost t ws ops false) ∧
    (runC key t ws ops).fin = pr t (specFinalized t ws ops) := by
  have s := stateSim_run h h0 key ops hv htol
  refine ⟨s.ghost, s.fin, s.est, ?_, ?_⟩
  · rw [s.ghost, C20_ghost_eq_spec_partial h h0 ops hv htol]
  · rw [s.fin, C20_finalized_eq_spec_partial h h0 ops hv htol]

/-- … and, on the region where the model round follows the paper (both phases tolerant, no gap), the round on the
compressed graph reports the paper's estimate and completability as well: all four observables of `State()`
computed on the real data structure equal the paper definitions. -/
theorem C20_graph_round_eq_spec_partial (h : t.WF) (h0 : 0 < total ws) (key : Nat → Nat) (ops : List Op)
    (hv : ValidOps t ops) (htol : tolerant ws ops false = true) (htolc : tolerant ws ops true = true)
    (hgap : NoGap ws ops) (hov : 3 * total ws < MOD) :
    (runC key t ws ops).ghost = pr t (specGhost t ws ops false) ∧
    (runC key t ws ops).fin = pr t (specFinalized t ws ops) ∧
    (runC key t ws ops).est = pr t (specEstimate t ws ops) ∧
    (runC key t ws ops).compl = specCompletable t ws ops := by
  obtain ⟨_, _, s3, s4, s5⟩ := C20_graph_round_refines h h0 key ops hv htol
  have hov2 : 2 * total ws < MOD := by omega
  refine ⟨s4, s5, ?_, ?_⟩
  · rw [s3, C20_estimate_eq_spec_partial h h0 ops hv htol htolc hgap hov2]
  · rw [complSim_run h h0 key hov ops hv htol htolc,
        C20_completable_eq_spec_partial h h0 ops hv htol htolc hgap hov2]

/-! ## the excluded regions are really excluded, and the hypotheses are satisfiable -/

open Ex in
/-- Outside the prevote-tolerant region the prevote GHOST depends on the import order: the same votes, two
orders, two different ghosts (both blocks have a supermajority: g(S) is not unique). -/
theorem C20_ghost_intolerant_counterexample :
    tFork.WF ∧ 0 < total ws4 ∧ ValidOps tFork opsX ∧ opsX.Perm opsY ∧ tolerant ws4 opsX false = false ∧
    (run tFork ws4 opsX).ghost = some 1 ∧ (run tFork ws4 opsY).ghost = some 2 ∧
    superm tFork ws4 opsX false 1 = true ∧ superm tFork ws4 opsX false 2 = true :=
  rel_ghost_intolerant_counterexample

open Ex in
/-- Known finding `estimate-shortcut-below-threshold`: every hypothesis of `C20_estimate_eq_spec_partial` holds
except `NoGap` (5 unit voters, 4 prevote block 1, 3 precommit its sibling): the round reports estimate = block 1
and not completable, although block 1 can no longer get a precommit supermajority; the paper's E is the base and
the round is completable. -/
theorem C20_estimate_shortcut_counterexample :
    tFork.WF ∧ ValidOps tFork opsGap ∧ tolerant ws5 opsGap false = true ∧ tolerant ws5 opsGap true = true ∧
    ¬ NoGap ws5 opsGap ∧
    (run tFork ws5 opsGap).est = some 1 ∧ specEstimate tFork ws5 opsGap = some 0 ∧
    (run tFork ws5 opsGap).compl = false ∧ specCompletable tFork ws5 opsGap = true := by
  obtain ⟨a, b, c, d, e, _, f, g, _⟩ := rel_estimate_shortcut_counterexample
  exact ⟨a, b, c, d, e, f, by decide, g, by decide⟩

open Ex in
/-- Outside the precommit-tolerant region (equivocating precommit weight 2 > f = 1) the unsigned subtraction
wraps, every block counts as possible and the estimate stays at the prevote GHOST although two non-equivocating
voters precommitted the base. -/
theorem C20_estimate_intolerant_counterexample :
    tFork.WF ∧ ValidOps tFork opsWrap ∧ tolerant ws4 opsWrap false = true ∧ tolerant ws4 opsWrap true = false ∧
    NoGap ws4 opsWrap ∧
    (run tFork ws4 opsWrap).est = some 1 ∧ specEstimate tFork ws4 opsWrap = some 0 := by
  obtain ⟨a, b, c, d, e, _, f, _⟩ := rel_estimate_intolerant_counterexample
  exact ⟨a, b, c, d, e, f, by decide⟩

open Ex in
/-- The hypotheses are satisfiable by a non-trivial history (a tolerated equivocation in each phase, a duplicate,
a third vote of an equivocator, a vote of a non-voter, thresholds reached in both phases); on it the round
reports ghost 2, finalized 1, estimate 1, completable. -/
theorem C20_hypotheses_satisfiable :
    tDeep.WF ∧ 0 < total ws4 ∧ ValidOps tDeep opsOk ∧ tolerant ws4 opsOk false = true ∧
    tolerant ws4 opsOk true = true ∧ NoGap ws4 opsOk ∧ 2 * total ws4 < MOD ∧
    equivWeight ws4 opsOk false = 1 ∧ equivWeight ws4 opsOk true = 1 ∧
    (run tDeep ws4 opsOk).ghost = some 2 ∧ (run tDeep ws4 opsOk).fin = some 1 ∧
    (run tDeep ws4 opsOk).est = some 1 ∧ (run tDeep ws4 opsOk).compl = true :=
  rel_hypotheses_satisfiable

end Gossamer.C20
