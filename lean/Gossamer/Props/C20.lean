/-
C20 – GRANDPA round state follows the protocol definitions.

Model: `Gossamer/Model/C20.lean` (Round over the uncompressed vote graph, mirrors round.go / context.go /
bitfield.go; the compressed vote_graph.go is tied to it by the correspondence run only).
Spec:  `Gossamer/Lib/C20Spec.lean` (paper definitions over the *set* of imported signed votes).

All theorems quantify over every well-formed block tree `t`, every weighted voter list `ws` with positive
total weight, and every import history `ops` (any order, duplicates, double and triple votes, votes of
ids outside the voter set).  `run t ws ops` is the state after importing `ops` one by one.

Hypotheses and why they are there
* `ValidOps t ops`        – every target is a block of the tree (a target outside the chain makes the real
                            import return an error after the tracker was already updated; modelled and tied by
                            the harness, but the paper has no such votes).
* `tolerant ws ops false` – at most f = total − threshold prevote weight equivocates: the domain on which the
                            paper defines g(S); outside it two siblings can both have a supermajority and the
                            result depends on the import order (`C20_ghost_intolerant_counterexample`).
* `tolerant ws ops true`  – same for precommits, needed for estimate/completable only (outside it Go's
                            `toleratedEquivocations - currentEquivocations` wraps around).
* `NoGap ws ops`          – precommit weight ≥ threshold or ≤ 2f.  In between (possible only when total ≠ 3f+1)
                            the real code short-cuts `estimate = prevote GHOST, completable = false`, which is
                            NOT the paper definition: known finding `estimate-shortcut-below-threshold`,
                            `C20_estimate_shortcut_counterexample`.
* `2 * total ws < 2^64`   – no uint64 overflow in `possibleToPrecommit`.
-/
import Gossamer.Lib.C20Possible
namespace Gossamer.C20

variable {t : Tree} {ws : List Nat}

/-! ## bookkeeping: every history, no side condition -/

/-- The weight the round computes for block `B` in a phase (`context.Weight` of the cumulative vote node,
equivocation bits merged in) is the paper's weight: voters with a vote for a block ≥ B plus ALL equivocators –
for every block, also blocks nobody voted for.  Holds for every import history (any order, duplicates,
any number of double votes, non-voters, invalid targets). -/
theorem C20_weight_eq_spec (t : Tree) (ws : List Nat) (ops : List Op) (ph : Bool) (B : Nat) :
    nodeWeight ws (run t ws ops).eqv ((run t ws ops).cum B) ph = weightFor t ws ops ph B ∧
    (run t ws ops).cur ph = voteWeight ws ops ph ∧
    maskWeight ws (run t ws ops).eqv (phN ph) = equivWeight ws ops ph :=
  ⟨nodeWeight_run t ws ops ph B, cur_run t ws ops ph, eqvWeight_run t ws ops ph⟩

/-- An equivocator's weight counts towards every block: the weight of any block `B` (in the tree or not,
voted for or not) is at least the weight of all equivocators of the phase, and a voter of the set that
equivocated has its bit in the mask that is weighed for `B`. -/
theorem C20_equivocator_counts_everywhere (t : Tree) (ws : List Nat) (ops : List Op) (ph : Bool) (B : Nat) :
    equivWeight ws ops ph ≤ nodeWeight ws (run t ws ops).eqv ((run t ws ops).cum B) ph ∧
    ∀ v, v < ws.length → isEquiv ops ph v = true →
      ((run t ws ops).cum B ||| (run t ws ops).eqv).testBit (bitPos v (phN ph)) = true := by
  refine ⟨?_, ?_⟩
  · rw [nodeWeight_run]; exact equivWeight_le_weightFor t ws ops ph B
  · intro v hv he
    rw [Nat.testBit_or, (bookInv_run t ws ops).eqv]
    simp [hv, he]

/-- Import order, repetitions and multiplicities do not matter for the bookkeeping: after importing any
permutation of the same votes the current weights, the equivocation bitfield and the weight of every block
in both phases are the same. -/
theorem C20_import_order_independent (t : Tree) (ws : List Nat) {ops ops' : List Op} (hp : ops.Perm ops') :
    (∀ ph, (run t ws ops).cur ph = (run t ws ops').cur ph) ∧
    (run t ws ops).eqv = (run t ws ops').eqv ∧
    (∀ ph B, nodeWeight ws (run t ws ops).eqv ((run t ws ops).cum B) ph
           = nodeWeight ws (run t ws ops').eqv ((run t ws ops').cum B) ph) := by
  refine ⟨?_, ?_, ?_⟩
  · intro ph
    rw [cur_run, cur_run]
    unfold voteWeight
    exact wsum_congr (fun v _ => hasVote_perm hp ph v)
  · apply Nat.eq_of_testBit_eq
    intro i
    obtain ⟨v, ph, rfl⟩ := pos_as_bitPos i
    rw [(bookInv_run t ws ops).eqv, (bookInv_run t ws ops').eqv, isEquiv_perm hp]
  · intro ph B
    rw [nodeWeight_run, nodeWeight_run]
    exact weightFor_perm t ws hp ph B

/-! ## prevote GHOST -/

/-- The memoised prevote GHOST of the round is g(prevotes) of the paper: it has a prevote supermajority and
every block with one is an ancestor-or-equal of it (hence it has the highest block number); it is `none`
exactly when no block has a supermajority.  Incremental computation from the memoised ghost included.

Full statement (every vote set) is false: for intolerant prevote sets g is not unique and the memo makes
the result depend on the import order – see `C20_ghost_intolerant_counterexample`. -/
theorem C20_ghost_eq_spec_partial (h : t.WF) (h0 : 0 < total ws) (ops : List Op)
    (hv : ValidOps t ops) (htol : tolerant ws ops false = true) :
    IsGhost t ws ops false (run t ws ops).ghost := ghost_run h h0 ops hv htol

/-- `Round.PrecommitGHOST()` called on the state after `ops` (whatever was memoised by earlier calls that
returned a block with a precommit supermajority, or nothing) returns g(precommits). -/
theorem C20_precommit_ghost_eq_spec_partial (h : t.WF) (h0 : 0 < total ws) (ops : List Op)
    (htol : tolerant ws ops true = true) (memo : Option Nat)
    (hmemo : ∀ m, memo = some m → superm t ws ops true m = true) :
    IsGhost t ws ops true
      (precommitGhost t ws { run t ws ops with pcGhost := memo }).pcGhost := by
  unfold precommitGhost
  simp only
  split
  · exact findGhost_isGhost h h0 htol memo hmemo
  · rename_i hlt
    have hlt' : voteWeight ws ops true < threshold (total ws) := by
      rw [← cur_run t ws]; omega
    have hno := superm_false_of_cur t ws ops true hlt'
    cases hm : memo with
    | none => exact hno
    | some m => have := hmemo m hm; rw [hno m] at this; exact Bool.noConfusion this

/-- the GHOST has the highest block number among the blocks with a supermajority (the paper's wording) -/
theorem C20_ghost_highest_number (h : t.WF) {ops : List Op} {ph : Bool} {g : Nat}
    (hg : IsGhost t ws ops ph (some g)) (B : Nat) (hB : superm t ws ops ph B = true) :
    depth t B ≤ depth t g := by
  unfold depth
  by_cases hne : B = g
  · subst hne; exact Nat.le_refl _
  · exact Nat.le_of_lt (Tree.depth_lt h (hg.2 B hB) hne)

/-! ## finalized -/

/-- finalized block of the paper: the highest block with a supermajority of both prevotes and precommits -/
def IsFinalized (t : Tree) (ws : List Nat) (ops : List Op) : Option Nat → Prop
  | none => ∀ B, superm t ws ops false B = true → superm t ws ops true B = false
  | some F => superm t ws ops false F = true ∧ superm t ws ops true F = true ∧
      ∀ B, superm t ws ops false B = true → superm t ws ops true B = true → B ∈ t.chain F

theorem supermCond_fun (t : Tree) (ws : List Nat) (ops : List Op) (ph : Bool) :
    (fun B => supermCond ws (run t ws ops).eqv ph ((run t ws ops).cum B)) = superm t ws ops ph := by
  funext B; exact supermCond_run t ws ops ph B

/-- `Round.finalized` is the paper's finalized block (any precommit set, tolerant or not). -/
theorem C20_finalized_eq_spec_partial (h : t.WF) (h0 : 0 < total ws) (ops : List Op)
    (hv : ValidOps t ops) (htol : tolerant ws ops false = true) :
    IsFinalized t ws ops (run t ws ops).fin := by
  have hco := coherent_run h h0 ops hv htol
  have hg := ghost_run h h0 ops hv htol
  rw [hco.1]
  cases hgh : (run t ws ops).ghost with
  | none =>
    rw [(recompute_early t ws _ (Or.inr hgh)).1]
    rw [hgh] at hg
    intro B hB; rw [hg B] at hB; exact Bool.noConfusion hB
  | some g =>
    rw [hgh] at hg
    have hcf : ¬ (run t ws ops).cur false < threshold (total ws) := by
      intro hlt
      rw [cur_run] at hlt
      have := superm_false_of_cur t ws ops false hlt g
      rw [hg.1] at this; exact Bool.noConfusion this
    by_cases hct : (run t ws ops).cur true ≥ threshold (total ws)
    · rw [(recompute_full t ws _ g hcf hgh hct).1]
      unfold findAncestor
      rw [superm_inGraph h0 htol hg.1]
      simp only [if_true]
      rw [supermCond_fun]
      cases hf : (t.chain g).find? (superm t ws ops true) with
      | none =>
        intro B hB
        have := List.find?_eq_none.1 hf B (hg.2 B hB)
        simpa using this
      | some F =>
        obtain ⟨f1, f2, f3⟩ := chain_find_some h _ g F hf
        exact ⟨superm_anc h f1 hg.1, f2, fun B hB1 hB2 => f3 B (hg.2 B hB1) hB2⟩
    · have hlt : (run t ws ops).cur true < threshold (total ws) := by omega
      rw [(recompute_short t ws _ g hcf hgh hlt).1]
      intro B _
      rw [cur_run] at hlt
      exact superm_false_of_cur t ws ops true hlt B

/-! ## estimate and completable -/

/-- precommit weight is at the threshold or still at most 2f (always true when total = 3f+1) -/
def NoGap (ws : List Nat) (ops : List Op) : Prop :=
  voteWeight ws ops true ≥ threshold (total ws) ∨ voteWeight ws ops true ≤ 2 * faulty ws

/-- E of the paper relative to the prevote GHOST `g`: the last (deepest) block on the chain of `g` for which
a precommit supermajority is possible -/
def IsEstimate (t : Tree) (ws : List Nat) (ops : List Op) (g : Option Nat) (e : Option Nat) : Prop :=
  match g, e with
  | none, e => e = none
  | some g, none => ∀ B, B ∈ t.chain g → possible t ws ops true B = false
  | some g, some E => E ∈ t.chain g ∧ possible t ws ops true E = true ∧
      ∀ B, B ∈ t.chain g → possible t ws ops true B = true → B ∈ t.chain E

/-- completable of the paper: E is defined and (E ≠ g, or no child of g – a block of the tree or a block not
seen yet – can possibly get a precommit supermajority) -/
def SpecCompletable (t : Tree) (ws : List Nat) (ops : List Op) (g e : Option Nat) : Prop :=
  ∃ G E, g = some G ∧ e = some E ∧
    (E ≠ G ∨ (unseenImpossible ws ops = true ∧ ∀ c, c ∈ t.children G → possible t ws ops true c = false))

theorem possible_fun (t : Tree) (ws : List Nat) (ops : List Op)
    (htol : tolerant ws ops true = true) (hov : 2 * total ws < MOD) :
    (fun B => possibleToPrecommit ws ((run t ws ops).cur true) (run t ws ops).eqv ((run t ws ops).cum B))
      = possible t ws ops true := by
  funext B; exact possible_run t ws ops htol hov B

/-- below 2f of precommit weight every block is still possible -/
theorem possible_of_small (t : Tree) (ws : List Nat) (ops : List Op)
    (hs : voteWeight ws ops true ≤ 2 * faulty ws) (B : Nat) : possible t ws ops true B = true := by
  unfold possible
  have := voteWeight_split t ws ops true B
  have := equivWeight_le_weightFor t ws ops true B
  simp only [decide_eq_true_eq]
  omega

theorem two_faulty_lt_thr (h0 : 0 < total ws) : 2 * faulty ws < threshold (total ws) := by
  have := three_faulty_lt h0
  have := threshold_le (total ws)
  unfold faulty
  omega

/-- `Round.estimate` is E of the paper (relative to the round's prevote GHOST, which is g(V) by
`C20_ghost_eq_spec_partial`).
Full statement without `NoGap`/precommit tolerance is false: `C20_estimate_shortcut_counterexample`. -/
theorem C20_estimate_eq_spec_partial (h : t.WF) (h0 : 0 < total ws) (ops : List Op)
    (hv : ValidOps t ops) (htol : tolerant ws ops false = true) (htolc : tolerant ws ops true = true)
    (hgap : NoGap ws ops) (hov : 2 * total ws < MOD) :
    IsEstimate t ws ops (run t ws ops).ghost (run t ws ops).est := by
  have hco := coherent_run h h0 ops hv htol
  have hg := ghost_run h h0 ops hv htol
  rw [hco.2.1]
  cases hgh : (run t ws ops).ghost with
  | none =>
    rw [(recompute_early t ws _ (Or.inr hgh)).2.1]
    simp [IsEstimate]
  | some g =>
    rw [hgh] at hg
    have hcf : ¬ (run t ws ops).cur false < threshold (total ws) := by
      intro hlt
      rw [cur_run] at hlt
      have := superm_false_of_cur t ws ops false hlt g
      rw [hg.1] at this; exact Bool.noConfusion this
    by_cases hct : (run t ws ops).cur true ≥ threshold (total ws)
    · rw [(recompute_full t ws _ g hcf hgh hct).2.1]
      unfold findAncestor
      rw [superm_inGraph h0 htol hg.1]
      simp only [if_true]
      rw [possible_fun t ws ops htolc hov]
      cases hf : (t.chain g).find? (possible t ws ops true) with
      | none =>
        intro B hB
        have := List.find?_eq_none.1 hf B hB
        simpa using this
      | some E => exact chain_find_some h _ g E hf
    · have hlt : (run t ws ops).cur true < threshold (total ws) := by omega
      rw [(recompute_short t ws _ g hcf hgh hlt).2.1]
      rw [cur_run] at hlt
      have hsmall : voteWeight ws ops true ≤ 2 * faulty ws := by
        rcases hgap with hge | hle
        · omega
        · exact hle
      exact ⟨t.mem_chain_self g, possible_of_small t ws ops hsmall g, fun B hB _ => hB⟩

/-- one step of `descend` from a block without a good child stays there -/
theorem descend_stay (t : Tree) (cum : Nat → Mask) (cond : Mask → Bool) (f g : Nat)
    (hno : ∀ c, c ∈ t.children g → good cum cond c = false) : descend t cum cond f g = g := by
  cases f with
  | zero => rfl
  | succ f =>
    have : (t.children g).find? (fun c => inGraph cum c && cond (cum c)) = none := by
      rw [List.find?_eq_none]
      intro c hc
      have := hno c hc
      simpa [good] using this
    simp only [descend, this]

/-- `Round.completable` is the paper's completability.
Full statement without `NoGap`/precommit tolerance is false: `C20_estimate_shortcut_counterexample`. -/
theorem C20_completable_eq_spec_partial (h : t.WF) (h0 : 0 < total ws) (ops : List Op)
    (hv : ValidOps t ops) (htol : tolerant ws ops false = true) (htolc : tolerant ws ops true = true)
    (hgap : NoGap ws ops) (hov : 2 * total ws < MOD) :
    (run t ws ops).compl = true ↔ SpecCompletable t ws ops (run t ws ops).ghost (run t ws ops).est := by
  have hco := coherent_run h h0 ops hv htol
  have hg := ghost_run h h0 ops hv htol
  have hest := C20_estimate_eq_spec_partial h h0 ops hv htol htolc hgap hov
  rw [hco.2.2]
  rw [hco.2.1] at hest ⊢
  cases hgh : (run t ws ops).ghost with
  | none =>
    rw [(recompute_early t ws _ (Or.inr hgh)).2.2]
    constructor
    · intro hf; exact Bool.noConfusion hf
    · rintro ⟨G, E, hG, _⟩; cases hG
  | some g =>
    rw [hgh] at hg hest
    have hcf : ¬ (run t ws ops).cur false < threshold (total ws) := by
      intro hlt
      rw [cur_run] at hlt
      have := superm_false_of_cur t ws ops false hlt g
      rw [hg.1] at this; exact Bool.noConfusion this
    by_cases hct : (run t ws ops).cur true ≥ threshold (total ws)
    · obtain ⟨_, r2, r3⟩ := recompute_full t ws _ g hcf hgh hct
      rw [r3]
      rw [r2] at hest ⊢
      have hunseen : unseenImpossible ws ops = true := by
        unfold unseenImpossible
        rw [cur_run] at hct
        have := two_faulty_lt_thr h0
        simp only [decide_eq_true_eq]; omega
      cases hE : findAncestor t (run t ws ops).cum g
          (possibleToPrecommit ws ((run t ws ops).cur true) (run t ws ops).eqv) with
      | none =>
        constructor
        · intro hf; exact Bool.noConfusion hf
        · rintro ⟨G, E, _, hE', _⟩; cases hE'
      | some E =>
        rw [hE] at hest
        dsimp only
        by_cases hEg : E = g
        · subst hEg
          -- estimate = ghost: completable iff the possible-GHOST from it is the ghost itself
          have hstart : ghostStart (run t ws ops).cum (some E) = E := by
            simp [ghostStart, superm_inGraph h0 htol hg.1]
          have hcondE : possibleToPrecommit ws ((run t ws ops).cur true) (run t ws ops).eqv
              ((run t ws ops).cum E) = true := by
            rw [possible_run t ws ops htolc hov]; exact hest.2.1
          have hgoodiff : ∀ c, c ∈ t.children E →
              (good (run t ws ops).cum (possibleToPrecommit ws ((run t ws ops).cur true) (run t ws ops).eqv) c
                = false ↔ possible t ws ops true c = false) := by
            intro c _
            unfold good
            rw [possible_run t ws ops htolc hov]
            cases hin : inGraph (run t ws ops).cum c
            · simp only [Bool.false_and, true_iff]
              -- not in the graph: everything that voted and does not equivocate is against it
              have hw := against_of_not_inGraph t ws ops true hin
              have hs := voteWeight_split t ws ops true c
              unfold possible
              rw [cur_run] at hct
              have := two_faulty_lt_thr h0
              simp only [decide_eq_false_iff_not]
              omega
            · simp
          have hfg := findGhost_eq t (run t ws ops).cum (some E)
            (possibleToPrecommit ws ((run t ws ops).cur true) (run t ws ops).eqv)
          rw [hstart, hcondE] at hfg
          simp only [if_true] at hfg
          rw [hfg]
          simp only [bne_self_eq_false, Bool.false_or]
          constructor
          · intro hx
            have hD : descend t (run t ws ops).cum
                (possibleToPrecommit ws ((run t ws ops).cur true) (run t ws ops).eqv) t.size E = E := by
              simpa using hx
            obtain ⟨_, _, d3⟩ := descend_spec h (run t ws ops).cum
              (possibleToPrecommit ws ((run t ws ops).cur true) (run t ws ops).eqv) t.size E
            rw [hD] at d3
            refine ⟨E, E, rfl, rfl, Or.inr ⟨hunseen, ?_⟩⟩
            intro c hc
            exact (hgoodiff c hc).1 (d3 (by omega) c hc)
          · rintro ⟨G, E', hG, hE', hor⟩
            have hG' : G = E := (Option.some.inj hG).symm
            have hE'' : E' = E := (Option.some.inj hE').symm
            rw [hG', hE''] at hor
            rcases hor with hne | ⟨_, hall⟩
            · exact absurd rfl hne
            · have := descend_stay t (run t ws ops).cum
                (possibleToPrecommit ws ((run t ws ops).cur true) (run t ws ops).eqv) t.size E
                (fun c hc => (hgoodiff c hc).2 (hall c hc))
              simp [this]
        · have hne : (E != g) = true := by simp [hEg]
          simp only [hne, Bool.true_or, true_iff]
          exact ⟨g, E, rfl, rfl, Or.inl hEg⟩
    · have hlt : (run t ws ops).cur true < threshold (total ws) := by omega
      obtain ⟨_, r2, r3⟩ := recompute_short t ws _ g hcf hgh hlt
      rw [r3, r2]
      constructor
      · intro hf; exact Bool.noConfusion hf
      · rintro ⟨G, E, hG, hE, hor⟩
        have hG' : G = g := (Option.some.inj hG).symm
        have hE' : E = g := (Option.some.inj hE).symm
        rw [hG', hE'] at hor
        rcases hor with hne | ⟨hun, _⟩
        · exact absurd rfl hne
        · exfalso
          rw [cur_run] at hlt
          unfold unseenImpossible at hun
          simp only [decide_eq_true_eq] at hun
          rcases hgap with hge | hle <;> omega

/-! ## derived state does not depend on the import order -/

/-- For tolerant vote sets the GHOST, finalized block and estimate are determined by the SET of votes: two
import histories that are permutations of each other (with any duplicates) satisfy the same specifications –
and these specifications have at most one solution. -/
theorem IsGhost_unique (h : t.WF) {ops : List Op} {ph : Bool} {a b : Option Nat}
    (ha : IsGhost t ws ops ph a) (hb : IsGhost t ws ops ph b) : a = b := by
  cases a with
  | none =>
    cases b with
    | none => rfl
    | some y => have := ha y; rw [hb.1] at this; exact Bool.noConfusion this
  | some x =>
    cases b with
    | none => have := hb x; rw [ha.1] at this; exact Bool.noConfusion this
    | some y => exact congrArg some (Tree.le_antisymm h (hb.2 x ha.1) (ha.2 y hb.1))

theorem superm_perm (t : Tree) (ws : List Nat) {ops ops' : List Op} (hp : ops.Perm ops') (ph : Bool) (B : Nat) :
    superm t ws ops ph B = superm t ws ops' ph B := by
  unfold superm; rw [weightFor_perm t ws hp]

theorem C20_ghost_order_independent_partial (h : t.WF) (h0 : 0 < total ws) {ops ops' : List Op}
    (hp : ops.Perm ops') (hv : ValidOps t ops) (htol : tolerant ws ops false = true) :
    (run t ws ops).ghost = (run t ws ops').ghost := by
  have hv' : ValidOps t ops' := fun o ho => hv o (hp.mem_iff.2 ho)
  have htol' : tolerant ws ops' false = true := by
    unfold tolerant equivWeight at *
    rw [← wsum_congr (fun v _ => isEquiv_perm hp false v)]; exact htol
  have g1 := ghost_run h h0 ops hv htol
  have g2 := ghost_run h h0 ops' hv' htol'
  have g2' : IsGhost t ws ops false (run t ws ops').ghost := by
    cases hg : (run t ws ops').ghost with
    | none => rw [hg] at g2; intro B; rw [superm_perm t ws hp]; exact g2 B
    | some g =>
      rw [hg] at g2
      exact ⟨by rw [superm_perm t ws hp]; exact g2.1,
             fun B hB => g2.2 B (by rw [← superm_perm t ws hp]; exact hB)⟩
  exact IsGhost_unique h g1 g2'

/-! ## the excluded regions are really excluded (counterexamples) and the hypotheses are satisfiable -/

namespace Ex
def tFork : Tree := ⟨[0, 0, 0]⟩            -- base 0 with two children 1 and 2
def ws4 : List Nat := [1, 1, 1, 1]          -- total 4, f = 1, threshold 3
def ws5 : List Nat := [1, 1, 1, 1, 1]       -- total 5, f = 1, threshold 4 (not 3f+1)
def pv (v b : Nat) : Op := ⟨false, v, ⟨b, 0⟩⟩
def pc (v b : Nat) : Op := ⟨true, v, ⟨b, 0⟩⟩
/-- voters 0 and 1 prevote both 1 and 2 (equivocating weight 2 > f), voter 2 prevotes 1, voter 3 prevotes 2 -/
def opsX : List Op := [pv 0 1, pv 0 2, pv 1 1, pv 1 2, pv 2 1, pv 3 2]
def opsY : List Op := [pv 0 1, pv 0 2, pv 1 1, pv 1 2, pv 3 2, pv 2 1]
/-- 4 of 5 prevote block 1, then 3 of 5 precommit its sibling 2 -/
def opsGap : List Op := [pv 0 1, pv 1 1, pv 2 1, pv 3 1, pc 0 2, pc 1 2, pc 2 2]
/-- 3 of 4 prevote block 1; voters 0, 1 double-precommit 1 and 2; voters 2, 3 precommit the base -/
def opsWrap : List Op := [pv 0 1, pv 1 1, pv 2 1, pc 0 1, pc 0 2, pc 1 1, pc 1 2, pc 2 0, pc 3 0]
/-- a tolerant history with a tolerated equivocation in each phase, duplicates and a non-voter -/
def tDeep : Tree := ⟨[0, 0, 1, 1]⟩          -- 0 ← 1 ← {2, 3}
def opsOk : List Op :=
  [pv 0 2, pv 1 2, pv 9 3, pv 3 2, pv 3 3, pv 0 2, pv 2 3, pc 0 2, pc 1 1, pc 3 2, pc 3 0, pc 2 1, pc 3 1]

theorem tFork_WF : tFork.WF := by
  refine ⟨by decide, ?_⟩
  intro b h1 h2
  have : b = 1 ∨ b = 2 := by simp [tFork, Tree.size] at h2; omega
  rcases this with rfl | rfl <;> decide

theorem tDeep_WF : tDeep.WF := by
  refine ⟨by decide, ?_⟩
  intro b h1 h2
  have : b = 1 ∨ b = 2 ∨ b = 3 := by simp [tDeep, Tree.size] at h2; omega
  rcases this with rfl | rfl | rfl <;> decide
end Ex

open Ex in
/-- Outside the prevote-tolerant region the prevote GHOST depends on the import order: the same votes, two
orders, two different ghosts (both blocks have a supermajority: g(S) is not unique). -/
theorem C20_ghost_intolerant_counterexample :
    tFork.WF ∧ 0 < total ws4 ∧ ValidOps tFork opsX ∧ opsX.Perm opsY ∧ tolerant ws4 opsX false = false ∧
    (run tFork ws4 opsX).ghost = some 1 ∧ (run tFork ws4 opsY).ghost = some 2 ∧
    superm tFork ws4 opsX false 1 = true ∧ superm tFork ws4 opsX false 2 = true := by
  refine ⟨tFork_WF, by decide, ?_, by decide, by decide, by decide, by decide, by decide, by decide⟩
  intro o ho
  have : o ∈ opsX := ho
  revert o; decide

open Ex in
/-- Known finding `estimate-shortcut-below-threshold`: all hypotheses of `C20_estimate_eq_spec_partial` hold
except `NoGap`; the round reports estimate = block 1 and not completable although block 1 can no longer get
a precommit supermajority (3 of 5 precommitted its sibling, f = 1): the paper's E is the base and the round
is completable. -/
theorem C20_estimate_shortcut_counterexample :
    tFork.WF ∧ ValidOps tFork opsGap ∧ tolerant ws5 opsGap false = true ∧ tolerant ws5 opsGap true = true ∧
    ¬ NoGap ws5 opsGap ∧
    (run tFork ws5 opsGap).ghost = some 1 ∧ (run tFork ws5 opsGap).est = some 1 ∧
    (run tFork ws5 opsGap).compl = false ∧
    possible tFork ws5 opsGap true 1 = false ∧ possible tFork ws5 opsGap true 0 = true ∧
    ¬ IsEstimate tFork ws5 opsGap (run tFork ws5 opsGap).ghost (run tFork ws5 opsGap).est := by
  have hest : (run tFork ws5 opsGap).est = some 1 := by decide
  have hgh : (run tFork ws5 opsGap).ghost = some 1 := by decide
  have hp : possible tFork ws5 opsGap true 1 = false := by decide
  refine ⟨tFork_WF, ?_, by decide, by decide, ?_, hgh, hest, by decide, hp, by decide, ?_⟩
  · intro o ho
    have : o ∈ opsGap := ho
    revert o; decide
  · unfold NoGap; decide
  · rw [hest, hgh]
    intro hi
    have := hi.2.1
    rw [hp] at this; exact Bool.noConfusion this

open Ex in
/-- Outside the precommit-tolerant region (equivocating precommit weight 2 > f = 1) Go's unsigned
`toleratedEquivocations - currentEquivocations` wraps around, every block counts as possible and the estimate
stays at the prevote GHOST although 2 non-equivocating voters precommitted the base. -/
theorem C20_estimate_intolerant_counterexample :
    tFork.WF ∧ ValidOps tFork opsWrap ∧ tolerant ws4 opsWrap false = true ∧ tolerant ws4 opsWrap true = false ∧
    NoGap ws4 opsWrap ∧
    (run tFork ws4 opsWrap).ghost = some 1 ∧ (run tFork ws4 opsWrap).est = some 1 ∧
    possible tFork ws4 opsWrap true 1 = false := by
  refine ⟨tFork_WF, ?_, by decide, by decide, ?_, by decide, by decide, by decide⟩
  · intro o ho
    have : o ∈ opsWrap := ho
    revert o; decide
  · unfold NoGap; decide

open Ex in
/-- The hypotheses of the theorems are satisfiable by a non-trivial history (a tolerated equivocation in each
phase, a duplicate, a vote of a non-voter, thresholds reached in both phases), and on it the round reports
ghost 2, finalized 1, estimate 1 (block 2 can no longer get a
precommit supermajority), completable. -/
theorem C20_hypotheses_satisfiable :
    tDeep.WF ∧ 0 < total ws4 ∧ ValidOps tDeep opsOk ∧ tolerant ws4 opsOk false = true ∧
    tolerant ws4 opsOk true = true ∧ NoGap ws4 opsOk ∧ 2 * total ws4 < MOD ∧
    equivWeight ws4 opsOk false = 1 ∧ equivWeight ws4 opsOk true = 1 ∧
    (run tDeep ws4 opsOk).ghost = some 2 ∧ (run tDeep ws4 opsOk).fin = some 1 ∧
    (run tDeep ws4 opsOk).est = some 1 ∧ (run tDeep ws4 opsOk).compl = true := by
  refine ⟨tDeep_WF, by decide, ?_, by decide, by decide, ?_, by decide, by decide, by decide, by decide,
    by decide, by decide, by decide⟩
  · intro o ho
    have : o ∈ opsOk := ho
    revert o; decide
  · unfold NoGap; decide

end Gossamer.C20
