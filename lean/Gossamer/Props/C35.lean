import Gossamer.Model.C35
import Gossamer.Lib.Monitor
namespace Gossamer.C35
end Gossamer.C35
