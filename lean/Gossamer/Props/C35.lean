/-
C35  Shared LRU caches are safe under concurrency.

Sequential part: the pointer-level model of `LRUCache` (map key ↦ element, recency list of
elements) refines the capacity-bounded recency list `SCache`, for every capacity
`1 ≤ cap < 2^63` (and `0`, which the constructor replaces by 20) and every Get/Put sequence.
Concurrent part: with the lock table of the Go methods (`lockTable`, re-extracted from the
source by the harness on every run), every concurrent execution under the RWMutex semantics
of Lib.Monitor is equivalent to the sequential model run in release order.
-/
import Gossamer.Model.C35
import Gossamer.Lib.Monitor
namespace Gossamer.C35
open Gossamer

/-! ### list helpers -/

def kv (e : Elem) : Nat × Nat := (e.key, e.val)

theorem find_key_cons_eq {a : Elem} {as : List Elem} {k : Nat} (h : a.key = k) :
    (a :: as).find? (·.key == k) = some a := by simp [List.find?_cons, h]

theorem find_key_cons_ne {a : Elem} {as : List Elem} {k : Nat} (h : a.key ≠ k) :
    (a :: as).find? (·.key == k) = as.find? (·.key == k) := by
  have : (a.key == k) = false := by simpa using h
  simp [List.find?_cons, this]

theorem filter_key_cons_eq {a : Elem} {as : List Elem} {k : Nat} (h : a.key = k) :
    (a :: as).filter (·.key != k) = as.filter (·.key != k) := by simp [List.filter_cons, h]

theorem filter_key_cons_ne {a : Elem} {as : List Elem} {k : Nat} (h : a.key ≠ k) :
    (a :: as).filter (·.key != k) = a :: as.filter (·.key != k) := by simp [List.filter_cons, h]

theorem lookup_cons_eq (k v : Nat) (m : List (Nat × Nat)) : List.lookup k ((k, v) :: m) = some v := by
  simp [List.lookup_cons]

theorem lookup_cons_ne {k a1 : Nat} (v : Nat) (m : List (Nat × Nat)) (h : k ≠ a1) :
    List.lookup k ((a1, v) :: m) = List.lookup k m := by
  have : (k == a1) = false := by simpa using h
  simp [List.lookup_cons, this]

theorem mapDelete_cons_eq (a1 a2 : Nat) (m : List (Nat × Nat)) :
    mapDelete ((a1, a2) :: m) a1 = mapDelete m a1 := by simp [mapDelete, List.filter_cons]

theorem mapDelete_cons_ne {a1 k : Nat} (a2 : Nat) (m : List (Nat × Nat)) (h : a1 ≠ k) :
    mapDelete ((a1, a2) :: m) k = (a1, a2) :: mapDelete m k := by simp [mapDelete, List.filter_cons, h]

theorem lookup_some_of_mem {m : List (Nat × Nat)} {k : Nat} (h : k ∈ m.map (·.1)) :
    ∃ w, m.lookup k = some w := by
  induction m with
  | nil => cases h
  | cons b bs ih =>
    obtain ⟨b1, b2⟩ := b
    by_cases hb : k = b1
    · subst hb; exact ⟨b2, lookup_cons_eq _ _ _⟩
    · simp only [List.map_cons, List.mem_cons] at h
      rcases h with h | h
      · exact absurd h hb
      · obtain ⟨w, hw⟩ := ih h
        exact ⟨w, by rw [lookup_cons_ne _ _ hb, hw]⟩

theorem find_key_prop {l : List Elem} {k : Nat} {e : Elem}
    (h : l.find? (·.key == k) = some e) : e.key = k ∧ e ∈ l := by
  have h1 := List.find?_some h
  have h2 := List.mem_of_find?_eq_some h
  exact ⟨by simpa using h1, h2⟩

theorem find_key_none {l : List Elem} {k : Nat}
    (h : l.find? (·.key == k) = none) : k ∉ l.map (·.key) := by
  intro hm
  rw [List.find?_eq_none] at h
  obtain ⟨e, he, hk⟩ := List.mem_map.mp hm
  exact h e he (by simp [hk])

theorem find_key_some_of_mem {l : List Elem} {k : Nat} (h : k ∈ l.map (·.key)) :
    ∃ e, l.find? (·.key == k) = some e := by
  cases hf : l.find? (·.key == k) with
  | some e => exact ⟨e, rfl⟩
  | none => exact absurd h (find_key_none hf)

/-- distinct ids: an element is determined by its id -/
theorem id_inj {l : List Elem} (hn : (l.map (·.id)).Nodup) {x y : Elem}
    (hx : x ∈ l) (hy : y ∈ l) (h : x.id = y.id) : x = y := by
  induction l with
  | nil => cases hx
  | cons a as ih =>
    simp only [List.map_cons, List.nodup_cons, List.mem_map, not_exists, not_and] at hn
    rcases List.mem_cons.mp hx with rfl | hx' <;> rcases List.mem_cons.mp hy with rfl | hy'
    · rfl
    · exact absurd h.symm (hn.1 y hy')
    · exact absurd h (hn.1 x hx')
    · exact ih hn.2 hx' hy'

theorem find_id_of_mem {l : List Elem} (hn : (l.map (·.id)).Nodup) {e : Elem} (he : e ∈ l) :
    l.find? (·.id == e.id) = some e := by
  induction l with
  | nil => cases he
  | cons a as ih =>
    simp only [List.map_cons, List.nodup_cons, List.mem_map, not_exists, not_and] at hn
    rcases List.mem_cons.mp he with rfl | he'
    · simp
    · have : a.id ≠ e.id := fun h => hn.1 e he' h.symm
      simp [List.find?_cons, this, ih hn.2 he']

theorem filter_key_id {l : List Elem} {k : Nat} (h : k ∉ l.map (·.key)) :
    l.filter (·.key != k) = l := by
  rw [List.filter_eq_self]
  intro a ha
  have : a.key ≠ k := fun hk => h (List.mem_map.mpr ⟨a, ha, hk⟩)
  simpa using this

/-- removing the element found under key `k` by pointer = dropping key `k` -/
theorem eraseP_id_eq_filter {l : List Elem} (hi : (l.map (·.id)).Nodup) (hk : (l.map (·.key)).Nodup)
    {k : Nat} {e : Elem} (hf : l.find? (·.key == k) = some e) :
    l.eraseP (·.id == e.id) = l.filter (·.key != k) := by
  induction l with
  | nil => cases hf
  | cons a as ih =>
    simp only [List.map_cons, List.nodup_cons] at hi hk
    by_cases hak : a.key = k
    · have : e = a := by simpa [List.find?_cons, hak] using hf.symm
      subst this
      have hnot : k ∉ as.map (·.key) := hak ▸ hk.1
      simp [List.eraseP_cons, hak, filter_key_id hnot]
    · have hf' : as.find? (·.key == k) = some e := by simpa [List.find?_cons, hak] using hf
      have he := (find_key_prop hf').2
      have hne : a.id ≠ e.id := fun h => hi.1 (List.mem_map.mpr ⟨e, he, h.symm⟩)
      simp [List.eraseP_cons, hne, hak, ih hi.2 hk.2 hf']

theorem lookup_map_kv (l : List Elem) (k : Nat) :
    (l.map kv).lookup k = (l.find? (·.key == k)).map (·.val) := by
  induction l with
  | nil => rfl
  | cons a as ih =>
    by_cases h : a.key = k
    · simp [kv, List.lookup_cons, List.find?_cons, h]
    · have h' : (k == a.key) = false := by simpa using fun hh => h hh.symm
      simp [kv, List.lookup_cons, h, h', ← ih]

theorem map_kv_filter (l : List Elem) (k : Nat) :
    (l.filter (·.key != k)).map kv = (l.map kv).filter (·.1 != k) := by
  rw [List.filter_map]; rfl

theorem find_key_filter_ne (l : List Elem) {k k' : Nat} (h : k' ≠ k) :
    (l.filter (·.key != k)).find? (·.key == k') = l.find? (·.key == k') := by
  induction l with
  | nil => rfl
  | cons a as ih =>
    by_cases hak : a.key = k
    · have hk' : a.key ≠ k' := fun hh => h (by rw [← hh, hak])
      rw [filter_key_cons_eq hak, find_key_cons_ne hk', ih]
    · rw [filter_key_cons_ne hak]
      by_cases h2 : a.key = k'
      · rw [find_key_cons_eq h2, find_key_cons_eq h2]
      · rw [find_key_cons_ne h2, find_key_cons_ne h2, ih]

theorem find_key_filter_eq (l : List Elem) (k : Nat) :
    (l.filter (·.key != k)).find? (·.key == k) = none := by
  rw [List.find?_eq_none]
  intro a ha
  have := (List.mem_filter.mp ha).2
  simpa using this

theorem setVal_cons (a : Elem) (as : List Elem) (i v : Nat) :
    setVal (a :: as) i v = (if a.id = i then { a with val := v } else a) :: setVal as i v := rfl

theorem setVal_id {l : List Elem} {i v : Nat} (h : i ∉ l.map (·.id)) : setVal l i v = l := by
  induction l with
  | nil => rfl
  | cons a as ih =>
    simp only [List.map_cons, List.mem_cons, not_or] at h
    have : a.id ≠ i := fun hh => h.1 hh.symm
    rw [setVal_cons, ih h.2]; simp [this]

theorem setVal_find {l : List Elem} (hi : (l.map (·.id)).Nodup) {e : Elem} (he : e ∈ l) (v : Nat) :
    (setVal l e.id v).find? (·.id == e.id) = some { e with val := v } := by
  induction l with
  | nil => cases he
  | cons a as ih =>
    simp only [List.map_cons, List.nodup_cons, List.mem_map, not_exists, not_and] at hi
    rw [setVal_cons]
    rcases List.mem_cons.mp he with rfl | he'
    · simp
    · have : a.id ≠ e.id := fun h => hi.1 e he' h.symm
      simp [List.find?_cons, this, ih hi.2 he']

theorem setVal_eraseP {l : List Elem} (hi : (l.map (·.id)).Nodup) {e : Elem} (he : e ∈ l) (v : Nat) :
    (setVal l e.id v).eraseP (·.id == e.id) = l.eraseP (·.id == e.id) := by
  induction l with
  | nil => cases he
  | cons a as ih =>
    simp only [List.map_cons, List.nodup_cons] at hi
    rw [setVal_cons]
    by_cases ha : a.id = e.id
    · have hnot : e.id ∉ as.map (·.id) := ha ▸ hi.1
      simp [ha, List.eraseP_cons, setVal_id hnot]
    · have he' : e ∈ as := by
        rcases List.mem_cons.mp he with rfl | h
        · exact absurd rfl ha
        · exact h
      simp [ha, List.eraseP_cons, ih hi.2 he']

/-- removing the last element by pointer = `dropLast` -/
theorem eraseP_last {l : List Elem} (hi : (l.map (·.id)).Nodup) {last : Elem}
    (h : l.getLast? = some last) : l.eraseP (·.id == last.id) = l.dropLast := by
  induction l with
  | nil => cases h
  | cons a as ih =>
    cases as with
    | nil =>
      have : last = a := by simpa using h.symm
      subst this; simp
    | cons b bs =>
      have h' : (b :: bs).getLast? = some last := by simpa [List.getLast?_cons_cons] using h
      simp only [List.map_cons, List.nodup_cons] at hi
      have hm : last ∈ b :: bs := List.mem_of_getLast? h'
      have hne : a.id ≠ last.id := fun hh => hi.1 (by
        have := (List.mem_map (f := fun x : Elem => x.id)).mpr ⟨last, hm, rfl⟩
        simpa [hh] using this)
      have := ih (by simpa using hi.2) h'
      simp [List.eraseP_cons, hne, List.dropLast_cons₂, this]

/-! ### association-list (Go map) helpers -/

theorem mapDelete_id {m : List (Nat × Nat)} {k : Nat} (h : m.lookup k = none) : mapDelete m k = m := by
  induction m with
  | nil => rfl
  | cons a as ih =>
    obtain ⟨a1, a2⟩ := a
    by_cases hk : k = a1
    · subst hk; rw [lookup_cons_eq] at h; cases h
    · rw [lookup_cons_ne _ _ hk] at h
      rw [mapDelete_cons_ne _ _ (fun hh => hk hh.symm), ih h]

theorem lookup_mapDelete (m : List (Nat × Nat)) (k k2 : Nat) :
    (mapDelete m k2).lookup k = if k = k2 then none else m.lookup k := by
  induction m with
  | nil => simp [mapDelete]
  | cons a as ih =>
    obtain ⟨a1, a2⟩ := a
    by_cases h1 : a1 = k2
    · subst h1
      rw [mapDelete_cons_eq, ih]
      by_cases hk : k = a1
      · simp [hk]
      · simp [hk, lookup_cons_ne _ _ hk]
    · rw [mapDelete_cons_ne _ _ h1]
      by_cases hk : k = a1
      · subst hk
        simp [lookup_cons_eq, h1]
      · rw [lookup_cons_ne _ _ hk, lookup_cons_ne _ _ hk, ih]

theorem lookup_none_of_not_mem {m : List (Nat × Nat)} {k : Nat} (h : k ∉ m.map (·.1)) :
    m.lookup k = none := by
  cases hl : m.lookup k with
  | none => rfl
  | some w =>
    exfalso
    induction m with
    | nil => cases hl
    | cons a as ih =>
      obtain ⟨a1, a2⟩ := a
      simp only [List.map_cons, List.mem_cons, not_or] at h
      rw [lookup_cons_ne _ _ h.1] at hl
      exact ih h.2 hl

theorem mapDelete_keys_sub (m : List (Nat × Nat)) (k : Nat) :
    ((mapDelete m k).map (·.1)).Sublist (m.map (·.1)) :=
  (List.filter_sublist (l := m)).map _

theorem not_mem_mapDelete (m : List (Nat × Nat)) (k : Nat) : k ∉ (mapDelete m k).map (·.1) := by
  intro h
  obtain ⟨a, ha, hk⟩ := List.mem_map.mp h
  have := (List.mem_filter.mp ha).2
  simp [hk] at this

theorem length_mapDelete {m : List (Nat × Nat)} (hn : (m.map (·.1)).Nodup) {k v : Nat}
    (h : m.lookup k = some v) : (mapDelete m k).length + 1 = m.length := by
  induction m with
  | nil => cases h
  | cons a as ih =>
    obtain ⟨a1, a2⟩ := a
    simp only [List.map_cons, List.nodup_cons] at hn
    by_cases hk : k = a1
    · subst hk
      rw [mapDelete_cons_eq, mapDelete_id (lookup_none_of_not_mem hn.1)]
      simp
    · rw [lookup_cons_ne _ _ hk] at h
      rw [mapDelete_cons_ne _ _ (fun hh => hk hh.symm)]
      have := ih hn.2 h
      simp only [List.length_cons]; omega

/-! ### the representation invariant -/

structure Inv (c : Cache) : Prop where
  mapKeys : (c.cache.map (·.1)).Nodup
  ids : (c.lruList.map (·.id)).Nodup
  keys : (c.lruList.map (·.key)).Nodup
  look : ∀ k, c.cache.lookup k = (c.lruList.find? (·.key == k)).map (·.id)
  fresh : ∀ e ∈ c.lruList, e.id < c.nextId
  size : c.cache.length = c.lruList.length

theorem inv_new (cap : Nat) : Inv (new cap) := by
  refine ⟨?_, ?_, ?_, ?_, ?_, ?_⟩ <;> simp [new]

/-- shape of the list after touching the element `e` stored under key `k` -/
theorem moveToFront_eq {l : List Elem} (hi : (l.map (·.id)).Nodup) (hk : (l.map (·.key)).Nodup)
    {k : Nat} {e : Elem} (hf : l.find? (·.key == k) = some e) :
    moveToFront l e.id = e :: l.filter (·.key != k) := by
  have he := (find_key_prop hf).2
  simp [moveToFront, find_id_of_mem hi he, eraseP_id_eq_filter hi hk hf]

theorem moveToFront_setVal_eq {l : List Elem} (hi : (l.map (·.id)).Nodup) (hk : (l.map (·.key)).Nodup)
    {k : Nat} {e : Elem} (hf : l.find? (·.key == k) = some e) (v : Nat) :
    moveToFront (setVal l e.id v) e.id = { e with val := v } :: l.filter (·.key != k) := by
  have he := (find_key_prop hf).2
  simp [moveToFront, setVal_find hi he, setVal_eraseP hi he, eraseP_id_eq_filter hi hk hf]

/-- invariant of a list obtained by moving (a possibly updated copy of) the element under key
    `k` to the front -/
theorem inv_touch {c : Cache} (hI : Inv c) {k : Nat} {e : Elem}
    (hf : c.lruList.find? (·.key == k) = some e) (v : Nat) :
    Inv { c with lruList := { e with val := v } :: c.lruList.filter (·.key != k) } := by
  have ⟨hek, hem⟩ := find_key_prop hf
  have hsub : (c.lruList.filter (·.key != k)).Sublist c.lruList := List.filter_sublist
  refine ⟨hI.mapKeys, ?_, ?_, ?_, ?_, ?_⟩
  · simp only [List.map_cons, List.nodup_cons]
    refine ⟨?_, List.Pairwise.sublist (hsub.map _) hI.ids⟩
    intro hm
    obtain ⟨x, hx, hxe⟩ := List.mem_map.mp hm
    have hx' := List.mem_filter.mp hx
    have : x = e := id_inj hI.ids hx'.1 hem hxe
    have h2 : (x.key != k) = true := hx'.2
    rw [this, hek] at h2
    simp at h2
  · simp only [List.map_cons, List.nodup_cons]
    refine ⟨?_, List.Pairwise.sublist (hsub.map _) hI.keys⟩
    intro hm
    obtain ⟨x, hx, hxe⟩ := List.mem_map.mp hm
    have hx' : (x.key != k) = true := (List.mem_filter.mp hx).2
    have hxe' : x.key = e.key := hxe
    rw [hxe', hek] at hx'
    simp at hx'
  · intro k'
    rw [hI.look k']
    by_cases hkk : k' = k
    · subst hkk
      rw [find_key_cons_eq (show ({ e with val := v } : Elem).key = k' from hek), hf]
      rfl
    · have : ({ e with val := v } : Elem).key ≠ k' := fun h => hkk (by rw [← h]; exact hek)
      rw [find_key_cons_ne this, find_key_filter_ne _ hkk]
  · intro x hx
    rcases List.mem_cons.mp hx with rfl | hx'
    · exact hI.fresh e hem
    · exact hI.fresh x (List.mem_filter.mp hx').1
  · rw [hI.size]
    have h1 := eraseP_id_eq_filter hI.ids hI.keys hf
    have h2 : (c.lruList.eraseP (·.id == e.id)).length = c.lruList.length - 1 :=
      List.length_eraseP_of_mem hem (by simp)
    have hpos : 0 < c.lruList.length := List.length_pos_of_mem hem
    simp only [List.length_cons, ← h1, h2]
    omega

/-! ### one step of the model against one step of the spec -/

theorem abs_touch (c : Cache) (k : Nat) (e : Elem) (hek : e.key = k) (v : Nat) :
    abs { c with lruList := { e with val := v } :: c.lruList.filter (·.key != k) } =
      { cap := c.capacity, items := (k, v) :: (abs c).items.filter (·.1 != k) } := by
  show ({ cap := c.capacity, items := List.map kv ({ e with val := v } :: c.lruList.filter (·.key != k)) } : SCache)
    = { cap := c.capacity, items := (k, v) :: (c.lruList.map kv).filter (·.1 != k) }
  rw [List.map_cons, map_kv_filter]
  simp [kv, hek]

theorem get_hit {c : Cache} (hI : Inv c) {k : Nat} {e : Elem}
    (hf : c.lruList.find? (·.key == k) = some e) :
    get c k = (e.val, { c with lruList := e :: c.lruList.filter (·.key != k) }) := by
  have hl : c.cache.lookup k = some e.id := by rw [hI.look k, hf]; rfl
  have hem := (find_key_prop hf).2
  unfold get
  rw [hl]
  simp only [find_id_of_mem hI.ids hem, moveToFront_eq hI.ids hI.keys hf]

theorem get_miss {c : Cache} (hI : Inv c) {k : Nat}
    (hf : c.lruList.find? (·.key == k) = none) : get c k = (0, c) := by
  have hl : c.cache.lookup k = none := by rw [hI.look k, hf]; rfl
  unfold get
  rw [hl]

theorem sget_hit {c : Cache} {k : Nat} {e : Elem} (hf : c.lruList.find? (·.key == k) = some e) :
    sget (abs c) k = (e.val, { cap := c.capacity, items := (k, e.val) :: (abs c).items.filter (·.1 != k) }) := by
  have hs : (abs c).items.lookup k = some e.val := by
    show List.lookup k (c.lruList.map kv) = some e.val
    rw [lookup_map_kv, hf]; rfl
  unfold sget
  rw [hs]
  rfl

theorem sget_miss {c : Cache} {k : Nat} (hf : c.lruList.find? (·.key == k) = none) :
    sget (abs c) k = (0, abs c) := by
  have hs : (abs c).items.lookup k = none := by
    show List.lookup k (c.lruList.map kv) = none
    rw [lookup_map_kv, hf]; rfl
  unfold sget
  rw [hs]

theorem get_refines {c : Cache} (hI : Inv c) (k : Nat) :
    (get c k).1 = (sget (abs c) k).1 ∧ abs (get c k).2 = (sget (abs c) k).2 ∧ Inv (get c k).2 := by
  cases hf : c.lruList.find? (·.key == k) with
  | none =>
    rw [get_miss hI hf, sget_miss hf]
    exact ⟨rfl, rfl, hI⟩
  | some e =>
    have hek := (find_key_prop hf).1
    rw [get_hit hI hf, sget_hit hf]
    refine ⟨rfl, ?_, ?_⟩
    · exact abs_touch c k e hek e.val
    · exact inv_touch hI hf e.val

theorem cap_ge {n cap : Nat} (h : cap < 2 ^ 63) : ((n : Int) ≥ capInt cap) ↔ n ≥ cap := by
  simp only [capInt, h, if_true]
  omega

theorem put_hit {c : Cache} (hI : Inv c) {k : Nat} {e : Elem}
    (hf : c.lruList.find? (·.key == k) = some e) (v : Nat) :
    put c k v = { c with lruList := { e with val := v } :: c.lruList.filter (·.key != k) } := by
  have hl : c.cache.lookup k = some e.id := by rw [hI.look k, hf]; rfl
  unfold put
  rw [hl]
  simp only [moveToFront_setVal_eq hI.ids hI.keys hf]

theorem mem_keys_iff (c : Cache) (k : Nat) : k ∈ (abs c).keys ↔ k ∈ c.lruList.map (·.key) := by
  simp [abs, SCache.keys, List.map_map]

theorem sput_hit {c : Cache} {k : Nat} {e : Elem} (hf : c.lruList.find? (·.key == k) = some e) (v : Nat) :
    sput (abs c) k v = { cap := c.capacity, items := (k, v) :: (abs c).items.filter (·.1 != k) } := by
  have ⟨hek, hem⟩ := find_key_prop hf
  have hmem : k ∈ (abs c).keys := (mem_keys_iff c k).mpr (List.mem_map.mpr ⟨e, hem, hek⟩)
  unfold sput
  rw [if_pos hmem]
  rfl

/-- the state after inserting a fresh key: `l1`/`m1` are list and map after the optional eviction -/
def pushNew (c : Cache) (m1 : List (Nat × Nat)) (l1 : List Elem) (k v : Nat) : Cache :=
  { capacity := c.capacity, cache := (k, c.nextId) :: m1,
    lruList := { id := c.nextId, key := k, val := v } :: l1, nextId := c.nextId + 1 }

theorem put_new_room {c : Cache} (hI : Inv c) (hc : c.capacity < 2 ^ 63) {k : Nat}
    (hf : c.lruList.find? (·.key == k) = none) (hroom : c.cache.length < c.capacity) (v : Nat) :
    put c k v = pushNew c c.cache c.lruList k v := by
  have hl : c.cache.lookup k = none := by rw [hI.look k, hf]; rfl
  have hfull' : ¬ ((c.cache.length : Int) ≥ capInt c.capacity) := fun h => by
    have := (cap_ge hc).mp h; omega
  unfold put
  rw [hl]
  simp only [hfull', if_false, mapSet, mapDelete_id hl, pushNew]

theorem put_new_evict {c : Cache} (hI : Inv c) (hc : c.capacity < 2 ^ 63) {k : Nat}
    (hf : c.lruList.find? (·.key == k) = none) (hfull : c.cache.length ≥ c.capacity)
    {last : Elem} (hlast : c.lruList.getLast? = some last) (v : Nat) :
    put c k v = pushNew c (mapDelete c.cache last.key) c.lruList.dropLast k v := by
  have hl : c.cache.lookup k = none := by rw [hI.look k, hf]; rfl
  have hfull' : ((c.cache.length : Int) ≥ capInt c.capacity) := (cap_ge hc).mpr hfull
  have hlk2 : (mapDelete c.cache last.key).lookup k = none := by
    rw [lookup_mapDelete]; simp [hl]
  unfold put
  rw [hl]
  simp only [hfull', if_true, hlast, mapSet, listRemove, eraseP_last hI.ids hlast,
    mapDelete_id hlk2, pushNew]

theorem put_new_empty {c : Cache} (hI : Inv c) (hc : c.capacity < 2 ^ 63) {k : Nat}
    (hnil : c.lruList = []) (v : Nat) :
    put c k v = pushNew c [] [] k v := by
  have hcn : c.cache = [] := by
    have := hI.size; rw [hnil] at this; simpa using this
  unfold put
  rw [hcn, hnil]
  simp only [List.lookup_nil, List.getLast?_nil, mapSet, mapDelete, pushNew]
  split <;> simp [hcn, hnil]

theorem sput_new {c : Cache} {k : Nat} (hf : c.lruList.find? (·.key == k) = none) (v : Nat) :
    sput (abs c) k v = { cap := c.capacity, items := (k, v) ::
      (if (abs c).items.length ≥ c.capacity then (abs c).items.dropLast else (abs c).items) } := by
  have hmem : k ∉ (abs c).keys := fun h => find_key_none hf ((mem_keys_iff c k).mp h)
  unfold sput
  rw [if_neg hmem]
  rfl

theorem abs_pushNew (c : Cache) (m1 : List (Nat × Nat)) (l1 : List Elem) (k v : Nat) :
    abs (pushNew c m1 l1 k v) = { cap := c.capacity, items := (k, v) :: l1.map (fun e => (e.key, e.val)) } := rfl

/-- invariant after inserting a fresh key into a consistent (map, list) pair -/
theorem inv_pushNew (c : Cache) (m1 : List (Nat × Nat)) (l1 : List Elem) (k v : Nat)
    (h1 : (m1.map (·.1)).Nodup) (h2 : (l1.map (·.id)).Nodup) (h3 : (l1.map (·.key)).Nodup)
    (h4 : ∀ k', m1.lookup k' = (l1.find? (·.key == k')).map (·.id))
    (h5 : ∀ e ∈ l1, e.id < c.nextId) (h6 : m1.length = l1.length)
    (hk : k ∉ l1.map (·.key)) : Inv (pushNew c m1 l1 k v) := by
  have hkm : k ∉ m1.map (·.1) := by
    intro hm
    obtain ⟨w, hw⟩ := lookup_some_of_mem hm
    rw [h4 k] at hw
    cases hfk : l1.find? (·.key == k) with
    | none => rw [hfk] at hw; cases hw
    | some e => exact hk (List.mem_map.mpr ⟨e, (find_key_prop hfk).2, (find_key_prop hfk).1⟩)
  refine ⟨?_, ?_, ?_, ?_, ?_, ?_⟩
  · simp only [pushNew, List.map_cons, List.nodup_cons]
    exact ⟨hkm, h1⟩
  · simp only [pushNew, List.map_cons, List.nodup_cons]
    refine ⟨?_, h2⟩
    intro hm
    obtain ⟨x, hx, hxe⟩ := List.mem_map.mp hm
    have := h5 x hx
    have hxe' : x.id = c.nextId := hxe
    omega
  · simp only [pushNew, List.map_cons, List.nodup_cons]
    exact ⟨hk, h3⟩
  · intro k'
    simp only [pushNew]
    by_cases hk' : k' = k
    · subst hk'
      rw [lookup_cons_eq, find_key_cons_eq (k := k') (a := ⟨c.nextId, k', v⟩) rfl]; rfl
    · rw [lookup_cons_ne _ _ hk', find_key_cons_ne (show ({ id := c.nextId, key := k, val := v } : Elem).key ≠ k' from
        fun h => hk' h.symm), h4 k']
  · intro x hx
    simp only [pushNew] at hx ⊢
    rcases List.mem_cons.mp hx with rfl | hx'
    · simp
    · have := h5 x hx'; omega
  · simp [pushNew, h6]

theorem put_capacity (c : Cache) (k v : Nat) : (put c k v).capacity = c.capacity := by
  unfold put
  split
  · rfl
  · split
    · split <;> rfl
    · rfl

theorem get_capacity (c : Cache) (k : Nat) : (get c k).2.capacity = c.capacity := by
  unfold get
  split
  · split <;> rfl
  · rfl

theorem put_refines {c : Cache} (hI : Inv c) (hc : c.capacity < 2 ^ 63) (k v : Nat) :
    abs (put c k v) = sput (abs c) k v ∧ Inv (put c k v) := by
  cases hf : c.lruList.find? (·.key == k) with
  | some e =>
    have hek := (find_key_prop hf).1
    rw [put_hit hI hf, sput_hit hf]
    exact ⟨abs_touch c k e hek v, inv_touch hI hf v⟩
  | none =>
    have hnk : k ∉ c.lruList.map (·.key) := find_key_none hf
    have hlen : (abs c).items.length = c.cache.length := by simp [abs, hI.size]
    rw [sput_new hf]
    by_cases hfull : c.cache.length ≥ c.capacity
    · have hfs : (abs c).items.length ≥ c.capacity := by rw [hlen]; exact hfull
      rw [if_pos hfs]
      cases hlast : c.lruList.getLast? with
      | none =>
        have hnil : c.lruList = [] := by simpa using hlast
        rw [put_new_empty hI hc hnil]
        refine ⟨?_, ?_⟩
        · rw [abs_pushNew]; simp [abs, hnil]
        · apply inv_pushNew <;> simp
      | some last =>
        rw [put_new_evict hI hc hf hfull hlast]
        have hlm : last ∈ c.lruList := List.mem_of_getLast? hlast
        obtain ⟨ys, hys⟩ := List.getLast?_eq_some_iff.mp hlast
        have hdl : c.lruList.dropLast = ys := by rw [hys]; simp
        have hkn : (ys.map (·.key) ++ [last.key]).Nodup := by
          have := hI.keys; rw [hys] at this; simpa using this
        have hin : (ys.map (·.id) ++ [last.id]).Nodup := by
          have := hI.ids; rw [hys] at this; simpa using this
        have hlk : last.key ∉ ys.map (·.key) := by
          intro hh
          have := (List.nodup_append.mp hkn).2.2 _ hh last.key (by simp)
          exact this rfl
        have hnk' : k ∉ ys.map (·.key) := fun hh => hnk (by
          rw [hys]; simp only [List.map_append, List.mem_append]; exact Or.inl hh)
        have hfind_last : c.lruList.find? (·.key == last.key) = some last := by
          rw [hys, List.find?_append]
          have : ys.find? (·.key == last.key) = none := by
            rw [List.find?_eq_none]
            intro x hx hxk
            exact hlk (List.mem_map.mpr ⟨x, hx, by simpa using hxk⟩)
          rw [this]; simp
        have hlook_last : c.cache.lookup last.key = some last.id := by
          rw [hI.look, hfind_last]; rfl
        rw [hdl]
        refine ⟨?_, ?_⟩
        · rw [abs_pushNew]
          simp [abs, hys]
        · apply inv_pushNew
          · exact List.Pairwise.sublist (mapDelete_keys_sub _ _) hI.mapKeys
          · exact (List.nodup_append.mp hin).1
          · exact (List.nodup_append.mp hkn).1
          · intro k'
            rw [lookup_mapDelete]
            by_cases hkl : k' = last.key
            · subst hkl
              have : ys.find? (·.key == last.key) = none := by
                rw [List.find?_eq_none]
                intro x hx hxk
                exact hlk (List.mem_map.mpr ⟨x, hx, by simpa using hxk⟩)
              simp [this]
            · rw [if_neg hkl, hI.look k', hys, List.find?_append]
              cases hd : ys.find? (·.key == k') with
              | some x => simp
              | none =>
                have : last.key ≠ k' := fun h => hkl h.symm
                simp [find_key_cons_ne this]
          · intro x hx
            exact hI.fresh x (by rw [hys]; exact List.mem_append_left _ hx)
          · have h1 := length_mapDelete hI.mapKeys hlook_last
            have h3 := hI.size
            rw [hys] at h3
            simp only [List.length_append, List.length_cons, List.length_nil] at h3
            omega
          · exact hnk'
    · have hfs : ¬ ((abs c).items.length ≥ c.capacity) := by rw [hlen]; exact hfull
      rw [if_neg hfs, put_new_room hI hc hf (by omega)]
      refine ⟨rfl, ?_⟩
      exact inv_pushNew c c.cache c.lruList k v hI.mapKeys hI.ids hI.keys hI.look hI.fresh hI.size hnk

theorem step_refines {c : Cache} (hI : Inv c) (hc : c.capacity < 2 ^ 63) (op : Op) :
    (step c op).1 = (sstep (abs c) op).1 ∧ abs (step c op).2 = (sstep (abs c) op).2 ∧
      Inv (step c op).2 ∧ (step c op).2.capacity = c.capacity := by
  cases op with
  | get k =>
    have := get_refines hI k
    exact ⟨this.1, this.2.1, this.2.2, get_capacity c k⟩
  | put k v =>
    have := put_refines hI hc k v
    exact ⟨rfl, this.1, this.2, put_capacity c k v⟩

theorem run_refines (ops : List Op) : ∀ {c : Cache}, Inv c → c.capacity < 2 ^ 63 →
    (run c ops).1 = (srun (abs c) ops).1 ∧ abs (run c ops).2 = (srun (abs c) ops).2 ∧ Inv (run c ops).2 := by
  induction ops with
  | nil => intro c hI _; exact ⟨rfl, rfl, hI⟩
  | cons op ops ih =>
    intro c hI hc
    have h := step_refines hI hc op
    have ih' := ih h.2.2.1 (by rw [h.2.2.2]; exact hc)
    simp only [run, srun]
    rw [← h.2.1]
    refine ⟨?_, ih'.2.1, ih'.2.2⟩
    rw [h.1, ih'.1]

theorem new_capacity_lt {cap : Nat} (h : cap < 2 ^ 63) : (new cap).capacity < 2 ^ 63 := by
  simp only [new, defaultCapacity]
  split <;> omega

theorem abs_new (cap : Nat) : abs (new cap) = snew cap := rfl

/-- **C35_refines.**  For every capacity below 2^63 (0 meaning the default 20) and every
    sequence of Get/Put, the map+list implementation returns exactly what the capacity-bounded
    recency list returns, and its final content (recency order included) is the spec's. -/
theorem C35_refines (cap : Nat) (hcap : cap < 2 ^ 63) (ops : List Op) :
    (run (new cap) ops).1 = (srun (snew cap) ops).1 ∧
    abs (run (new cap) ops).2 = (srun (snew cap) ops).2 := by
  have := run_refines ops (inv_new cap) (new_capacity_lt hcap)
  exact ⟨this.1, this.2.1⟩

/-- the representation invariant (map ↔ list bijection, distinct keys, equal sizes) holds in
    every reachable state -/
theorem C35_invariant (cap : Nat) (hcap : cap < 2 ^ 63) (ops : List Op) :
    Inv (run (new cap) ops).2 :=
  (run_refines ops (inv_new cap) (new_capacity_lt hcap)).2.2

/-- outside the proved region: a capacity ≥ 2^63 is reinterpreted as a negative `int`, the cache
    then evicts on every insertion (it behaves as a capacity-1 cache) -/
theorem C35_refines_counterexample :
    abs (run (new (2 ^ 63)) [.put 1 1, .put 2 2]).2 ≠ (srun (snew (2 ^ 63)) [.put 1 1, .put 2 2]).2 := by
  decide

example : (run (new 2) [.put 1 5, .put 2 6, .get 1, .put 3 7, .get 2, .get 1]).1 = [0, 0, 5, 0, 0, 5] := by decide

/-! ### capacity bound -/

theorem step_length {c : Cache} (hI : Inv c) (hc : c.capacity < 2 ^ 63) (h1 : 1 ≤ c.capacity)
    (hb : c.lruList.length ≤ c.capacity) (op : Op) :
    (step c op).2.lruList.length ≤ c.capacity := by
  have hsz := hI.size
  cases op with
  | get k =>
    simp only [step]
    cases hf : c.lruList.find? (·.key == k) with
    | none => rw [get_miss hI hf]; exact hb
    | some e =>
      rw [get_hit hI hf]
      have := (inv_touch hI hf e.val).size
      simp only [List.length_cons] at this ⊢
      omega
  | put k v =>
    simp only [step]
    cases hf : c.lruList.find? (·.key == k) with
    | some e =>
      rw [put_hit hI hf]
      have := (inv_touch hI hf v).size
      simp only [List.length_cons] at this ⊢
      omega
    | none =>
      by_cases hfull : c.cache.length ≥ c.capacity
      · cases hlast : c.lruList.getLast? with
        | none =>
          have hnil : c.lruList = [] := by simpa using hlast
          rw [put_new_empty hI hc hnil]
          simpa [pushNew] using h1
        | some last =>
          rw [put_new_evict hI hc hf hfull hlast]
          have hpos : 0 < c.lruList.length := List.length_pos_of_mem (List.mem_of_getLast? hlast)
          simp only [pushNew, List.length_cons, List.length_dropLast]
          omega
      · rw [put_new_room hI hc hf (by omega)]
        simp only [pushNew, List.length_cons]
        omega

theorem run_length (ops : List Op) : ∀ {c : Cache}, Inv c → c.capacity < 2 ^ 63 → 1 ≤ c.capacity →
    c.lruList.length ≤ c.capacity → (run c ops).2.lruList.length ≤ c.capacity := by
  induction ops with
  | nil => intro c _ _ _ hb; exact hb
  | cons op ops ih =>
    intro c hI hc h1 hb
    have h := step_refines hI hc op
    have hl := step_length hI hc h1 hb op
    simp only [run]
    have := ih h.2.2.1 (by rw [h.2.2.2]; exact hc) (by rw [h.2.2.2]; exact h1) (by rw [h.2.2.2]; exact hl)
    rw [h.2.2.2] at this
    exact this

theorem new_capacity_pos (cap : Nat) : 1 ≤ (new cap).capacity := by
  simp only [new, defaultCapacity]
  split <;> omega

/-- **C35_capacity.**  In every reachable state the cache holds at most `capacity` entries
    (list and map alike), where capacity 0 stands for the default 20. -/
theorem C35_capacity (cap : Nat) (hcap : cap < 2 ^ 63) (ops : List Op) :
    (run (new cap) ops).2.lruList.length ≤ (if cap < 1 then 20 else cap) ∧
    (run (new cap) ops).2.cache.length ≤ (if cap < 1 then 20 else cap) := by
  have h := run_length ops (inv_new cap) (new_capacity_lt hcap) (new_capacity_pos cap) (by simp [new])
  have hs := (C35_invariant cap hcap ops).size
  have hcapeq : (new cap).capacity = (if cap < 1 then 20 else cap) := rfl
  rw [hcapeq] at h
  exact ⟨h, by rw [hs]; exact h⟩

/-! ### the evicted entry is the least recently used one -/

def Op.key : Op → Nat
  | .get k => k
  | .put k _ => k

/-- clock and per-key time stamp of the last operation that names the key (hit or miss) -/
def touch (tm : Nat × (Nat → Nat)) (op : Op) : Nat × (Nat → Nat) :=
  (tm.1 + 1, fun k => if k = op.key then tm.1 + 1 else tm.2 k)

/-- `lastTouch ops k` = 1-based position of the last operation of `ops` naming `k`; 0 = never.
    Purely syntactic: it does not look at the cache. -/
def lastTouch (ops : List Op) (k : Nat) : Nat := (ops.foldl touch (0, fun _ => 0)).2 k

def sstate (s : SCache) (ops : List Op) : SCache := ops.foldl (fun s op => (sstep s op).2) s

theorem srun_state (ops : List Op) : ∀ s, (srun s ops).2 = sstate s ops := by
  induction ops with
  | nil => intro s; rfl
  | cons op ops ih => intro s; simp only [srun, sstate, List.foldl_cons]; exact ih _

/-- recency order = order of time stamps, and stamps never exceed the clock -/
def Stamped (s : SCache) (tm : Nat × (Nat → Nat)) : Prop :=
  s.keys.Pairwise (fun a b => tm.2 a > tm.2 b) ∧ ∀ k, tm.2 k ≤ tm.1

theorem keys_cons_filter (s : SCache) (k v : Nat) :
    ({ s with items := (k, v) :: s.items.filter (·.1 != k) } : SCache).keys = k :: s.keys.filter (· != k) := by
  simp only [SCache.keys, List.map_cons, List.filter_map]
  rfl

theorem stamped_front {keys : List Nat} {tm : Nat × (Nat → Nat)} (op : Op) (l : List Nat)
    (hs : keys.Pairwise (fun a b => tm.2 a > tm.2 b)) (hle : ∀ k, tm.2 k ≤ tm.1)
    (hsub : l.Sublist keys) (hnk : op.key ∉ l) :
    (op.key :: l).Pairwise (fun a b => (touch tm op).2 a > (touch tm op).2 b) := by
  rw [List.pairwise_cons]
  constructor
  · intro a ha
    have hne : a ≠ op.key := fun h => hnk (h ▸ ha)
    simp only [touch, hne, if_false, if_true]
    have := hle a
    omega
  · have h1 := List.Pairwise.sublist hsub hs
    apply List.Pairwise.imp_of_mem _ h1
    intro a b ha hb hab
    have hna : a ≠ op.key := fun h => hnk (h ▸ ha)
    have hnb : b ≠ op.key := fun h => hnk (h ▸ hb)
    simp only [touch, hna, hnb, if_false]
    exact hab

theorem touch_le (tm : Nat × (Nat → Nat)) (op : Op) (hle : ∀ k, tm.2 k ≤ tm.1) :
    ∀ k, (touch tm op).2 k ≤ (touch tm op).1 := by
  intro k
  simp only [touch]
  split
  · omega
  · have := hle k; omega

theorem not_mem_filter_ne (l : List Nat) (k : Nat) : k ∉ l.filter (· != k) := by
  intro h
  have := (List.mem_filter.mp h).2
  simp at this

theorem stamped_step {s : SCache} {tm : Nat × (Nat → Nat)} (h : Stamped s tm) (op : Op) :
    Stamped (sstep s op).2 (touch tm op) := by
  obtain ⟨hs, hle⟩ := h
  refine ⟨?_, touch_le tm op hle⟩
  cases op with
  | get k =>
    simp only [sstep, sget]
    cases hl : s.items.lookup k with
    | none =>
      have hnk : k ∉ s.keys := by
        intro hm
        obtain ⟨w, hw⟩ := lookup_some_of_mem hm
        rw [hl] at hw; cases hw
      apply List.Pairwise.imp_of_mem _ hs
      intro a b ha hb hab
      have hna : a ≠ k := fun h => hnk (h ▸ ha)
      have hnb : b ≠ k := fun h => hnk (h ▸ hb)
      simp only [touch, Op.key, hna, hnb, if_false]
      exact hab
    | some v =>
      simp only
      rw [keys_cons_filter]
      exact stamped_front (.get k) _ hs hle List.filter_sublist (not_mem_filter_ne _ _)
  | put k v =>
    simp only [sstep, sput]
    by_cases hm : k ∈ s.keys
    · rw [if_pos hm, keys_cons_filter]
      exact stamped_front (.put k v) _ hs hle List.filter_sublist (not_mem_filter_ne _ _)
    · rw [if_neg hm]
      simp only [SCache.keys, List.map_cons]
      split
      · rw [List.map_dropLast]
        exact stamped_front (.put k v) _ hs hle (List.dropLast_sublist _)
          (fun h => hm ((List.dropLast_sublist _).subset h))
      · exact stamped_front (.put k v) _ hs hle (List.Sublist.refl _) hm

theorem stamped_run (ops : List Op) : ∀ (s : SCache) (tm : Nat × (Nat → Nat)), Stamped s tm →
    Stamped (sstate s ops) (ops.foldl touch tm) := by
  induction ops with
  | nil => intro s tm h; exact h
  | cons op ops ih =>
    intro s tm h
    simp only [sstate, List.foldl_cons]
    exact ih _ _ (stamped_step h op)

/-- in every reachable state the recency list is sorted by strictly decreasing `lastTouch` -/
theorem C35_recency_order (cap : Nat) (ops : List Op) :
    (srun (snew cap) ops).2.keys.Pairwise (fun a b => lastTouch ops a > lastTouch ops b) := by
  rw [srun_state]
  exact (stamped_run ops (snew cap) (0, fun _ => 0) ⟨by simp [snew, SCache.keys], fun _ => Nat.le_refl _⟩).1

theorem run_capacity (ops : List Op) : ∀ (c0 : Cache), (run c0 ops).2.capacity = c0.capacity := by
  induction ops with
  | nil => intro c0; rfl
  | cons op ops ih =>
    intro c0
    simp only [run]
    rw [ih]
    cases op with
    | get k => exact get_capacity c0 k
    | put k v => exact put_capacity c0 k v

/-- **C35_evicts_lru.**  Putting a new key into a full cache removes exactly one entry, the
    `victim`, and the victim is the present key whose last use (last operation naming it, as
    read off the operation history, independently of the cache) is the oldest; every other
    entry stays, in the same recency order, behind the new key.  Stated on the implementation
    model (`run`, `put`) for every capacity below 2^63 and every history. -/
theorem C35_evicts_lru (cap : Nat) (hcap : cap < 2 ^ 63) (ops : List Op) (k v : Nat) :
    let c := (run (new cap) ops).2
    k ∉ (abs c).keys → (abs c).items.length ≥ c.capacity →
    ∃ victim, (abs c).keys.getLast? = some victim ∧
      (∀ k' ∈ (abs c).keys, k' ≠ victim → lastTouch ops victim < lastTouch ops k') ∧
      (abs (put c k v)).keys = k :: (abs c).keys.dropLast ∧
      victim ∉ (abs (put c k v)).keys := by
  intro c hk hfull
  have hI : Inv c := C35_invariant cap hcap ops
  have hceq : c.capacity = (new cap).capacity := run_capacity ops (new cap)
  have hcc : c.capacity < 2 ^ 63 := by rw [hceq]; exact new_capacity_lt hcap
  have hpos : 1 ≤ c.capacity := by rw [hceq]; exact new_capacity_pos cap
  have hsorted : (abs c).keys.Pairwise (fun a b => lastTouch ops a > lastTouch ops b) := by
    have := C35_recency_order cap ops
    rw [← (C35_refines cap hcap ops).2] at this
    exact this
  have hne : (abs c).items ≠ [] := by
    intro h
    rw [h] at hfull
    simp at hfull
    omega
  have hkne : (abs c).keys ≠ [] := by
    simpa [SCache.keys] using hne
  obtain ⟨victim, hv⟩ : ∃ victim, (abs c).keys.getLast? = some victim := by
    cases hg : (abs c).keys.getLast? with
    | none => exact absurd (List.getLast?_eq_none_iff.mp hg) hkne
    | some x => exact ⟨x, rfl⟩
  obtain ⟨ys, hys⟩ := List.getLast?_eq_some_iff.mp hv
  have hdl : (abs c).keys.dropLast = ys := by rw [hys]; simp
  have hpw := hsorted
  rw [hys, List.pairwise_append] at hpw
  have hput : (abs (put c k v)).keys = k :: (abs c).keys.dropLast := by
    rw [(put_refines hI hcc k v).1]
    have hfull' : (abs c).items.length ≥ (abs c).cap := hfull
    simp only [sput, hk, if_false, hfull', if_true]
    simp [SCache.keys, List.map_dropLast]
  refine ⟨victim, hv, ?_, hput, ?_⟩
  · intro k' hk' hne'
    rw [hys] at hk'
    rcases List.mem_append.mp hk' with h | h
    · exact hpw.2.2 k' h victim (by simp)
    · simp at h; exact absurd h hne'
  · rw [hput, hdl]
    intro hm
    rcases List.mem_cons.mp hm with h | h
    · apply hk; rw [hys, ← h]; simp
    · have := hpw.2.2 victim h victim (by simp)
      omega

/-- non-vacuity: a full cache of capacity 2 with history put 1, put 2, get 1 — putting 3 evicts 2 -/
example : (abs (put (run (new 2) [.put 1 5, .put 2 6, .get 1]).2 3 7)).keys = [3, 1] := by decide

/-! ### the trie-cache wrapper (pkg/trie/cache/inmemory/trie_cache.go) -/

theorem natOfBE_lt' (b : Bytes) : natOfBE b < 256 ^ b.length := by
  induction b with
  | nil => simp [natOfBE]
  | cons x xs ih =>
    rw [natOfBE_cons, List.length_cons, Nat.pow_succ]
    have hx := x.toNat_lt
    have : x.toNat * 256 ^ xs.length ≤ 255 * 256 ^ xs.length := Nat.mul_le_mul_right _ (by omega)
    omega

theorem natOfBE_inj_len : ∀ (a b : Bytes), a.length = b.length → natOfBE a = natOfBE b → a = b := by
  intro a
  induction a with
  | nil => intro b hl _; cases b with
    | nil => rfl
    | cons _ _ => cases hl
  | cons x xs ih =>
    intro b hl he
    cases b with
    | nil => cases hl
    | cons y ys =>
      have hl' : xs.length = ys.length := by simpa using hl
      rw [natOfBE_cons, natOfBE_cons, hl'] at he
      have h1 := natOfBE_lt' xs
      have h2 := natOfBE_lt' ys
      rw [hl'] at h1
      have hpos : 0 < 256 ^ ys.length := Nat.pow_pos (by omega)
      have hxy : x.toNat = y.toNat := by
        rcases Nat.lt_trichotomy x.toNat y.toNat with h | h | h
        · have : (x.toNat + 1) * 256 ^ ys.length ≤ y.toNat * 256 ^ ys.length := Nat.mul_le_mul_right _ h
          rw [Nat.add_mul] at this; omega
        · exact h
        · have : (y.toNat + 1) * 256 ^ ys.length ≤ x.toNat * 256 ^ ys.length := Nat.mul_le_mul_right _ h
          rw [Nat.add_mul] at this; omega
      have hr : natOfBE xs = natOfBE ys := by rw [hxy] at he; omega
      have := ih ys hl' hr
      have hx : x = y := UInt8.toNat_inj.mp hxy
      rw [this, hx]

/-- distinct byte strings are distinct cache keys (and `nil` = 0 is not a code) -/
theorem encBytes_injective (a b : Bytes) (h : encBytes a = encBytes b) : a = b := by
  unfold encBytes at h
  rw [natOfBE_cons, natOfBE_cons] at h
  have ha := natOfBE_lt' a
  have hb := natOfBE_lt' b
  have hlen : a.length = b.length := by
    rcases Nat.lt_trichotomy a.length b.length with hl | hl | hl
    · have : 256 ^ (a.length + 1) ≤ 256 ^ b.length := Nat.pow_le_pow_right (by omega) hl
      rw [Nat.pow_succ] at this
      have : UInt8.toNat 1 = 1 := rfl
      simp only [this, Nat.one_mul] at h
      omega
    · exact hl
    · have : 256 ^ (b.length + 1) ≤ 256 ^ a.length := Nat.pow_le_pow_right (by omega) hl
      rw [Nat.pow_succ] at this
      have : UInt8.toNat 1 = 1 := rfl
      simp only [this, Nat.one_mul] at h
      omega
  apply natOfBE_inj_len a b hlen
  rw [hlen] at h
  omega

theorem encBytes_pos (a : Bytes) : 0 < encBytes a := by
  unfold encBytes
  rw [natOfBE_cons]
  have : UInt8.toNat 1 = 1 := rfl
  have hp : 0 < 256 ^ a.length := Nat.pow_pos (by omega)
  simp only [this, Nat.one_mul]
  omega

theorem trun_refines (ops : List TOp) : ∀ (t : TrieCache) (u : TSpec), Inv t.node →
    t.node.capacity < 2 ^ 63 → abs t.node = u.node → t.value = u.value →
    (trun t ops).1 = (tsrun u ops).1 := by
  induction ops with
  | nil => intro t u _ _ _ _; rfl
  | cons op ops ih =>
    intro t u hI hc ha hv
    simp only [trun, tsrun]
    cases op with
    | setn k v =>
      have h := put_refines hI hc (encBytes k) (encBytes v)
      simp only [tstep, tsstep]
      have := ih { node := put t.node (encBytes k) (encBytes v), value := t.value }
        { node := sput u.node (encBytes k) (encBytes v), value := u.value } h.2
        (by show (put t.node _ _).capacity < _; rw [put_capacity]; exact hc)
        (by show abs (put t.node _ _) = _; rw [h.1, ha]) hv
      rw [this]
    | getn k =>
      have h := get_refines hI (encBytes k)
      simp only [tstep, tsstep]
      have := ih { node := (get t.node (encBytes k)).2, value := t.value }
        { node := (sget u.node (encBytes k)).2, value := u.value } h.2.2
        (by show (get t.node _).2.capacity < _; rw [get_capacity]; exact hc)
        (by show abs (get t.node _).2 = _; rw [h.2.1, ha]) hv
      rw [this, h.1, ha]
    | setv k v =>
      simp only [tstep, tsstep]
      have := ih { node := t.node, value := mapSet t.value (encBytes k) (encBytes v) }
        { node := u.node, value := mapSet u.value (encBytes k) (encBytes v) } hI hc ha (by show mapSet _ _ _ = _; rw [hv])
      rw [this]
    | getv k =>
      simp only [tstep, tsstep]
      rw [ih t u hI hc ha hv, hv]

/-- **C35_triecache_refines.**  The wrapper `TrieInMemoryCache` (node capacity `cap` < 2^63)
    returns, for every sequence of SetNode / GetNode / SetValue / GetValue, what a
    capacity-bounded recency list and a map keyed by the BYTES of the key at call time return.
    Keys are values (`encBytes` is injective): nothing the caller later does to the buffer it
    passed can change any answer.  (Value cache: below its byte budget, see Model.) -/
theorem C35_triecache_refines (cap : Nat) (hcap : cap < 2 ^ 63) (ops : List TOp) :
    (trun (tnew cap) ops).1 = (tsrun (tsnew cap) ops).1 :=
  trun_refines ops (tnew cap) (tsnew cap) (inv_new cap) (new_capacity_lt hcap) rfl rfl

example : (trun (tnew 2) [.setn [10] [1], .setn [11] [2], .getn [10], .setn [12] [], .getn [11], .getn [12]]).1
    = [0, 0, encBytes [1], 0, 0, encBytes []] := by decide

/-! ### concurrent part: lock table + monitor theorem -/

open Gossamer.Monitor in
/-- the lock table as Monitor methods -/
def table : List Monitor.Method := (Monitor.ofTriples lockTable).getD []

/-- **C35_race_free.**  Over the lock table of `LRUCache` as transcribed when this file was
    written (informational: the check does NOT compare against it, it decides the table it
    extracts from lru_cache.go at run time with the same `Monitor.raceFree`): every method that writes the
    guarded fields holds the exclusive lock and every reader holds a lock, hence no two
    conflicting methods can be inside their critical sections together. -/
theorem C35_race_free :
    table.length = 2 ∧ Monitor.disciplined table = true ∧ Monitor.raceFree table = true := by
  decide

/-- the table before the repair (Get under RLock) is rejected by the same check -/
theorem C35_race_free_counterexample :
    Monitor.raceFree [⟨"Get", .rlock, .writes⟩, ⟨"Put", .lock, .writes⟩] = false := by decide

def Op.method : Op → String
  | .get _ => "Get"
  | .put _ _ => "Put"

/-- an invocation of a cache method under lock table `t` (any table the harness may extract):
    it takes the lock the table assigns to its method and runs its body (one micro-step here;
    `Monitor.linearizable` holds for any split of a body into micro-steps) -/
def invOf (t : List Monitor.Method) (op : Op) : Monitor.Inv Cache Nat :=
  { mode := Monitor.modeIn t op.method, body := [fun c _ => ((step c op).2, (step c op).1)], init := 0 }

/-- what the lock-table check establishes for a table: it is race free, and the extractor
    classifies Get and Put as writers of the guarded fields (Get reorders the recency list) -/
structure GoodTable (t : List Monitor.Method) : Prop where
  raceFree : Monitor.raceFree t = true
  get : Monitor.accessIn t "Get" = .writes
  put : Monitor.accessIn t "Put" = .writes

/-- today's table is one such table (the check itself decides the table extracted at run time) -/
theorem goodTable_today : GoodTable table := by
  refine ⟨?_, ?_, ?_⟩ <;> decide

theorem invOf_mode {t : List Monitor.Method} (ht : GoodTable t) (op : Op) : (invOf t op).mode = .lock := by
  cases op with
  | get k => exact Monitor.modeIn_lock ht.raceFree ht.get
  | put k v => exact Monitor.modeIn_lock ht.raceFree ht.put

theorem seqRun_invOf (t : List Monitor.Method) (calls : Nat → Op) (order : List Nat) : ∀ c : Cache,
    Monitor.seqRun (fun i => invOf t (calls i)) c order =
      ((run c (order.map calls)).2, order.zip (run c (order.map calls)).1) := by
  induction order with
  | nil => intro c; rfl
  | cons i is ih =>
    intro c
    simp only [Monitor.seqRun, List.map_cons, run, List.zip_cons_cons]
    have hb : Monitor.runBody (invOf t (calls i)).body c (invOf t (calls i)).init =
        ((step c (calls i)).2, (step c (calls i)).1) := rfl
    rw [hb, ih]

/-- **C35_linearizable.**  For ANY lock table `t` that the check accepts (race free, Get and Put
    classified as writers): any number of goroutines call Get/Put (`calls i` is the i-th
    invocation) on a cache created with capacity `cap`; each invocation acquires the lock the
    table assigns to its method, runs, and releases; acquisitions obey the RWMutex rules; the
    interleaving is otherwise arbitrary.  Whenever no invocation is in progress, the cache state
    and the value returned to every invocation are exactly those of the sequential model run of
    the invocations in release order, hence (C35_refines) those of the capacity-bounded recency
    list.  Release order extends real-time order. -/
theorem C35_linearizable (t : List Monitor.Method) (ht : GoodTable t)
    (cap : Nat) (hcap : cap < 2 ^ 63) (calls : Nat → Op)
    (es : List Monitor.Ev) (c : Monitor.Cfg Cache Nat)
    (hs : Monitor.Steps (fun i => invOf t (calls i)) (Monitor.Cfg.init (new cap)) es c)
    (hq : ∀ j, c.fl j = none) :
    let order := c.log.reverse.map (·.1)
    c.shared = (run (new cap) (order.map calls)).2 ∧
    c.log.reverse = order.zip (run (new cap) (order.map calls)).1 ∧
    (run (new cap) (order.map calls)).1 = (srun (snew cap) (order.map calls)).1 ∧
    abs c.shared = (srun (snew cap) (order.map calls)).2 := by
  intro order
  have hp : Monitor.ReadersPure (fun i => invOf t (calls i)) := by
    intro i hr
    rw [invOf_mode ht] at hr
    cases hr
  have h := Monitor.linearizable _ hp (new cap) es c hs hq
  rw [seqRun_invOf] at h
  have h1 : (run (new cap) (order.map calls)).2 = c.shared := congrArg Prod.fst h
  have h2 : order.zip (run (new cap) (order.map calls)).1 = c.log.reverse := congrArg Prod.snd h
  have hr := C35_refines cap hcap (order.map calls)
  exact ⟨h1.symm, h2.symm, hr.1, by rw [← h1]; exact hr.2⟩

/-- under any accepted table two invocations are never inside the cache at the same time (both
    methods write, so both must take the exclusive lock) -/
theorem C35_mutual_exclusion (t : List Monitor.Method) (ht : GoodTable t) (cap : Nat) (calls : Nat → Op)
    (es : List Monitor.Ev) (c : Monitor.Cfg Cache Nat)
    (hs : Monitor.Steps (fun i => invOf t (calls i)) (Monitor.Cfg.init (new cap)) es c)
    (i j : Nat) (hi : c.fl i ≠ none) (hj : c.fl j ≠ none) : i = j := by
  apply Classical.byContradiction
  intro hij
  have hp : Monitor.ReadersPure (fun i => invOf t (calls i)) := by
    intro i hr
    rw [invOf_mode ht] at hr
    cases hr
  have := (Monitor.no_conflict _ hp (new cap) es c hs i j hi hj hij).1
  rw [invOf_mode ht] at this
  cases this

/-- a table with Get under RLock is never accepted -/
theorem C35_get_needs_lock (t : List Monitor.Method) (ht : GoodTable t) :
    Monitor.modeIn t "Get" = .lock := Monitor.modeIn_lock ht.raceFree ht.get

/-- TrieInMemoryCache has no lock of its own: its table is accepted only while no method touches
    a mutable field of the wrapper (today: all `none pure`); an unsynchronised memo field written by
    GetNode/SetNode is rejected -/
theorem C35_triecache_table :
    Monitor.raceFree [⟨"GetNode", .none, .pure⟩, ⟨"GetValue", .none, .pure⟩, ⟨"SetNode", .none, .pure⟩,
      ⟨"SetValue", .none, .pure⟩] = true ∧
    Monitor.raceFree [⟨"GetNode", .none, .writes⟩, ⟨"GetValue", .none, .pure⟩, ⟨"SetNode", .none, .writes⟩,
      ⟨"SetValue", .none, .pure⟩] = false := by decide

/-! ### the sliding-window limiter (dot/network/ratelimiters/sliding_window.go) -/

/-- number of `AddRequest(id)` in a sequence -/
def adds (ops : List LOp) (id : Nat) : Nat := (ops.filter (fun o => decide (o = LOp.add id))).length

theorem lcount_mapSet (l : Limiter) (id v id' : Nat) :
    lcount (mapSet l id v) id' = if id' = id then v else lcount l id' := by
  unfold lcount mapSet
  by_cases h : id' = id
  · subst h; rw [lookup_cons_eq]; simp
  · rw [lookup_cons_ne _ _ h, lookup_mapDelete]; simp [h]

theorem lrun_count (max : Nat) (ops : List LOp) : ∀ (l : Limiter) (id : Nat),
    lcount (lrun max l ops).2 id = lcount l id + adds ops id := by
  induction ops with
  | nil => intro l id; simp [lrun, adds]
  | cons op ops ih =>
    intro l id
    simp only [lrun]
    rw [ih]
    cases op with
    | add i =>
      simp only [lstep, lcount_mapSet, adds, List.filter_cons]
      by_cases h : id = i
      · subst h; simp; omega
      · have : ¬ (LOp.add i = LOp.add id) := fun e => h (by injection e with e; exact e.symm)
        simp [h, this]
    | exc i =>
      simp only [lstep, lcount_mapSet, adds, List.filter_cons]
      by_cases h : id = i
      · subst h; simp
      · simp [h]

/-- sequential limiter: every AddRequest is counted, and the verdict is `count > max` -/
theorem C35_limiter_seq (max : Nat) (ops : List LOp) (id : Nat) :
    lcount (lrun max [] ops).2 id = adds ops id ∧
    ((lstep max (lrun max [] ops).2 (.exc id)).1 = 1 ↔ adds ops id > max) := by
  have h := lrun_count max ops [] id
  have h0 : lcount [] id = 0 := rfl
  rw [h0, Nat.zero_add] at h
  refine ⟨h, ?_⟩
  simp only [lstep, h]
  by_cases hm : adds ops id > max <;> simp [hm]

def LOp.method : LOp → String
  | .add _ => "AddRequest"
  | .exc _ => "IsLimitExceeded"

def invOfL (t : List Monitor.Method) (max : Nat) (op : LOp) : Monitor.Inv Limiter Nat :=
  { mode := Monitor.modeIn t op.method,
    body := [fun l _ => ((lstep max l op).2, (lstep max l op).1)], init := 0 }

/-- what the lock-table check establishes for the limiter: race free, and both methods are
    read-modify-write sequences on `limits` (writers) — so each holds the limiter mutex across
    its whole Get … Put sequence -/
structure GoodLimiterTable (t : List Monitor.Method) : Prop where
  raceFree : Monitor.raceFree t = true
  add : Monitor.accessIn t "AddRequest" = .writes
  exc : Monitor.accessIn t "IsLimitExceeded" = .writes

theorem goodLimiterTable_today :
    GoodLimiterTable [⟨"AddRequest", .lock, .writes⟩, ⟨"IsLimitExceeded", .lock, .writes⟩] := by
  refine ⟨?_, ?_, ?_⟩ <;> decide

/-- the table after removing the limiter mutex is rejected -/
theorem C35_limiter_unlocked_rejected :
    Monitor.raceFree [⟨"AddRequest", .none, .writes⟩, ⟨"IsLimitExceeded", .none, .writes⟩] = false := by
  decide

theorem seqRun_invOfL (t : List Monitor.Method) (max : Nat) (calls : Nat → LOp) (order : List Nat) :
    ∀ l : Limiter, (Monitor.seqRun (fun i => invOfL t max (calls i)) l order).1 =
      (lrun max l (order.map calls)).2 := by
  induction order with
  | nil => intro l; rfl
  | cons i is ih =>
    intro l
    simp only [Monitor.seqRun, List.map_cons, lrun]
    have hb : Monitor.runBody (invOfL t max (calls i)).body l (invOfL t max (calls i)).init =
        ((lstep max l (calls i)).2, (lstep max l (calls i)).1) := rfl
    rw [hb, ih]

/-- **C35_limiter_counts_all.**  Under any accepted lock table, whatever the interleaving of
    concurrent AddRequest / IsLimitExceeded invocations (`calls i`), once they have all
    completed the limiter has recorded, for every id, exactly as many requests as AddRequest(id)
    invocations completed — none is lost — and IsLimitExceeded(id) answers `that number > max`. -/
theorem C35_limiter_counts_all (t : List Monitor.Method) (ht : GoodLimiterTable t) (max : Nat)
    (calls : Nat → LOp) (es : List Monitor.Ev) (c : Monitor.Cfg Limiter Nat)
    (hs : Monitor.Steps (fun i => invOfL t max (calls i)) (Monitor.Cfg.init []) es c)
    (hq : ∀ j, c.fl j = none) (id : Nat) :
    let done := (c.log.reverse.map (·.1)).map calls
    lcount c.shared id = adds done id ∧
    ((lstep max c.shared (.exc id)).1 = 1 ↔ adds done id > max) := by
  intro done
  have hmode : ∀ op, (invOfL t max op).mode = .lock := by
    intro op
    cases op with
    | add i => exact Monitor.modeIn_lock ht.raceFree ht.add
    | exc i => exact Monitor.modeIn_lock ht.raceFree ht.exc
  have hp : Monitor.ReadersPure (fun i => invOfL t max (calls i)) := by
    intro i hr
    rw [hmode] at hr
    cases hr
  have h := Monitor.linearizable _ hp [] es c hs hq
  have h1 : c.shared = (lrun max [] done).2 := by
    have := congrArg Prod.fst h
    rw [seqRun_invOfL] at this
    exact this.symm
  rw [h1]
  exact C35_limiter_seq max done id

/-- non-vacuity of the hypotheses of C35_linearizable: a Put can run alone to completion -/
example : ∃ c, Monitor.Steps (fun i => invOf table ((fun _ => Op.put 1 5) i)) (Monitor.Cfg.init (new 2))
    [.acq 0, .step 0, .rel 0] c ∧ (∀ j, c.fl j = none) := by
  obtain ⟨c, h1, h2, _⟩ := Monitor.solo_one (fun i => invOf table ((fun _ => Op.put 1 5) i)) 0 _ rfl
    (by rw [invOf_mode goodTable_today]; simp) (new 2)
  exact ⟨c, h1, h2⟩

end Gossamer.C35
