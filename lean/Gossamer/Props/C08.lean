/-
C08 — Runtime storage transactions are transparent and roll back exactly.

Model: `Gossamer/Model/C08.lean` (`storageDiff` + `TrieState`, generic in the committed trie).
Two instances of the committed trie (`Gossamer/Lib/C08Backend.lean`): `memBackend` = the in-memory
trie as it is (tied to the Go code by the differential run) and `idealBackend` = a correct
`trie.Trie` on ordered maps.  Specification: `Gossamer/Lib/C08Spec.lean` (stack of logical states).

Proved here
* `C08_rollback` — FULL STRENGTH, for every backend (also the in-memory one), every operation of
  the model (limits, child tries, panicking calls) and every nesting depth: `start ++ xs ++ rollback`
  with balanced `xs` restores the state exactly.
* `C08_diffs_sorted` — every diff of every reachable state (any backend, any ops) has strictly
  sorted maps, i.e. is a legal input of the next theorem.
* `C08_applyToTrie_order` — over a correct trie, `applyToTrie` gives the same trie for every
  iteration order of the Go maps (and never panics).
* `C08_refines_partial`, `C08_commit_outermost_partial` — on the transactional key-value fragment
  (put / delete / get on main storage and on child storage, start / commit / rollback at any
  depth), provided no string is used both as a main key and as a child-trie key and no main key
  lies below `:child_storage:default:`, every observable of the model over a correct trie equals
  the specification's, every transaction level has exactly the specification's logical content,
  and the outermost commit leaves exactly the specification's committed state (same entries, same
  child tries, hence the same root for any root function); `C08_commit_direct_partial`: it is the
  state that applying the same operations without a transaction gives.
  Full statement that is NOT provable for the code as it is:
      ∀ ops, observables (model over the ideal trie) ops = observables spec ops.
  The `_counterexample` theorems show it fails outside the fragment, one per known finding.
-/
import Gossamer.Lib.C08SimStep
import Gossamer.Lib.C08Reach
import Gossamer.Lib.C08Transparent
namespace Gossamer.C08
open Gossamer

/-! ### rollback -/

/-- A rollback restores exactly the state at the matching start: any backend `B`, any iteration
    order `ord`, any operations in between whose transactions are balanced. -/
theorem C08_rollback {β τ : Type} (B : Backend β τ) (D : Dumper β) (ord : Diff → ApplyOrder)
    (s : TS β) (xs : List Op) (hb : Balanced xs) :
    (runTS B D ord s ([Op.start] ++ xs ++ [Op.rollback])).1 = s :=
  rollback_exact B D ord s xs hb

/-- the hypothesis is satisfiable by a non-trivial history (nested commit and rollback, limits,
    child tries) -/
example : Balanced [Op.put [1] (some [2]), Op.start, Op.clrl [1] 1, Op.commit, Op.start,
    Op.kill [3], Op.rollback, Op.cput [3] [4] none] := by
  unfold Balanced; rfl

/-! ### reachable diffs are sorted; `applyToTrie` is order independent -/

theorem C08_diffs_sorted {β τ : Type} (B : Backend β τ) (D : Dumper β) (ord : Diff → ApplyOrder)
    (b : β) (ops : List Op) :
    ∀ d ∈ (runTS B D ord { base := b, txs := [] } ops).1.txs, d.SortedD :=
  run_sorted B D ord ops _ (fun _ h => by simp at h)

/-- Go's map iteration order does not matter: for a well-formed committed state `b` and a diff `d`
    with sorted maps (every reachable diff: `C08_diffs_sorted`), any two orders `o1`, `o2` of the
    maps of `d` give the same committed state, without panic. -/
theorem C08_applyToTrie_order (Hc Hm : Entries → Bytes) (b : Logical) (d : Diff)
    (o1 o2 : ApplyOrder) (hb : b.WF) (hd : d.SortedD) (h1 : IsOrderOf d o1) (h2 : IsOrderOf d o2) :
    applyToTrie (idealBackend Hc Hm) b o1 = applyToTrie (idealBackend Hc Hm) b o2 ∧
      (applyToTrie (idealBackend Hc Hm) b o1).isSome = true := by
  rw [applyToTrie_ideal, applyToTrie_ideal, applyIdeal_order hd.wf h1 h2 hb]
  exact ⟨rfl, rfl⟩

/-- the order used by the executable model is one of the orders -/
theorem C08_sortedOrder_isOrder (d : Diff) (hd : d.SortedD) : IsOrderOf d d.sortedOrder :=
  sortedOrder_isOrder hd.wf

/-! ### refinement on the transactional key-value fragment -/

/-- Every observable of the model over a correct trie equals the specification's. -/
theorem C08_refines_partial (Hc Hm : Entries → Bytes) (D : Dumper Logical) (CK : Bytes → Bool)
    (ops : List Op) (hops : ∀ op ∈ ops, OpOK CK op) :
    (runTS (idealBackend Hc Hm) D Diff.sortedOrder { base := Logical.empty, txs := [] } ops).2 =
      (specRun Hc Hm { back := Logical.empty, stack := [] } ops).2 :=
  (sim_run Hc Hm D (sim_init CK) ops hops).2

/-- Contents: after any history of the fragment the committed trie IS the specification's
    committed state and every open transaction level has the specification's logical content; in
    particular the outermost commit leaves the same entries and child tries as the specification
    (which applies the operations directly to a copy), hence the same root. -/
theorem C08_commit_outermost_partial (Hc Hm : Entries → Bytes) (D : Dumper Logical)
    (CK : Bytes → Bool) (ops : List Op) (hops : ∀ op ∈ ops, OpOK CK op) :
    let t := (runTS (idealBackend Hc Hm) D Diff.sortedOrder { base := Logical.empty, txs := [] } ops).1
    let s := (specRun Hc Hm { back := Logical.empty, stack := [] } ops).1
    t.base = s.back ∧ t.txs.map (effL t.base) = s.stack ∧
      (idealBackend Hc Hm).hash t.base = Hm (Logical.view Hc s.back) ∧
      (idealBackend Hc Hm).entries t.base = (Logical.view Hc s.back).map (fun e => (e.1, some e.2)) := by
  intro t s
  have h := (sim_run Hc Hm D (sim_init CK) ops hops).1
  refine ⟨h.back.symm, h.stack.symm, ?_, ?_⟩
  · show Hm (Logical.view Hc t.base) = Hm (Logical.view Hc s.back)
    rw [h.back]
  · show (Logical.view Hc t.base).map _ = _
    rw [h.back]

/-- Committing the outermost transaction gives exactly the state (contents, child tries, hence
    root) that applying the same operations directly, without a transaction, gives — after any
    history `pre` of the fragment that ends with no transaction open. -/
theorem C08_commit_direct_partial (Hc Hm : Entries → Bytes) (D : Dumper Logical) (CK : Bytes → Bool)
    (pre xs : List Op) (hpre : ∀ op ∈ pre, OpOK CK op) (hxs : ∀ op ∈ xs, OpOK CK op)
    (hplain : ∀ op ∈ xs, isTx op = false)
    (hdepth : (runTS (idealBackend Hc Hm) D Diff.sortedOrder
      { base := Logical.empty, txs := [] } pre).1.txs = []) :
    (runTS (idealBackend Hc Hm) D Diff.sortedOrder { base := Logical.empty, txs := [] }
        (pre ++ ([Op.start] ++ xs ++ [Op.commit]))).1 =
      (runTS (idealBackend Hc Hm) D Diff.sortedOrder { base := Logical.empty, txs := [] }
        (pre ++ xs)).1 := by
  rw [runTS_append, runTS_append (l1 := pre)]
  exact commit_direct Hc Hm D (sim_run Hc Hm D (sim_init CK) pre hpre).1 hdepth xs hxs hplain

/-- the fragment is not empty: main and child keys kept apart by a first byte -/
example : ∀ op ∈ [Op.put [1] (some [2]), Op.start, Op.cput [0x4b, 1] [1] (some [3]), Op.start,
    Op.del [1], Op.rollback, Op.cdel [0x4b, 1] [1], Op.commit, Op.get [1], Op.cget [0x4b, 1] [1]],
    OpOK (fun k => k.head? == some 0x4b) op := by
  intro op h
  simp only [List.mem_cons, List.mem_nil_iff, or_false] at h
  rcases h with rfl | rfl | rfl | rfl | rfl | rfl | rfl | rfl | rfl | rfl <;>
    simp [OpOK, Logical.isChildKey, childPrefix, List.isPrefixOf]

/-! ### outside the fragment the code deviates (one witness per known finding) -/

/-- root function used in the witnesses -/
def H0 : Entries → Bytes := fun _ => []

def D0 : Dumper Logical := ⟨fun _ => []⟩

def valOf : Out → Option (Option Bytes)
  | .val v => some v
  | _ => none

def cntOf : Out → Option (Nat × Bool)
  | .cnt n a => some (n, a)
  | _ => none

def lastI (ops : List Op) : Option Out :=
  (runTS (idealBackend H0 H0) D0 Diff.sortedOrder { base := Logical.empty, txs := [] } ops).2.getLast?

def lastS (ops : List Op) : Option Out :=
  (specRun H0 H0 { back := Logical.empty, stack := [] } ops).2.getLast?

/-- finding `deletes-shared-by-main-and-child`: deleting the main key `a` inside a transaction
    deletes the child trie `a` at commit and leaves the main key -/
theorem C08_refines_counterexample_shared_deletes :
    let ops := [Op.put [0x61] (some [1]), Op.cput [0x61] [0x61] (some [2]), Op.start,
      Op.del [0x61], Op.commit, Op.get [0x61]]
    (lastI ops).bind valOf = some (some [1]) ∧ (lastS ops).bind valOf = some none := by decide

/-- finding `child-recreated-after-kill`: a child trie deleted and written again inside one
    transaction keeps its old keys -/
theorem C08_refines_counterexample_kill_then_put :
    let ops := [Op.cput [0x61] [1] (some [2]), Op.start, Op.kill [0x61],
      Op.cput [0x61] [3] (some [4]), Op.commit, Op.cget [0x61] [1]]
    (lastI ops).bind valOf = some (some [2]) ∧ (lastS ops).bind valOf = some none := by decide

/-- finding `alldeleted-counts-nonmatching`: `allDeleted` is false because an unrelated key was
    written in the transaction -/
theorem C08_refines_counterexample_alldeleted :
    let ops := [Op.start, Op.put [0x71] (some [1]), Op.clrl [0x61] 1]
    (lastI ops).bind cntOf = some (0, false) ∧ (lastS ops).bind cntOf = some (0, true) := by decide

/-- finding `child-root-key-unprotected`: a prefix clear inside a transaction hides the root
    entry of a committed child trie -/
theorem C08_refines_counterexample_child_root_key :
    let ops := [Op.cput [0x61] [1] (some [2]), Op.start, Op.clr [], Op.get (childPrefix ++ [0x61])]
    (lastI ops).bind valOf = some none ∧ (lastS ops).bind valOf = some (some []) := by decide

/-- finding `child-root-ignores-overlay`: `GetChildRoot` does not see the transaction -/
theorem C08_refines_counterexample_child_root :
    let ops := [Op.start, Op.cput [0x61] [1] (some [2]), Op.croot [0x61]]
    (lastI ops).bind valOf = some none ∧ (lastS ops).bind valOf = some (some []) := by decide

end Gossamer.C08
