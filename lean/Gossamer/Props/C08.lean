import Gossamer.Lib.C08Spec
namespace Gossamer.C08
end Gossamer.C08
