/-
C08 — Runtime storage transactions are transparent and roll back exactly.

Model: `Gossamer/Model/C08.lean` (`storageDiff` + `TrieState`, generic in the committed trie).
Two instances of the committed trie (`Gossamer/Lib/C08Backend.lean`): `memBackend` = the in-memory
trie as it is (tied to the Go code by the differential run) and `idealBackend` = a correct
`trie.Trie` on ordered maps.  Specification: `Gossamer/Lib/C08Spec.lean` (stack of logical states).

Proved here
* `C08_rollback` — FULL STRENGTH, for every backend (also the in-memory one), every operation of
  the model (limits, child tries, panicking calls) and every nesting depth: `start ++ xs ++ rollback`
  with balanced `xs` restores the state exactly.
* `C08_diffs_sorted` — every diff of every reachable state (any backend, any ops) has strictly
  sorted maps, i.e. is a legal input of the next theorem.
* `C08_applyToTrie_order` — over a correct trie, `applyToTrie` gives the same trie for every
  iteration order of the Go maps (and never panics).
* `C08_refines_partial`, `C08_commit_outermost_partial` — on the fragment put / del / get / next /
  ents / clr / clrl (main storage), cput / cdel / cget / cclr / cclrl / cnext / ckeys / kill / killl
  (child tries), start / commit / rollback at any depth, i.e. every operation of the property with its
  (deleted, allDeleted) results, outside the regions of the known findings (stated exactly at `OpOK`
  and `StepOK`: no string used both as main key and as child-trie key, nothing at or below
  `:child_storage:default:`, no child trie written after it was deleted in the same transaction,
  limited clears only when every key written in the transaction has the prefix, ...),
  every observable of the model over a correct trie equals
  the specification's, every transaction level has exactly the specification's logical content,
  and the outermost commit leaves exactly the specification's committed state (same entries, same
  child tries, hence the same root for any root function); `C08_commit_direct_partial`: it is the
  state that applying the same operations without a transaction gives.
  Full statement that is NOT provable for the code as it is:
      ∀ ops, observables (model over the ideal trie) ops = observables spec ops.
  The `_counterexample` theorems show it fails outside the fragment, one per known finding.
-/
import Gossamer.Lib.C08SimStep
import Gossamer.Lib.C08Reach
import Gossamer.Lib.C08Transparent
import Gossamer.Lib.C08HostSim
namespace Gossamer.C08
open Gossamer

/-! ### rollback -/

/-- A rollback restores exactly the state at the matching start: any backend `B`, any iteration
    order `ord`, any operations in between whose transactions are balanced. -/
theorem C08_rollback {β τ : Type} (B : Backend β τ) (D : Dumper β) (ord : Diff → ApplyOrder)
    (s : TS β) (xs : List Op) (hb : Balanced xs) :
    (runTS B D ord s ([Op.start] ++ xs ++ [Op.rollback])).1 = s :=
  rollback_exact B D ord s xs hb

/-- the hypothesis is satisfiable by a non-trivial history (nested commit and rollback, limits,
    child tries) -/
example : Balanced [Op.put [1] (some [2]), Op.start, Op.clrl [1] 1, Op.commit, Op.start,
    Op.kill [3], Op.rollback, Op.cput [3] [4] none] := by
  unfold Balanced; rfl

/-! ### reachable diffs are sorted; `applyToTrie` is order independent -/

theorem C08_diffs_sorted {β τ : Type} (B : Backend β τ) (D : Dumper β) (ord : Diff → ApplyOrder)
    (b : β) (ops : List Op) :
    ∀ d ∈ (runTS B D ord { base := b, txs := [] } ops).1.txs, d.SortedD :=
  run_sorted B D ord ops _ (fun _ h => by simp at h)

/-- Go's map iteration order does not matter: for a well-formed committed state `b` and a diff `d`
    with sorted maps (every reachable diff: `C08_diffs_sorted`), any two orders `o1`, `o2` of the
    maps of `d` give the same committed state, without panic. -/
theorem C08_applyToTrie_order (Hc Hm : Entries → Bytes) (b : Logical) (d : Diff)
    (o1 o2 : ApplyOrder) (hb : b.WF) (hd : d.SortedD) (h1 : IsOrderOf d o1) (h2 : IsOrderOf d o2) :
    applyToTrie (idealBackend Hc Hm) b o1 = applyToTrie (idealBackend Hc Hm) b o2 ∧
      (applyToTrie (idealBackend Hc Hm) b o1).isSome = true := by
  rw [applyToTrie_ideal, applyToTrie_ideal, applyIdeal_order hd.wf h1 h2 hb]
  exact ⟨rfl, rfl⟩

/-- the order used by the executable model is one of the orders -/
theorem C08_sortedOrder_isOrder (d : Diff) (hd : d.SortedD) : IsOrderOf d d.sortedOrder :=
  sortedOrder_isOrder hd.wf

/-! ### refinement on the fragment `OpOK` / `StepOK` -/

/-- the initial states -/
def t0 : TS Logical := { base := Logical.empty, txs := [] }
def s0 : SS := { back := Logical.empty, stack := [] }

/-- Every observable of the model over a correct trie equals the specification's, for every history
    whose steps are in the fragment (`SafeRun`: `StepOK` at every step — put / del / get / next /
    ents / clr / clrl on main storage, cput / cdel / cget / cclr / cclrl / cnext / ckeys / kill /
    killl on child tries, start / commit / rollback, i.e. every operation of the property except
    `croot` — with the exact exclusions stated at `OpOK` and `StepOK`, which mirror the regions of
    the known findings). -/
theorem C08_refines_partial (Hc Hm : Entries → Bytes) (D : Dumper Logical) (CK : Bytes → Bool)
    (ops : List Op) (hops : SafeRun Hc Hm D CK t0 ops) :
    (runTS (idealBackend Hc Hm) D Diff.sortedOrder t0 ops).2 = (specRun Hc Hm s0 ops).2 :=
  (sim_run Hc Hm D (sim_init CK) ops hops).2

/-- Contents: after any history of the fragment the committed trie IS the specification's
    committed state and every open transaction level has the specification's logical content; in
    particular the outermost commit leaves the same entries and child tries as the specification
    (which applies the operations directly to a copy), hence the same root. -/
theorem C08_commit_outermost_partial (Hc Hm : Entries → Bytes) (D : Dumper Logical)
    (CK : Bytes → Bool) (ops : List Op) (hops : SafeRun Hc Hm D CK t0 ops) :
    let t := (runTS (idealBackend Hc Hm) D Diff.sortedOrder t0 ops).1
    let s := (specRun Hc Hm s0 ops).1
    t.base = s.back ∧ t.txs.map (effL t.base) = s.stack ∧
      (idealBackend Hc Hm).hash t.base = Hm (Logical.view Hc s.back) ∧
      (idealBackend Hc Hm).entries t.base = (Logical.view Hc s.back).map (fun e => (e.1, some e.2)) := by
  intro t s
  have h : Sim CK t s := (sim_run Hc Hm D (sim_init CK) ops hops).1
  have hb : s.back = t.base := h.back
  refine ⟨hb.symm, h.stack.symm, ?_, ?_⟩
  · show Hm (Logical.view Hc t.base) = Hm (Logical.view Hc s.back)
    rw [hb]
  · show (Logical.view Hc t.base).map _ = _
    rw [hb]

/-- A history without child-trie deletion and made of the key-value operations only (`OpOK0`) is in
    the fragment whatever the states are: the static form of the hypothesis. -/
theorem C08_safe_of_static (Hc Hm : Entries → Bytes) (D : Dumper Logical) (CK : Bytes → Bool)
    (ops : List Op) (hops : ∀ op ∈ ops, OpOK0 CK op) : SafeRun Hc Hm D CK t0 ops :=
  safe_of_ok0 Hc Hm D ops hops t0 (fun _ h => by simp [t0] at h)

/-- Committing the outermost transaction gives exactly the state (contents, child tries, hence
    root) that applying the same operations directly, without a transaction, gives — after any
    history `pre` of the key-value fragment that ends with no transaction open.  (With the ordered
    reads in `xs` the statement would be false for the specification itself: inside a transaction
    the child-root entries of the main trie are those of the last commit.) -/
theorem C08_commit_direct_partial (Hc Hm : Entries → Bytes) (D : Dumper Logical) (CK : Bytes → Bool)
    (pre xs : List Op) (hpre : ∀ op ∈ pre, OpOK0 CK op) (hxs : ∀ op ∈ xs, OpOK0 CK op)
    (hplain : ∀ op ∈ xs, isTx op = false)
    (hdepth : (runTS (idealBackend Hc Hm) D Diff.sortedOrder t0 pre).1.txs = []) :
    (runTS (idealBackend Hc Hm) D Diff.sortedOrder t0 (pre ++ ([Op.start] ++ xs ++ [Op.commit]))).1 =
      (runTS (idealBackend Hc Hm) D Diff.sortedOrder t0 (pre ++ xs)).1 := by
  rw [runTS_append, runTS_append (l1 := pre)]
  exact commit_direct Hc Hm D
    (sim_run Hc Hm D (sim_init CK) pre (C08_safe_of_static Hc Hm D CK pre hpre)).1 hdepth xs hxs hplain

/-- the fragment is not empty: a history with every kind of operation, main and child keys kept
    apart by a first byte (checked by evaluation of `SafeRun`) -/
def demoOps : List Op :=
  [Op.put [1] (some [2]), Op.put [1, 5] (some [3]), Op.cput [0x4b, 1] [1] (some [3]), Op.start,
   Op.clr [1], Op.next [], Op.ents, Op.cput [0x4b, 1] [2] none, Op.start, Op.kill [0x4b, 1],
   Op.ckeys [0x4b, 1] [], Op.rollback, Op.cclr [0x4b, 1] [1], Op.cnext [0x4b, 1] [], Op.del [1],
   Op.cdel [0x4b, 1] [2], Op.commit, Op.get [1], Op.cget [0x4b, 1] [1],
   Op.put [2] (some [1]), Op.put [2, 1] (some [1]), Op.clrl [2] 1, Op.cput [0x4b, 2] [1] (some [1]),
   Op.cput [0x4b, 2] [1, 1] (some [2]), Op.start, Op.put [2, 2] (some [3]), Op.clrl [2] 1,
   Op.cput [0x4b, 2] [1, 2] (some [3]), Op.cclrl [0x4b, 2] [1] 1, Op.killl [0x4b, 2] (some 1),
   Op.commit, Op.cclrl [0x4b, 2] [1] 2, Op.killl [0x4b, 2] none]

instance (CK : Bytes → Bool) (op : Op) : Decidable (OpOK CK op) := by
  cases op <;> unfold OpOK <;> infer_instance

instance (CK : Bytes → Bool) (t : TS Logical) (op : Op) : Decidable (StepOK CK t op) := by
  unfold StepOK
  cases op <;> cases t.txs <;> infer_instance

def safeRunB (Hc Hm : Entries → Bytes) (D : Dumper Logical) (CK : Bytes → Bool) :
    TS Logical → List Op → Bool
  | _, [] => true
  | t, op :: r => decide (StepOK CK t op) &&
      safeRunB Hc Hm D CK (stepTS (idealBackend Hc Hm) D Diff.sortedOrder t op).1 r

theorem safeRunB_sound (Hc Hm : Entries → Bytes) (D : Dumper Logical) (CK : Bytes → Bool)
    (ops : List Op) : ∀ t, safeRunB Hc Hm D CK t ops = true → SafeRun Hc Hm D CK t ops := by
  induction ops with
  | nil => intro _ _; trivial
  | cons op r ih =>
    intro t h
    simp only [safeRunB, Bool.and_eq_true, decide_eq_true_eq] at h
    exact ⟨h.1, ih _ h.2⟩

/-! ### host level -/

/-- Host-level refinement (corollary of the simulation behind `C08_refines_partial`): for every
    history of storage host-function calls whose storage steps are in the fragment, the bytes the
    host functions leave in guest memory / their u32 results, computed from the model of `TrieState`
    over a correct trie, are exactly those computed from the specification.  Covered: set, get,
    exists, read, clear, clear_prefix v1/v2, next_key, root v1/v2, start / commit / rollback
    transaction, child set, get, exists, clear, clear_prefix v1/v2, next_key, storage_kill v1/v2
    (not kill_v3 and child root: `HOp.lifted`, `StepOK`). -/
theorem C08_host_refines_partial (Hc Hm : Entries → Bytes) (D : Dumper Logical) (CK : Bytes → Bool)
    (hs : List HOp)
    (hsafe : HostSafe (tsMach (idealBackend Hc Hm) D Diff.sortedOrder) (StepOK CK) t0 hs) :
    (hostRun (tsMach (idealBackend Hc Hm) D Diff.sortedOrder) t0 hs).2 =
      (hostRun (specMach Hc Hm) s0 hs).2 :=
  host_refines Hc Hm D CK hs t0 s0 (sim_init CK) hsafe

/-- the result encodings are decodable: the guest recovers exactly the value that was encoded -/
theorem C08_host_roundtrip (v : Option Bytes) (n : Nat) (all : Bool)
    (hv : ∀ b, v = some b → b.length < 256 ^ 67) (hn : n < 4294967296) :
    decOptVec (optVec v) = some v ∧ decKillEnum (killEnum n all) = some (n, all) ∧
      decOptVec (optVec (some (killEnum n all))) = some (some (killEnum n all)) := by
  refine ⟨decOptVec_optVec v hv, decKillEnum_killEnum n all hn, decOptVec_optVec _ ?_⟩
  intro b hb
  cases hb
  simp [killEnum, length_leBytes]

/-- a host-level history in the fragment -/
def demoHost : List HOp :=
  [HOp.put [1] [2], HOp.start, HOp.get [1], HOp.read [1] 0 4, HOp.has [1], HOp.cput [0x4b, 1] [1] [3],
   HOp.cclrl [0x4b, 1] [1] (some 1), HOp.clr [1], HOp.clrl [1] none, HOp.next [], HOp.cput [0x4b, 1] [2] [3], HOp.killl2 [0x4b, 1] none,
   HOp.root, HOp.chas [0x4b, 1] [1]]

/-! ### outside the fragment the code deviates (one witness per known finding) -/

/-- root function used in the witnesses -/
def H0 : Entries → Bytes := fun _ => []

def D0 : Dumper Logical := ⟨fun _ => []⟩

example : SafeRun H0 H0 D0 (fun k => k.head? == some 0x4b) t0 demoOps :=
  safeRunB_sound _ _ _ _ _ _ (by decide)

def hostSafeB (CK : Bytes → Bool) : TS Logical → List HOp → Bool
  | _, [] => true
  | t, h :: r =>
    h.lifted && (match h.op with | some op => decide (StepOK CK t op) | none => true) &&
      hostSafeB CK (hostStep (tsMach (idealBackend H0 H0) D0 Diff.sortedOrder) t h).1 r

theorem hostSafeB_sound (CK : Bytes → Bool) (hs : List HOp) :
    ∀ t, hostSafeB CK t hs = true →
      HostSafe (tsMach (idealBackend H0 H0) D0 Diff.sortedOrder) (StepOK CK) t hs := by
  induction hs with
  | nil => intro _ _; trivial
  | cons h r ih =>
    intro t hb
    simp only [hostSafeB, Bool.and_eq_true] at hb
    refine ⟨hb.1.1, ?_, ih _ hb.2⟩
    intro op hop
    have := hb.1.2
    rw [hop] at this
    simpa using this

example : HostSafe (tsMach (idealBackend H0 H0) D0 Diff.sortedOrder)
    (StepOK (fun k => k.head? == some 0x4b)) t0 demoHost :=
  hostSafeB_sound _ _ _ (by decide)

def valOf : Out → Option (Option Bytes)
  | .val v => some v
  | _ => none

def cntOf : Out → Option (Nat × Bool)
  | .cnt n a => some (n, a)
  | _ => none

def lastI (ops : List Op) : Option Out :=
  (runTS (idealBackend H0 H0) D0 Diff.sortedOrder { base := Logical.empty, txs := [] } ops).2.getLast?

def lastS (ops : List Op) : Option Out :=
  (specRun H0 H0 { back := Logical.empty, stack := [] } ops).2.getLast?

/-- finding `deletes-shared-by-main-and-child`: deleting the main key `a` inside a transaction
    deletes the child trie `a` at commit and leaves the main key -/
theorem C08_refines_counterexample_shared_deletes :
    let ops := [Op.put [0x61] (some [1]), Op.cput [0x61] [0x61] (some [2]), Op.start,
      Op.del [0x61], Op.commit, Op.get [0x61]]
    (lastI ops).bind valOf = some (some [1]) ∧ (lastS ops).bind valOf = some none := by decide

/-- finding `child-recreated-after-kill`: a child trie deleted and written again inside one
    transaction keeps its old keys -/
theorem C08_refines_counterexample_kill_then_put :
    let ops := [Op.cput [0x61] [1] (some [2]), Op.start, Op.kill [0x61],
      Op.cput [0x61] [3] (some [4]), Op.commit, Op.cget [0x61] [1]]
    (lastI ops).bind valOf = some (some [2]) ∧ (lastS ops).bind valOf = some none := by decide

/-- finding `alldeleted-counts-nonmatching`: `allDeleted` is false because an unrelated key was
    written in the transaction -/
theorem C08_refines_counterexample_alldeleted :
    let ops := [Op.start, Op.put [0x71] (some [1]), Op.clrl [0x61] 1]
    (lastI ops).bind cntOf = some (0, false) ∧ (lastS ops).bind cntOf = some (0, true) := by decide

/-- finding `child-root-key-unprotected`: a prefix clear inside a transaction hides the root
    entry of a committed child trie -/
theorem C08_refines_counterexample_child_root_key :
    let ops := [Op.cput [0x61] [1] (some [2]), Op.start, Op.clr [], Op.get (childPrefix ++ [0x61])]
    (lastI ops).bind valOf = some none ∧ (lastS ops).bind valOf = some (some []) := by decide

/-- finding `child-root-ignores-overlay`: `GetChildRoot` does not see the transaction -/
theorem C08_refines_counterexample_child_root :
    let ops := [Op.start, Op.cput [0x61] [1] (some [2]), Op.croot [0x61]]
    (lastI ops).bind valOf = some none ∧ (lastS ops).bind valOf = some (some []) := by decide

end Gossamer.C08
