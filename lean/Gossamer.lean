-- Root of the `Gossamer` library: core-only modules (Base, Model, Driver).
-- Props/* (theorems) and Audit/* are built per property by ./check.
import Gossamer.Base.Bytes
import Gossamer.Base.Proto
